(* C14 round 3 - proofs about MtOwner.v: along ANY history of a multithreaded compression context, allocation failures
   included, the allocator events account exactly for what the context owns, the current ZSTDMT_sizeof_CCtx reports
   exactly that (never under-reports, never dereferences NULL), the expression before fix eb053f6 is undefined in
   reachable states, a resize without failures repairs any state, ZSTDMT_freeCCtx releases everything. *)
From Coq Require Import NArith ZArith List Bool Lia.
From ZV.Mem Require Import DOwner DOwnerProofs.
From ZV.Mem Require Import MtOwner.
Import ListNotations.
Local Open Scope N_scope.

Lemma try_alloc_live n fs ok e fs' X :
  try_alloc n fs = (ok, e, fs') -> live_after X e = X + (if ok then n else 0).
Proof.
  unfold try_alloc. destruct fs as [ | [ | ] r]; intros E; injection E as <- <- <-; cbn; lia.
Qed.

Lemma try_alloc_ok n fs e fs' X : try_alloc n fs = (true, e, fs') -> live_after X e = X + n.
Proof. intros E. rewrite (try_alloc_live _ _ _ _ _ X E). reflexivity. Qed.
Lemma try_alloc_ko n fs e fs' X : try_alloc n fs = (false, e, fs') -> live_after X e = X.
Proof. intros E. rewrite (try_alloc_live _ _ _ _ _ X E). lia. Qed.
Ltac ta H L := match type of H with
  | try_alloc _ _ = (true, _, _) => pose proof (fun Y => try_alloc_ok _ _ _ _ Y H) as L
  | try_alloc _ _ = (false, _, _) => pose proof (fun Y => try_alloc_ko _ _ _ _ Y H) as L end.

Lemma sumN_cons a l : sumN (a :: l) = a + sumN l.
Proof. reflexivity. Qed.
Lemma sumN_nil : sumN [] = 0.
Proof. reflexivity. Qed.

Lemma frees_live l X : live_after (X + sumN l) (map Free l) = X.
Proof.
  revert X. induction l as [ | a r IH]; intros X.
  - cbn. lia.
  - change (sumN (a :: r)) with (a + sumN r). cbn [map]. rewrite la_free.
    replace (X + (a + sumN r) - a) with (X + sumN r) by lia. apply IH.
Qed.

Lemma free_pool_live zs ze p X : live_after (X + pool_bytes zs ze p) (free_pool zs ze p) = X.
Proof.
  unfold free_pool, pool_bytes. rewrite live_after_app.
  replace (X + (zs + p_total p * ze + sumN (p_items p))) with ((X + zs + p_total p * ze) + sumN (p_items p)) by lia.
  rewrite frees_live, !la_free, la_nil. lia.
Qed.

Lemma create_pool_live zs ze t fs r e fs' X :
  create_pool zs ze t fs = (r, e, fs') -> live_after X e = X + opool_bytes zs ze r.
Proof.
  unfold create_pool. destruct (try_alloc zs fs) as [[ok1 e1] fs1] eqn:E1.
  destruct ok1; ta E1 L1.
  - destruct (try_alloc (t * ze) fs1) as [[ok2 e2] fs2] eqn:E2.
    destruct ok2; ta E2 L2; intros E; injection E as <- <- <-; rewrite live_after_app, L1.
    + rewrite L2. unfold opool_bytes, pool_bytes. cbn [p_total p_items]. cbn. lia.
    + rewrite la_free, la_nil. cbn [opool_bytes]. lia.
  - intros E; injection E as <- <- <-. rewrite la_nil. cbn [opool_bytes]. lia.
Qed.

Lemma create_cpool_live z t fs r e fs' X :
  create_cpool z t fs = (r, e, fs') -> live_after X e = X + opool_bytes (z_cctxpool z) (z_ptr z) r.
Proof.
  unfold create_cpool. destruct (try_alloc (z_cctxpool z) fs) as [[ok1 e1] fs1] eqn:E1.
  destruct ok1; ta E1 L1.
  - destruct (try_alloc (t * z_ptr z) fs1) as [[ok2 e2] fs2] eqn:E2.
    destruct ok2; ta E2 L2.
    + destruct (try_alloc (z_cctx z) fs2) as [[ok3 e3] fs3] eqn:E3.
      destruct ok3; ta E3 L3; intros E; injection E as <- <- <-; rewrite !live_after_app, L1, L2.
      * rewrite L3. unfold opool_bytes, pool_bytes. cbn [p_total p_items]. change (sumN [z_cctx z]) with (z_cctx z + 0). lia.
      * rewrite !la_free, la_nil. cbn [opool_bytes]. lia.
    + intros E; injection E as <- <- <-. rewrite live_after_app, L1, la_free, la_nil. cbn [opool_bytes]. lia.
  - intros E; injection E as <- <- <-. rewrite la_nil. cbn [opool_bytes]. lia.
Qed.

Lemma expand_with_live create zs ze p want fs r e fs' X :
  (forall t f r0 e0 f0 Y, create t f = (r0, e0, f0) -> live_after Y e0 = Y + opool_bytes zs ze r0) ->
  expand_with create zs ze p want fs = (r, e, fs') ->
  live_after (X + opool_bytes zs ze p) e = X + opool_bytes zs ze r.
Proof.
  intros HC. unfold expand_with. destruct p as [q | ].
  - destruct (want <=? p_total q).
    + intros E; injection E as <- <- <-. reflexivity.
    + destruct (create want fs) as [[r0 e0] f0] eqn:EC. intros E; injection E as <- <- <-.
      rewrite live_after_app. cbn [opool_bytes]. rewrite free_pool_live. exact (HC _ _ _ _ _ X EC).
  - intros E. cbn [opool_bytes]. rewrite N.add_0_r. exact (HC _ _ _ _ _ X E).
Qed.

Lemma release_into_live zs ze p cap p' e X :
  release_into p cap = (p', e) ->
  live_after (X + pool_bytes zs ze p + cap) e = X + pool_bytes zs ze p' /\ p_total p' = p_total p.
Proof.
  unfold release_into. destruct (N.of_nat (length (p_items p)) <? p_total p); intros E; injection E as <- <-.
  - split; [ | reflexivity ]. rewrite la_nil. unfold pool_bytes. cbn [p_total p_items]; rewrite ?sumN_cons, ?sumN_nil. lia.
  - split; [ | reflexivity ]. rewrite la_free, la_nil. lia.
Qed.

Lemma release_all_live zs ze l : forall p p' e X,
  release_all p l = (p', e) ->
  live_after (X + pool_bytes zs ze p + sumN l) e = X + pool_bytes zs ze p' /\ p_total p' = p_total p.
Proof.
  induction l as [ | c r IH]; intros p p' e X; cbn [release_all]; rewrite ?sumN_cons, ?sumN_nil.
  - intros E; injection E as <- <-. split; [ rewrite la_nil; lia | reflexivity ].
  - destruct (release_into p c) as [p1 e1] eqn:E1. destruct (release_all p1 r) as [p2 e2] eqn:E2.
    intros E; injection E as <- <-.
    destruct (release_into_live zs ze p c p1 e1 (X + sumN r) E1) as [A1 T1].
    destruct (IH p1 p2 e2 X E2) as [A2 T2].
    split; [ | congruence ]. rewrite live_after_app.
    replace (X + pool_bytes zs ze p + (c + sumN r)) with (X + sumN r + pool_bytes zs ze p + c) by lia.
    rewrite A1. replace (X + sumN r + pool_bytes zs ze p1) with (X + pool_bytes zs ze p1 + sumN r) by lia. exact A2.
Qed.

Lemma get_buffer_live zs ze p cap ok p' got e X :
  get_buffer p cap ok = (p', got, e) ->
  live_after (X + pool_bytes zs ze p) e = X + pool_bytes zs ze p' + (match got with Some c => c | None => 0 end)
  /\ p_total p' = p_total p.
Proof.
  unfold get_buffer, pool_bytes. destruct (p_items p) as [ | c rest] eqn:EI.
  - destruct ok; intros E; injection E as <- <- <-; rewrite EI; rewrite ?sumN_cons, ?sumN_nil; rewrite ?la_alloc, ?la_nil; split; try reflexivity; lia.
  - destruct ((cap <=? c) && (c / 8 <=? cap)).
    + intros E; injection E as <- <- <-. cbn [p_total p_items]; rewrite ?sumN_cons, ?sumN_nil. rewrite la_nil. split; [ lia | reflexivity ].
    + destruct ok; intros E; injection E as <- <- <-; cbn [p_total p_items]; rewrite ?sumN_cons, ?sumN_nil;
        rewrite ?la_free, ?la_alloc, ?la_nil; split; try reflexivity; lia.
Qed.

Lemma remove_nth_sum i : forall l x r, remove_nth i l = Some (x, r) -> sumN l = x + sumN r.
Proof.
  induction i as [ | k IH]; intros l x r; destruct l as [ | y t]; cbn [remove_nth]; try discriminate.
  - intros E; injection E as <- <-. reflexivity.
  - destruct (remove_nth k t) as [[y' r'] | ] eqn:ER; [ | discriminate ].
    intros E; injection E as <- <-. rewrite ?sumN_cons, ?sumN_nil. rewrite (IH t y' r' ER). rewrite ?sumN_cons, ?sumN_nil. lia.
Qed.

(* ------------------------------------------------------------------ *)
Section WithSizes.
Variable z : mtsz.

Notation bufB := (opool_bytes (z_bufpool z) (z_buffer z)).
Notation ctxB := (opool_bytes (z_cctxpool z) (z_ptr z)).

Lemma mt_release_all_live s s' e B :
  mt_release_all s = (s', e) ->
  live_after (B + mt_owned z s) e = B + mt_owned z s' /\ mt_inflight s' = [] /\ mt_nbw s' = mt_nbw s.
Proof.
  unfold mt_release_all, mt_owned. destruct (mt_buf s) as [p | ] eqn:EB.
  - destruct (release_all p (mt_inflight s)) as [p' e'] eqn:ER. intros E; injection E as <- <-.
    cbn [mt_threads mt_jobs mt_buf mt_inflight mt_cctx mt_seq mt_round mt_ldmH mt_ldmB mt_cdict mt_nbw opool_bytes]; rewrite ?sumN_cons, ?sumN_nil.
    split; [ | split; reflexivity ].
    destruct (release_all_live (z_bufpool z) (z_buffer z) _ _ _ _
                (B + z_mtctx z + factory_bytes z (mt_threads s) + jobs_bytes z (mt_jobs s) + ctxB (mt_cctx s) + bufB (mt_seq s)
                 + mt_round s + mt_ldmH s + mt_ldmB s + mt_cdict s) ER) as [A _].
    match goal with |- live_after ?L _ = _ => replace L with
      (B + z_mtctx z + factory_bytes z (mt_threads s) + jobs_bytes z (mt_jobs s) + ctxB (mt_cctx s) + bufB (mt_seq s)
       + mt_round s + mt_ldmH s + mt_ldmB s + mt_cdict s + pool_bytes (z_bufpool z) (z_buffer z) p + sumN (mt_inflight s)) by lia end.
    rewrite A. lia.
  - intros E; injection E as <- <-.
    cbn [mt_threads mt_jobs mt_buf mt_inflight mt_cctx mt_seq mt_round mt_ldmH mt_ldmB mt_cdict mt_nbw opool_bytes]; rewrite ?sumN_cons, ?sumN_nil.
    split; [ | split; reflexivity ].
    match goal with |- live_after ?L _ = _ => replace L with
      (B + z_mtctx z + factory_bytes z (mt_threads s) + jobs_bytes z (mt_jobs s) + ctxB (mt_cctx s) + bufB (mt_seq s)
       + mt_round s + mt_ldmH s + mt_ldmB s + mt_cdict s + sumN (mt_inflight s)) by lia end.
    rewrite frees_live. lia.
Qed.

Lemma resize_threads_live threads n fs ok th e fs' :
  resize_threads z threads n fs = (ok, th, e, fs') ->
  forall Y, live_after (Y + factory_bytes z threads) e = Y + factory_bytes z th.
Proof.
  unfold resize_threads. destruct (n <=? threads).
  - intros E; injection E as <- <- <- <-. intros Y; reflexivity.
  - destruct (try_alloc (n * z_thread z) fs) as [[ok0 e0] f0] eqn:E0.
    destruct ok0; ta E0 L0; intros E; injection E as <- <- <- <-; intros Y.
    + rewrite live_after_app, L0, la_free, la_nil. unfold factory_bytes. lia.
    + reflexivity.
Qed.

Lemma resize_jobs_live jobs n fs ok j' e fs' :
  resize_jobs z jobs n fs = (ok, j', e, fs') ->
  forall Y, live_after (Y + jobs_bytes z jobs) e = Y + jobs_bytes z j'.
Proof.
  unfold resize_jobs.
  assert (LF : forall Y, live_after (Y + jobs_bytes z jobs) (match jobs with Some j => [Free (j * z_job z)] | None => [] end) = Y).
  { intros Y. destruct jobs; cbn [jobs_bytes]; rewrite ?la_free, la_nil; lia. }
  destruct ((match jobs with Some j => j | None => 1 end) <? n + 2).
  - destruct (try_alloc (jobs_pow2 (n + 2) * z_job z) fs) as [[ok0 e0] f0] eqn:E0.
    destruct ok0; ta E0 L0; intros E; injection E as <- <- <- <-; intros Y.
    + rewrite live_after_app, LF, L0. reflexivity.
    + rewrite LF. cbn [jobs_bytes]. lia.
  - intros E; injection E as <- <- <- <-. intros Y; reflexivity.
Qed.

(* ZSTDMT_resize: events = change of what is owned; success <-> the requested worker count is recorded, failure records 0 *)
Lemma mt_resize_live s n fs s' ok e fs' B :
  mt_resize z s n fs = (s', ok, e, fs') ->
  live_after (B + mt_owned z s) e = B + mt_owned z s'
  /\ mt_nbw s' = (if ok then n else 0) /\ mt_inflight s' = mt_inflight s.
Proof.
  unfold mt_resize.
  set (R := B + z_mtctx z + sumN (mt_inflight s) + mt_round s + mt_ldmH s + mt_ldmB s + mt_cdict s).
  destruct (resize_threads z (mt_threads s) n fs) as [[[okT th] eT] fsT] eqn:ET.
  pose proof (resize_threads_live _ _ _ _ _ _ _ ET) as LT.
  destruct okT; cbn [negb].
  2:{ intros E; injection E as <- <- <- <-. cbn [mt_nbw mt_inflight]. split; [ | split; reflexivity ].
      unfold mt_owned. cbn [mt_threads mt_jobs mt_buf mt_inflight mt_cctx mt_seq mt_round mt_ldmH mt_ldmB mt_cdict].
      match goal with |- live_after ?L _ = _ => replace L with
        (R + jobs_bytes z (mt_jobs s) + bufB (mt_buf s) + ctxB (mt_cctx s) + bufB (mt_seq s) + factory_bytes z (mt_threads s)) by (unfold R; lia) end.
      rewrite LT. unfold R. lia. }
  destruct (resize_jobs z (mt_jobs s) n fsT) as [[[okJ jobs] eJ] fsJ] eqn:EJ.
  pose proof (resize_jobs_live _ _ _ _ _ _ _ EJ) as LJ.
  destruct okJ; cbn [negb].
  2:{ intros E; injection E as <- <- <- <-. cbn [mt_nbw mt_inflight]. split; [ | split; reflexivity ].
      unfold mt_owned. cbn [mt_threads mt_jobs mt_buf mt_inflight mt_cctx mt_seq mt_round mt_ldmH mt_ldmB mt_cdict].
      rewrite live_after_app.
      match goal with |- live_after (live_after ?L _) _ = _ => replace L with
        (R + jobs_bytes z (mt_jobs s) + bufB (mt_buf s) + ctxB (mt_cctx s) + bufB (mt_seq s) + factory_bytes z (mt_threads s)) by (unfold R; lia) end.
      rewrite LT.
      replace (R + jobs_bytes z (mt_jobs s) + bufB (mt_buf s) + ctxB (mt_cctx s) + bufB (mt_seq s) + factory_bytes z th)
        with (R + bufB (mt_buf s) + ctxB (mt_cctx s) + bufB (mt_seq s) + factory_bytes z th + jobs_bytes z (mt_jobs s)) by lia.
      rewrite LJ. unfold R. lia. }
  (* the three pools *)
  destruct (expand_with (create_pool (z_bufpool z) (z_buffer z)) (z_bufpool z) (z_buffer z) (mt_buf s) (2 * n + 3) fsJ) as [[pB eB] fsB] eqn:EB.
  pose proof (fun Y => expand_with_live _ _ _ _ _ _ _ _ _ Y
                (fun t f r0 e0 f0 Y0 H => create_pool_live (z_bufpool z) (z_buffer z) t f r0 e0 f0 Y0 H) EB) as LB.
  assert (PRE : forall es, live_after (B + mt_owned z s) (eT ++ eJ ++ eB ++ es)
                           = live_after (R + factory_bytes z th + jobs_bytes z jobs + ctxB (mt_cctx s) + bufB (mt_seq s) + bufB pB) es).
  { intros es. rewrite !live_after_app. unfold mt_owned.
    match goal with |- live_after (live_after (live_after (live_after ?L _) _) _) _ = _ => replace L with
      (R + jobs_bytes z (mt_jobs s) + bufB (mt_buf s) + ctxB (mt_cctx s) + bufB (mt_seq s) + factory_bytes z (mt_threads s)) by (unfold R; lia) end.
    rewrite LT.
    replace (R + jobs_bytes z (mt_jobs s) + bufB (mt_buf s) + ctxB (mt_cctx s) + bufB (mt_seq s) + factory_bytes z th)
      with (R + bufB (mt_buf s) + ctxB (mt_cctx s) + bufB (mt_seq s) + factory_bytes z th + jobs_bytes z (mt_jobs s)) by lia.
    rewrite LJ.
    replace (R + bufB (mt_buf s) + ctxB (mt_cctx s) + bufB (mt_seq s) + factory_bytes z th + jobs_bytes z jobs)
      with (R + ctxB (mt_cctx s) + bufB (mt_seq s) + factory_bytes z th + jobs_bytes z jobs + bufB (mt_buf s)) by lia.
    rewrite LB. f_equal. lia. }
  destruct pB as [b | ].
  2:{ intros E; injection E as <- <- <- <-. cbn [mt_nbw mt_inflight]. split; [ | split; reflexivity ].
      replace (eT ++ eJ ++ eB) with (eT ++ eJ ++ eB ++ []) by (rewrite app_nil_r; reflexivity).
      rewrite PRE, la_nil. unfold mt_owned, R.
      cbn [mt_threads mt_jobs mt_buf mt_inflight mt_cctx mt_seq mt_round mt_ldmH mt_ldmB mt_cdict opool_bytes]. lia. }
  destruct (expand_with (create_cpool z) (z_cctxpool z) (z_ptr z) (mt_cctx s) n fsB) as [[pC eC] fsC] eqn:EC.
  pose proof (fun Y => expand_with_live _ _ _ _ _ _ _ _ _ Y
                (fun t f r0 e0 f0 Y0 H => create_cpool_live z t f r0 e0 f0 Y0 H) EC) as LC.
  destruct pC as [c | ].
  2:{ intros E; injection E as <- <- <- <-. cbn [mt_nbw mt_inflight]. split; [ | split; reflexivity ].
      rewrite PRE.
      replace (R + factory_bytes z th + jobs_bytes z jobs + ctxB (mt_cctx s) + bufB (mt_seq s) + bufB (Some b))
        with (R + factory_bytes z th + jobs_bytes z jobs + bufB (mt_seq s) + bufB (Some b) + ctxB (mt_cctx s)) by lia.
      rewrite LC. unfold mt_owned, R.
      cbn [mt_threads mt_jobs mt_buf mt_inflight mt_cctx mt_seq mt_round mt_ldmH mt_ldmB mt_cdict]. change (ctxB None) with 0. lia. }
  destruct (expand_with (create_pool (z_bufpool z) (z_buffer z)) (z_bufpool z) (z_buffer z) (mt_seq s) n fsC) as [[pS eS] fsS] eqn:ES.
  pose proof (fun Y => expand_with_live _ _ _ _ _ _ _ _ _ Y
                (fun t f r0 e0 f0 Y0 H => create_pool_live (z_bufpool z) (z_buffer z) t f r0 e0 f0 Y0 H) ES) as LS.
  assert (POST : live_after (B + mt_owned z s) (eT ++ eJ ++ eB ++ eC ++ eS)
                 = R + factory_bytes z th + jobs_bytes z jobs + bufB (Some b) + ctxB (Some c) + bufB pS).
  { rewrite PRE, live_after_app.
    replace (R + factory_bytes z th + jobs_bytes z jobs + ctxB (mt_cctx s) + bufB (mt_seq s) + bufB (Some b))
      with (R + factory_bytes z th + jobs_bytes z jobs + bufB (mt_seq s) + bufB (Some b) + ctxB (mt_cctx s)) by lia.
    rewrite LC.
    replace (R + factory_bytes z th + jobs_bytes z jobs + bufB (mt_seq s) + bufB (Some b) + ctxB (Some c))
      with (R + factory_bytes z th + jobs_bytes z jobs + bufB (Some b) + ctxB (Some c) + bufB (mt_seq s)) by lia.
    rewrite LS. reflexivity. }
  destruct pS as [q | ]; intros E; injection E as <- <- <- <-; cbn [mt_nbw mt_inflight]; (split; [ | split; reflexivity ]);
    rewrite POST; unfold mt_owned, R;
    cbn [mt_threads mt_jobs mt_buf mt_inflight mt_cctx mt_seq mt_round mt_ldmH mt_ldmB mt_cdict]; lia.
Qed.

Lemma mt_dict_live s d ok s' rc e B :
  mt_dict s d ok = (s', rc, e) -> live_after (B + mt_owned z s) e = B + mt_owned z s'.
Proof.
  unfold mt_dict.
    assert (L0 : forall Y, live_after (Y + mt_cdict s) (if mt_cdict s =? 0 then [] else [Free (mt_cdict s)]) = Y).
    { intros Y. destruct (N.eqb_spec (mt_cdict s) 0) as [Z0 | NZ]; rewrite ?la_free, la_nil; lia. }
    unfold mt_owned.
    destruct d as [b | ]; [ destruct ok | ]; intros E; injection E as <- <- <-;
      cbn [mt_threads mt_jobs mt_buf mt_inflight mt_cctx mt_seq mt_round mt_ldmH mt_ldmB mt_cdict];
      rewrite ?live_after_app; rewrite N.add_assoc; rewrite L0; rewrite ?la_alloc, ?la_nil; lia.
Qed.

Lemma mt_roundbuf_live s cap ok s' rc e B :
  mt_roundbuf s cap ok = (s', rc, e) -> live_after (B + mt_owned z s) e = B + mt_owned z s'.
Proof.
  unfold mt_roundbuf.
    unfold mt_owned. destruct (mt_round s <? cap); [ | intros E; injection E as <- <- <-; reflexivity ].
    assert (L0 : forall Y, live_after (Y + mt_round s) (if mt_round s =? 0 then [] else [Free (mt_round s)]) = Y).
    { intros Y. destruct (N.eqb_spec (mt_round s) 0) as [Z0 | NZ]; rewrite ?la_free, la_nil; lia. }
    destruct ok; intros E; injection E as <- <- <-;
      cbn [mt_threads mt_jobs mt_buf mt_inflight mt_cctx mt_seq mt_round mt_ldmH mt_ldmB mt_cdict];
      rewrite ?live_after_app;
      match goal with |- live_after ?L _ = _ \/ _ => idtac | |- context [live_after ?L (if mt_round s =? 0 then [] else _)] =>
        replace L with ((B + (z_mtctx z + factory_bytes z (mt_threads s) + jobs_bytes z (mt_jobs s) + bufB (mt_buf s) + sumN (mt_inflight s)
                              + ctxB (mt_cctx s) + bufB (mt_seq s)) + mt_ldmH s + mt_ldmB s + mt_cdict s) + mt_round s) by lia end;
      rewrite L0; rewrite ?la_alloc, ?la_nil; lia.
Qed.

Lemma mt_ldm_live s logs ok1 ok2 s' rc e B :
  mt_ldm z s logs ok1 ok2 = (s', rc, e) -> live_after (B + mt_owned z s) e = B + mt_owned z s'.
Proof.
  unfold mt_ldm.
    unfold mt_owned. destruct logs as [[hl bl] | ]; [ | intros E; injection E as <- <- <-; reflexivity ].
    set (hsz := 2 ^ hl * z_ldmEntry z). set (bsz := 2 ^ bl).
    assert (LH : exists h eH, (if (mt_ldmH s =? 0) || (mt_prevH s <? hl)
                               then ((if ok1 then hsz else 0), (if mt_ldmH s =? 0 then [] else [Free (mt_ldmH s)]) ++ (if ok1 then [Alloc hsz] else []))
                               else (mt_ldmH s, [])) = (h, eH) /\ forall Y, live_after (Y + mt_ldmH s) eH = Y + h).
    { destruct ((mt_ldmH s =? 0) || (mt_prevH s <? hl)).
      - eexists _, _. split; [ reflexivity | ]. intros Y. rewrite live_after_app.
        destruct (N.eqb_spec (mt_ldmH s) 0) as [Z0 | NZ]; destruct ok1; rewrite ?la_free, ?la_alloc, ?la_nil; lia.
      - eexists _, _. split; [ reflexivity | intros Y; reflexivity ]. }
    destruct LH as (h & eH & -> & LH).
    assert (LB : exists b eB, (if (mt_ldmB s =? 0) || (mt_prevB s <? bl)
                               then ((if ok2 then bsz else 0), (if mt_ldmB s =? 0 then [] else [Free (mt_ldmB s)]) ++ (if ok2 then [Alloc bsz] else []))
                               else (mt_ldmB s, [])) = (b, eB) /\ forall Y, live_after (Y + mt_ldmB s) eB = Y + b).
    { destruct ((mt_ldmB s =? 0) || (mt_prevB s <? bl)).
      - eexists _, _. split; [ reflexivity | ]. intros Y. rewrite live_after_app.
        destruct (N.eqb_spec (mt_ldmB s) 0) as [Z0 | NZ]; destruct ok2; rewrite ?la_free, ?la_alloc, ?la_nil; lia.
      - eexists _, _. split; [ reflexivity | intros Y; reflexivity ]. }
    destruct LB as (b & eB & -> & LB).
    destruct ((h =? 0) || (b =? 0)); intros E; injection E as <- <- <-;
      cbn [mt_threads mt_jobs mt_buf mt_inflight mt_cctx mt_seq mt_round mt_ldmH mt_ldmB mt_cdict];
      rewrite live_after_app;
      match goal with |- live_after (live_after ?L _) _ = _ =>
        replace L with ((B + (z_mtctx z + factory_bytes z (mt_threads s) + jobs_bytes z (mt_jobs s) + bufB (mt_buf s) + sumN (mt_inflight s)
                              + ctxB (mt_cctx s) + bufB (mt_seq s)) + mt_round s + mt_ldmB s + mt_cdict s) + mt_ldmH s) by lia end;
      rewrite LH;
      match goal with |- live_after ?L _ = _ =>
        replace L with ((B + (z_mtctx z + factory_bytes z (mt_threads s) + jobs_bytes z (mt_jobs s) + bufB (mt_buf s) + sumN (mt_inflight s)
                              + ctxB (mt_cctx s) + bufB (mt_seq s)) + mt_round s + h + mt_cdict s) + mt_ldmB s) by lia end;
      rewrite LB; lia.
Qed.

(* the three keep the jobs table, the buffer pool and the buffers in flight *)
Lemma mt_dict_keeps s d ok s' rc e : mt_dict s d ok = (s', rc, e) -> mt_inflight s' = mt_inflight s /\ mt_jobs s' = mt_jobs s /\ mt_buf s' = mt_buf s.
Proof. unfold mt_dict. destruct d as [b | ]; [ destruct ok | ]; intros E; injection E as <- <- <-; cbn; auto. Qed.
Lemma mt_roundbuf_keeps s cap ok s' rc e : mt_roundbuf s cap ok = (s', rc, e) -> mt_inflight s' = mt_inflight s /\ mt_jobs s' = mt_jobs s /\ mt_buf s' = mt_buf s.
Proof. unfold mt_roundbuf. destruct (mt_round s <? cap); [ destruct ok | ]; intros E; injection E as <- <- <-; cbn; auto. Qed.
Lemma mt_ldm_keeps s logs ok1 ok2 s' rc e : mt_ldm z s logs ok1 ok2 = (s', rc, e) -> mt_inflight s' = mt_inflight s /\ mt_jobs s' = mt_jobs s /\ mt_buf s' = mt_buf s.
Proof.
  unfold mt_ldm. destruct logs as [[hl bl] | ]; [ | intros E; injection E as <- <- <-; cbn; auto ].
  destruct ((mt_ldmH s =? 0) || (mt_prevH s <? hl)); destruct ((mt_ldmB s =? 0) || (mt_prevB s <? bl));
    match goal with |- context [if ?c then _ else _] => destruct c end; intros E; injection E as <- <- <-; cbn; auto.
Qed.

(* ZSTDMT_initCStream_internal as one operation *)
Lemma mt_init_live s n fs dict round ldm s' rc e B :
  mt_init z s n fs dict round ldm = (s', rc, e) ->
  live_after (B + mt_owned z s) e = B + mt_owned z s' /\ (n <> 0 -> mt_inflight s' = []).
Proof.
  unfold mt_init. destruct (N.eqb_spec n 0) as [-> | NZ]; [ intros E; injection E as <- <- <-; split; [ reflexivity | congruence ] | ].
  destruct (mt_release_all s) as [s1 e1] eqn:E1.
  destruct (mt_release_all_live s s1 e1 B E1) as (A1 & I1 & _).
  assert (R2 : exists s2 ok e2 fs2, (if n =? mt_nbw s1 then (s1, true, [], fs) else mt_resize z s1 n fs) = (s2, ok, e2, fs2)
               /\ live_after (B + mt_owned z s1) e2 = B + mt_owned z s2 /\ mt_inflight s2 = []).
  { destruct (n =? mt_nbw s1).
    - eexists _, _, _, _. split; [ reflexivity | split; [ reflexivity | exact I1 ] ].
    - destruct (mt_resize z s1 n fs) as [[[s2 ok] e2] f2] eqn:E2.
      destruct (mt_resize_live s1 n fs s2 ok e2 f2 B E2) as (A2 & _ & IF).
      eexists _, _, _, _. split; [ reflexivity | split; [ exact A2 | congruence ] ]. }
  destruct R2 as (s2 & ok & e2 & fs2 & -> & A2 & I2).
  destruct ok; cbn [negb].
  2:{ intros E; injection E as <- <- <-. split; [ rewrite live_after_app, A1; exact A2 | intros _; exact I2 ]. }
  destruct (match dict with Some _ => next_ok fs2 | None => (true, fs2) end) as [okD fs3].
  destruct (mt_dict s2 dict okD) as [[s3 rc3] e3] eqn:E3.
  pose proof (mt_dict_live s2 dict okD s3 rc3 e3 B E3) as A3. destruct (mt_dict_keeps _ _ _ _ _ _ E3) as (K3 & _ & _).
  assert (P3 : live_after (B + mt_owned z s) (e1 ++ e2 ++ e3) = B + mt_owned z s3) by (rewrite !live_after_app, A1, A2; exact A3).
  destruct (if mt_round s3 <? round then next_ok fs3 else (true, fs3)) as [okR fs4].
  destruct (mt_roundbuf s3 round okR) as [[s4 rc4] e4] eqn:E4.
  pose proof (mt_roundbuf_live s3 round okR s4 rc4 e4 B E4) as A4. destruct (mt_roundbuf_keeps _ _ _ _ _ _ E4) as (K4 & _ & _).
  assert (P4 : live_after (B + mt_owned z s) (e1 ++ e2 ++ e3 ++ e4) = B + mt_owned z s4).
  { replace (e1 ++ e2 ++ e3 ++ e4) with ((e1 ++ e2 ++ e3) ++ e4) by (rewrite <- !app_assoc; reflexivity). rewrite live_after_app, P3. exact A4. }
  destruct (match ldm with Some (hl, _) => if (mt_ldmH s4 =? 0) || (mt_prevH s4 <? hl) then next_ok fs4 else (true, fs4) | None => (true, fs4) end) as [ok1 fs5].
  destruct (match ldm with Some (_, bl) => if (mt_ldmB s4 =? 0) || (mt_prevB s4 <? bl) then next_ok fs5 else (true, fs5) | None => (true, fs5) end) as [ok2 fs6].
  destruct (mt_ldm z s4 ldm ok1 ok2) as [[s5 rc5] e5] eqn:E5.
  pose proof (mt_ldm_live s4 ldm ok1 ok2 s5 rc5 e5 B E5) as A5. destruct (mt_ldm_keeps _ _ _ _ _ _ _ E5) as (K5 & _ & _).
  assert (P5 : live_after (B + mt_owned z s) (e1 ++ e2 ++ e3 ++ e4 ++ e5) = B + mt_owned z s5).
  { replace (e1 ++ e2 ++ e3 ++ e4 ++ e5) with ((e1 ++ e2 ++ e3 ++ e4) ++ e5) by (rewrite <- !app_assoc; reflexivity). rewrite live_after_app, P4. exact A5. }
  destruct rc3, rc4; intros E; injection E as <- <- <-;
    (split; [ assumption | intros _; congruence ]).
Qed.

(* one operation *)
Lemma mt_step_live s o s' rc e B :
  mt_step z s o = (s', rc, e) -> live_after (B + mt_owned z s) e = B + mt_owned z s'.
Proof.
  destruct o as [n fs | d ok | cap ok | logs ok1 ok2 | cap ok | i | bytes ok | ws ok1 ok2 | n fs dict round ldm]; cbn [mt_step].
  - (* MStart *)
    destruct (n =? 0); [ intros E; injection E as <- <- <-; reflexivity | ].
    destruct (mt_release_all s) as [s1 e1] eqn:E1.
    destruct (mt_release_all_live s s1 e1 B E1) as (A1 & _ & _).
    destruct (n =? mt_nbw s1).
    + intros E; injection E as <- <- <-. exact A1.
    + destruct (mt_resize z s1 n fs) as [[[s2 ok] e2] f2] eqn:E2.
      destruct (mt_resize_live s1 n fs s2 ok e2 f2 B E2) as (A2 & _ & _).
      intros E; injection E as <- <- <-. rewrite live_after_app, A1. exact A2.
  - (* MDict *) apply mt_dict_live.
  - (* MRound *) apply mt_roundbuf_live.
  - (* MLdm *) apply mt_ldm_live.
  - (* MGetBuf *)
    destruct (mt_buf s) as [p | ] eqn:EB; [ | intros E; injection E as <- <- <-; reflexivity ].
    destruct (mt_jobs s) as [j | ] eqn:EJ; [ | intros E; injection E as <- <- <-; reflexivity ].
    destruct (N.of_nat (length (mt_inflight s)) <? j); [ | intros E; injection E as <- <- <-; reflexivity ].
    destruct (get_buffer p cap ok) as [[p' got] e0] eqn:EG.
    destruct (get_buffer_live (z_bufpool z) (z_buffer z) p cap ok p' got e0
                (B + z_mtctx z + factory_bytes z (mt_threads s) + jobs_bytes z (Some j) + sumN (mt_inflight s)
                 + ctxB (mt_cctx s) + bufB (mt_seq s) + mt_round s + mt_ldmH s + mt_ldmB s + mt_cdict s) EG) as [A _].
    unfold mt_owned. rewrite EB, EJ.
    destruct got as [c | ]; intros E; injection E as <- <- <-; unfold upd_buf;
      cbn [mt_threads mt_jobs mt_buf mt_inflight mt_cctx mt_seq mt_round mt_ldmH mt_ldmB mt_cdict opool_bytes]; rewrite ?sumN_cons, ?sumN_nil, ?EJ;
      match goal with |- live_after ?L _ = _ => replace L with
        (B + z_mtctx z + factory_bytes z (mt_threads s) + jobs_bytes z (Some j) + sumN (mt_inflight s)
         + ctxB (mt_cctx s) + bufB (mt_seq s) + mt_round s + mt_ldmH s + mt_ldmB s + mt_cdict s + pool_bytes (z_bufpool z) (z_buffer z) p) by lia end;
      rewrite A; lia.
  - (* MFlush *)
    destruct (mt_buf s) as [p | ] eqn:EB; [ | intros E; injection E as <- <- <-; reflexivity ].
    destruct (remove_nth i (mt_inflight s)) as [[c rest] | ] eqn:ER; [ | intros E; injection E as <- <- <-; reflexivity ].
    destruct (release_into p c) as [p' e0] eqn:EI.
    destruct (release_into_live (z_bufpool z) (z_buffer z) p c p' e0
                (B + z_mtctx z + factory_bytes z (mt_threads s) + jobs_bytes z (mt_jobs s) + sumN rest
                 + ctxB (mt_cctx s) + bufB (mt_seq s) + mt_round s + mt_ldmH s + mt_ldmB s + mt_cdict s) EI) as [A _].
    pose proof (remove_nth_sum i _ _ _ ER) as SUM.
    intros E; injection E as <- <- <-. unfold mt_owned, upd_buf. rewrite EB, SUM.
    cbn [mt_threads mt_jobs mt_buf mt_inflight mt_cctx mt_seq mt_round mt_ldmH mt_ldmB mt_cdict opool_bytes].
    match goal with |- live_after ?L _ = _ => replace L with
      (B + z_mtctx z + factory_bytes z (mt_threads s) + jobs_bytes z (mt_jobs s) + sumN rest
       + ctxB (mt_cctx s) + bufB (mt_seq s) + mt_round s + mt_ldmH s + mt_ldmB s + mt_cdict s + pool_bytes (z_bufpool z) (z_buffer z) p + c) by lia end.
    rewrite A. lia.
  - (* MSeqUse *)
    destruct (mt_seq s) as [p | ] eqn:ES; [ | intros E; injection E as <- <- <-; reflexivity ].
    destruct (get_buffer p bytes ok) as [[p1 got] e1] eqn:EG.
    set (X := B + z_mtctx z + factory_bytes z (mt_threads s) + jobs_bytes z (mt_jobs s) + bufB (mt_buf s) + sumN (mt_inflight s)
              + ctxB (mt_cctx s) + mt_round s + mt_ldmH s + mt_ldmB s + mt_cdict s).
    destruct (get_buffer_live (z_bufpool z) (z_buffer z) p bytes ok p1 got e1 X EG) as [A1 _].
    unfold mt_owned. rewrite ES.
    destruct got as [c | ].
    + destruct (release_into p1 c) as [p2 e2] eqn:EI.
      destruct (release_into_live (z_bufpool z) (z_buffer z) p1 c p2 e2 X EI) as [A2 _].
      intros E; injection E as <- <- <-.
      cbn [mt_threads mt_jobs mt_buf mt_inflight mt_cctx mt_seq mt_round mt_ldmH mt_ldmB mt_cdict opool_bytes].
      rewrite live_after_app.
      match goal with |- live_after (live_after ?L _) _ = _ => replace L with (X + pool_bytes (z_bufpool z) (z_buffer z) p) by (unfold X; lia) end.
      rewrite A1, A2. unfold X. lia.
    + intros E; injection E as <- <- <-.
      cbn [mt_threads mt_jobs mt_buf mt_inflight mt_cctx mt_seq mt_round mt_ldmH mt_ldmB mt_cdict opool_bytes].
      match goal with |- live_after ?L _ = _ => replace L with (X + pool_bytes (z_bufpool z) (z_buffer z) p) by (unfold X; lia) end.
      rewrite A1. unfold X. lia.
  - (* MCtxUse *)
    destruct (mt_cctx s) as [p | ] eqn:EC; [ | intros E; injection E as <- <- <-; reflexivity ].
    set (X := B + z_mtctx z + factory_bytes z (mt_threads s) + jobs_bytes z (mt_jobs s) + bufB (mt_buf s) + sumN (mt_inflight s)
              + bufB (mt_seq s) + mt_round s + mt_ldmH s + mt_ldmB s + mt_cdict s).
    assert (G : exists p1 got e1,
               (match p_items p with
                | c :: rest => (mkPool (p_total p) rest, Some c, [])
                | [] => if ok1 then (p, Some (z_cctx z), [Alloc (z_cctx z)]) else (p, None, [])
                end) = (p1, got, e1)
               /\ live_after (X + pool_bytes (z_cctxpool z) (z_ptr z) p) e1
                  = X + pool_bytes (z_cctxpool z) (z_ptr z) p1 + (match got with Some c => c | None => 0 end)).
    { unfold pool_bytes. destruct (p_items p) as [ | c rest] eqn:EI.
      - destruct ok1; eexists _, _, _; (split; [ reflexivity | ]); rewrite EI; rewrite ?sumN_cons, ?sumN_nil; rewrite ?la_alloc, ?la_nil; lia.
      - eexists _, _, _. split; [ reflexivity | ]. cbn [p_total p_items]; rewrite ?sumN_cons, ?sumN_nil. rewrite la_nil. lia. }
    destruct G as (p1 & got & e1 & -> & A1).
    unfold mt_owned. rewrite EC.
    destruct got as [c | ].
    2:{ intros E; injection E as <- <- <-.
        cbn [mt_threads mt_jobs mt_buf mt_inflight mt_cctx mt_seq mt_round mt_ldmH mt_ldmB mt_cdict opool_bytes].
        match goal with |- live_after ?L _ = _ => replace L with (X + pool_bytes (z_cctxpool z) (z_ptr z) p) by (unfold X; lia) end.
        rewrite A1. unfold X. lia. }
    assert (W : exists c' e2,
               (match ws with
                | Some w => if ok2 then (z_cctx z + w, [Free c; Alloc (z_cctx z + w)])
                            else (z_cctx z, [Free c; Alloc (z_cctx z)])
                | None => (c, [])
                end) = (c', e2)
               /\ forall Y, live_after (Y + c) e2 = Y + c').
    { destruct ws as [w | ]; [ destruct ok2 | ]; eexists _, _; (split; [ reflexivity | ]); intros Y;
        rewrite ?la_free, ?la_alloc, ?la_nil; lia. }
    destruct W as (c' & e2 & -> & A2).
    destruct (release_into p1 c') as [p2 e3] eqn:EI.
    destruct (release_into_live (z_cctxpool z) (z_ptr z) p1 c' p2 e3 X EI) as [A3 _].
    intros E; injection E as <- <- <-.
    cbn [mt_threads mt_jobs mt_buf mt_inflight mt_cctx mt_seq mt_round mt_ldmH mt_ldmB mt_cdict opool_bytes].
    rewrite !live_after_app.
    match goal with |- live_after (live_after (live_after ?L _) _) _ = _ => replace L with (X + pool_bytes (z_cctxpool z) (z_ptr z) p) by (unfold X; lia) end.
    rewrite A1, A2, A3. unfold X. lia.
  - (* MInit *) intros E. exact (proj1 (mt_init_live s n fs dict round ldm s' rc e B E)).
Qed.


Lemma mt_run_live ops : forall s s' outs B,
  mt_run z s ops = (s', outs) -> live_after (B + mt_owned z s) (mt_all_events outs) = B + mt_owned z s'.
Proof.
  induction ops as [ | o rest IH]; intros s s' outs B E; cbn [mt_run] in E.
  - injection E as <- <-. reflexivity.
  - destruct (mt_step z s o) as [[s1 rc] es] eqn:E1. destruct (mt_run z s1 rest) as [s2 outs2] eqn:E2.
    injection E as <- <-. unfold mt_all_events. cbn [flat_map snd]. rewrite live_after_app.
    rewrite (mt_step_live s o s1 rc es B E1). exact (IH s1 s2 outs2 B E2).
Qed.

(* buffers are in flight only while the jobs table and the buffer pool exist *)
Definition mt_inv (s : mtown) : Prop := (mt_jobs s = None \/ mt_buf s = None) -> mt_inflight s = [].

Lemma mt_resize_fields s n fs s' ok e fs' :
  mt_resize z s n fs = (s', ok, e, fs') -> mt_inflight s' = mt_inflight s.
Proof. intros E. exact (proj2 (proj2 (mt_resize_live s n fs s' ok e fs' 0 E))). Qed.

Lemma mt_step_inv s o s' rc e : mt_inv s -> mt_step z s o = (s', rc, e) -> mt_inv s'.
Proof.
  unfold mt_inv. intros Hi.
  destruct o as [n fs | d ok | cap ok | logs ok1 ok2 | cap ok | i | bytes ok | ws ok1 ok2 | n fs dict round ldm]; cbn [mt_step].
  - destruct (n =? 0); [ intros E; injection E as <- <- <-; exact Hi | ].
    destruct (mt_release_all s) as [s1 e1] eqn:E1.
    destruct (mt_release_all_live s s1 e1 0 E1) as (_ & I1 & _).
    destruct (n =? mt_nbw s1).
    + intros E; injection E as <- <- <-. intros _. exact I1.
    + destruct (mt_resize z s1 n fs) as [[[s2 ok] e2] f2] eqn:E2.
      intros E; injection E as <- <- <-. intros _. rewrite (mt_resize_fields _ _ _ _ _ _ _ E2). exact I1.
  - intros E. destruct (mt_dict_keeps _ _ _ _ _ _ E) as (-> & -> & ->). exact Hi.
  - intros E. destruct (mt_roundbuf_keeps _ _ _ _ _ _ E) as (-> & -> & ->). exact Hi.
  - intros E. destruct (mt_ldm_keeps _ _ _ _ _ _ _ E) as (-> & -> & ->). exact Hi.
  - destruct (mt_buf s) as [p | ] eqn:EB; [ | intros E; injection E as <- <- <-; rewrite ?EB, ?EJ; exact Hi ].
    destruct (mt_jobs s) as [j | ] eqn:EJ; [ | intros E; injection E as <- <- <-; rewrite ?EB, ?EJ; exact Hi ].
    destruct (N.of_nat (length (mt_inflight s)) <? j); [ | intros E; injection E as <- <- <-; rewrite ?EB, ?EJ; exact Hi ].
    destruct (get_buffer p cap ok) as [[p' got] e0]. destruct got; intros E; injection E as <- <- <-; unfold upd_buf;
      cbn [mt_jobs mt_buf mt_inflight]; rewrite EJ; intros [H | H]; discriminate.
  - destruct (mt_buf s) as [p | ] eqn:EB; [ | intros E; injection E as <- <- <-; rewrite ?EB, ?EJ; exact Hi ].
    destruct (remove_nth i (mt_inflight s)) as [[c rest] | ] eqn:ER; [ | intros E; injection E as <- <- <-; rewrite ?EB, ?EJ; exact Hi ].
    destruct (release_into p c) as [p' e0]. intros E; injection E as <- <- <-. unfold upd_buf. cbn [mt_jobs mt_buf mt_inflight].
    intros [H | H]; [ | discriminate ]. rewrite (Hi (or_introl H)) in ER. destruct i; discriminate.
  - destruct (mt_seq s) as [p | ]; [ | intros E; injection E as <- <- <-; exact Hi ].
    destruct (get_buffer p bytes ok) as [[p1 got] e1]. destruct got as [c | ].
    + destruct (release_into p1 c) as [p2 e2]. intros E; injection E as <- <- <-. exact Hi.
    + intros E; injection E as <- <- <-. exact Hi.
  - destruct (mt_cctx s) as [p | ]; [ | intros E; injection E as <- <- <-; exact Hi ].
    destruct (p_items p) as [ | c0 rest].
    + destruct ok1.
      * destruct ws as [w | ]; [ destruct ok2 | ];
          match goal with |- context [release_into ?a ?b] => destruct (release_into a b) as [p2 e3] end;
          intros E; injection E as <- <- <-; exact Hi.
      * intros E; injection E as <- <- <-; exact Hi.
    + destruct ws as [w | ]; [ destruct ok2 | ];
        match goal with |- context [release_into ?a ?b] => destruct (release_into a b) as [p2 e3] end;
        intros E; injection E as <- <- <-; exact Hi.
  - intros E. destruct (N.eq_dec n 0) as [-> | NZ].
    + unfold mt_init in E. cbn in E. injection E as <- <- <-. exact Hi.
    + intros _. exact (proj2 (mt_init_live s n fs dict round ldm s' rc e 0 E) NZ).
Qed.

Lemma mt_run_inv ops : forall s s' outs, mt_inv s -> mt_run z s ops = (s', outs) -> mt_inv s'.
Proof.
  induction ops as [ | o rest IH]; intros s s' outs Hi E; cbn [mt_run] in E.
  - injection E as <- <-. exact Hi.
  - destruct (mt_step z s o) as [[s1 rc] es] eqn:E1. destruct (mt_run z s1 rest) as [s2 outs2] eqn:E2.
    injection E as <- <-. exact (IH s1 s2 outs2 (mt_step_inv s o s1 rc es Hi E1) E2).
Qed.

(* the current ZSTDMT_sizeof_CCtx is what the context owns *)
Lemma mt_sizeof_is_owned s : mt_inv s -> mt_sizeof z s = mt_owned z s.
Proof.
  unfold mt_inv, mt_sizeof, mt_owned. intros Hi. destruct (mt_jobs s) as [j | ] eqn:EJ.
  - lia.
  - rewrite (Hi (or_introl eq_refl)). cbn. lia.
Qed.

(* the expression before fix eb053f6, WHEN it is defined, is what the context owns *)
Lemma mt_sizeof_old_is_owned s v : mt_sizeof_old z s = Some v -> v = mt_owned z s.
Proof.
  unfold mt_sizeof_old, mt_owned. destruct (mt_jobs s), (mt_buf s), (mt_cctx s), (mt_seq s); try discriminate.
  intros E; injection E as <-. cbn [opool_bytes jobs_bytes]. lia.
Qed.

(* ZSTDMT_createCCtx_advanced: all or nothing *)
Lemma create_factory_live n fs ok e fs' X :
  create_factory z n fs = (ok, e, fs') -> live_after X e = X + (if ok then factory_bytes z n else 0).
Proof.
  unfold create_factory, factory_bytes. destruct (try_alloc (z_pool z) fs) as [[ok1 e1] fs1] eqn:E1.
  destruct ok1; ta E1 L1.
  - destruct (try_alloc (z_pooljob z) fs1) as [[ok2 e2] fs2] eqn:E2.
    destruct (try_alloc (n * z_thread z) fs2) as [[ok3 e3] fs3] eqn:E3.
    destruct ok2, ok3; ta E2 L2; ta E3 L3; cbn [andb]; intros E; injection E as <- <- <-;
      rewrite !live_after_app, L1, L2, L3; cbn [app]; rewrite ?la_free, ?la_nil; lia.
  - intros E; injection E as <- <- <-. rewrite la_nil. lia.
Qed.

Lemma mt_create_live n fs r e fs' X :
  mt_create z n fs = (r, e, fs') ->
  live_after X e = X + (match r with Some s => mt_owned z s | None => 0 end)
  /\ (forall s, r = Some s -> mt_inv s /\ mt_sizeof_old z s <> None).
Proof.
  unfold mt_create. destruct (n =? 0).
  { intros E; injection E as <- <- <-. split; [ rewrite la_nil; lia | intros s; discriminate ]. }
  set (m := N.min n (z_maxWorkers z)).
  destruct (try_alloc (z_mtctx z) fs) as [[ok0 e0] fs0] eqn:E0.
  destruct ok0; ta E0 L0.
  2:{ intros E; injection E as <- <- <-. split; [ rewrite la_nil; lia | intros s; discriminate ]. }
  destruct (create_factory z m fs0) as [[okF eF] fsF] eqn:EF.
  pose proof (fun Y => create_factory_live _ _ _ _ _ Y EF) as LF.
  destruct (try_alloc (jobs_pow2 (m + 2) * z_job z) fsF) as [[okJ eJ] fsJ] eqn:EJ.
  pose proof (fun Y => try_alloc_live _ _ _ _ _ Y EJ) as LJ.
  destruct (create_pool (z_bufpool z) (z_buffer z) (2 * m + 3) fsJ) as [[pB eB] fsB] eqn:EB.
  pose proof (fun Y => create_pool_live _ _ _ _ _ _ _ Y EB) as LB.
  destruct (create_cpool z m fsB) as [[pC eC] fsC] eqn:EC.
  pose proof (fun Y => create_cpool_live _ _ _ _ _ _ Y EC) as LC.
  destruct (create_pool (z_bufpool z) (z_buffer z) m fsC) as [[pS eS] fsS] eqn:ES.
  pose proof (fun Y => create_pool_live _ _ _ _ _ _ _ Y ES) as LS.
  assert (PRE : forall es, live_after X (((e0 ++ eF ++ eJ ++ eB ++ eC ++ eS)) ++ es)
                = live_after (X + z_mtctx z + (if okF then factory_bytes z m else 0) + (if okJ then jobs_pow2 (m + 2) * z_job z else 0)
                              + bufB pB + ctxB pC + bufB pS) es).
  { intros es. rewrite !live_after_app, L0, LF, LJ, LB, LC, LS. reflexivity. }
  assert (TAIL : forall Y,
            live_after (Y + z_mtctx z + (if okF then factory_bytes z m else 0) + (if okJ then jobs_pow2 (m + 2) * z_job z else 0)
                        + bufB pB + ctxB pC + bufB pS)
              ((if okF then [Free (z_pooljob z); Free (m * z_thread z); Free (z_pool z)] else [])
               ++ (if okJ then [Free (jobs_pow2 (m + 2) * z_job z)] else [])
               ++ (match pB with Some b => free_pool (z_bufpool z) (z_buffer z) b | None => [] end)
               ++ (match pC with Some c => free_pool (z_cctxpool z) (z_ptr z) c | None => [] end)
               ++ (match pS with Some q => free_pool (z_bufpool z) (z_buffer z) q | None => [] end)
               ++ [Free (z_mtctx z)]) = Y).
  { intros Y. rewrite !live_after_app.
    replace (Y + z_mtctx z + (if okF then factory_bytes z m else 0) + (if okJ then jobs_pow2 (m + 2) * z_job z else 0) + bufB pB + ctxB pC + bufB pS)
      with ((Y + z_mtctx z + (if okJ then jobs_pow2 (m + 2) * z_job z else 0) + bufB pB + ctxB pC + bufB pS) + (if okF then factory_bytes z m else 0)) by lia.
    assert (A1 : forall W, live_after (W + (if okF then factory_bytes z m else 0)) (if okF then [Free (z_pooljob z); Free (m * z_thread z); Free (z_pool z)] else []) = W).
    { intros W. unfold factory_bytes. destruct okF; rewrite ?la_free, la_nil; lia. }
    rewrite A1.
    replace (Y + z_mtctx z + (if okJ then jobs_pow2 (m + 2) * z_job z else 0) + bufB pB + ctxB pC + bufB pS)
      with ((Y + z_mtctx z + bufB pB + ctxB pC + bufB pS) + (if okJ then jobs_pow2 (m + 2) * z_job z else 0)) by lia.
    assert (A2 : forall W, live_after (W + (if okJ then jobs_pow2 (m + 2) * z_job z else 0)) (if okJ then [Free (jobs_pow2 (m + 2) * z_job z)] else []) = W).
    { intros W. destruct okJ; rewrite ?la_free, la_nil; lia. }
    rewrite A2.
    assert (A3 : forall zs ze p W, live_after (W + opool_bytes zs ze p) (match p with Some b => free_pool zs ze b | None => [] end) = W).
    { intros zs ze p W. destruct p; cbn [opool_bytes]; [ apply free_pool_live | rewrite la_nil; lia ]. }
    replace (Y + z_mtctx z + bufB pB + ctxB pC + bufB pS) with ((Y + z_mtctx z + ctxB pC + bufB pS) + bufB pB) by lia. rewrite A3.
    replace (Y + z_mtctx z + ctxB pC + bufB pS) with ((Y + z_mtctx z + bufB pS) + ctxB pC) by lia. rewrite A3.
    rewrite A3, la_free, la_nil. lia. }
  destruct okF, okJ, pB as [b | ], pC as [c | ], pS as [q | ]; intros E; injection E as <- <- <-;
    try (split; [ rewrite PRE, TAIL; lia | intros s0; discriminate ]).
  split.
  - replace (e0 ++ eF ++ eJ ++ eB ++ eC ++ eS) with ((e0 ++ eF ++ eJ ++ eB ++ eC ++ eS) ++ []) by apply app_nil_r.
    rewrite PRE, la_nil. unfold mt_owned.
    cbn [mt_threads mt_jobs mt_buf mt_inflight mt_cctx mt_seq mt_round mt_ldmH mt_ldmB mt_cdict jobs_bytes]. rewrite sumN_nil. lia.
  - intros s0 E; injection E as <-. split; [ intros _; reflexivity | cbn; discriminate ].
Qed.

(* ZSTDMT_freeCCtx releases everything *)
Lemma mt_free_live s B : live_after (B + mt_owned z s) (mt_free_events z s) = B.
Proof.
  unfold mt_free_events.
  set (Q := B + z_mtctx z + jobs_bytes z (mt_jobs s) + ctxB (mt_cctx s) + bufB (mt_seq s) + mt_round s + mt_ldmH s + mt_ldmB s + mt_cdict s).
  (* the factory *)
  rewrite live_after_app.
  replace (B + mt_owned z s) with (Q + bufB (mt_buf s) + sumN (mt_inflight s) + z_pooljob z + mt_threads s * z_thread z + z_pool z)
    by (unfold Q, mt_owned, factory_bytes; lia).
  rewrite !la_free, la_nil.
  replace (Q + bufB (mt_buf s) + sumN (mt_inflight s) + z_pooljob z + mt_threads s * z_thread z + z_pool z - z_pooljob z
           - mt_threads s * z_thread z - z_pool z) with (Q + bufB (mt_buf s) + sumN (mt_inflight s)) by lia.
  (* ZSTDMT_releaseAllJobResources *)
  rewrite live_after_app.
  assert (A1 : live_after (Q + bufB (mt_buf s) + sumN (mt_inflight s)) (snd (mt_release_all s)) = Q + bufB (mt_buf (fst (mt_release_all s)))).
  { unfold mt_release_all. destruct (mt_buf s) as [p | ] eqn:EB.
    - destruct (release_all p (mt_inflight s)) as [p' e'] eqn:ER. cbn [fst snd mt_buf opool_bytes].
      destruct (release_all_live (z_bufpool z) (z_buffer z) _ _ _ _ Q ER) as [A _]. exact A.
    - cbn [fst snd mt_buf opool_bytes]. rewrite N.add_0_r, frees_live. lia. }
  rewrite A1.
  set (pb := mt_buf (fst (mt_release_all s))).
  assert (AJ : forall W, live_after (W + jobs_bytes z (mt_jobs s)) (match mt_jobs s with Some j => [Free (j * z_job z)] | None => [] end) = W).
  { intros W. destruct (mt_jobs s); cbn [jobs_bytes]; rewrite ?la_free, la_nil; lia. }
  assert (A3 : forall zs ze p W, live_after (W + opool_bytes zs ze p) (match p with Some b => free_pool zs ze b | None => [] end) = W).
  { intros zs ze p W. destruct p; cbn [opool_bytes]; [ apply free_pool_live | rewrite la_nil; lia ]. }
  rewrite live_after_app.
  replace (Q + bufB pb) with ((B + z_mtctx z + ctxB (mt_cctx s) + bufB (mt_seq s) + mt_round s + mt_ldmH s + mt_ldmB s + mt_cdict s + bufB pb)
                              + jobs_bytes z (mt_jobs s)) by (unfold Q; lia).
  rewrite AJ, live_after_app.
  replace (B + z_mtctx z + ctxB (mt_cctx s) + bufB (mt_seq s) + mt_round s + mt_ldmH s + mt_ldmB s + mt_cdict s + bufB pb)
    with ((B + z_mtctx z + ctxB (mt_cctx s) + bufB (mt_seq s) + mt_round s + mt_ldmH s + mt_ldmB s + mt_cdict s) + bufB pb) by lia.
  rewrite A3, live_after_app.
  replace (B + z_mtctx z + ctxB (mt_cctx s) + bufB (mt_seq s) + mt_round s + mt_ldmH s + mt_ldmB s + mt_cdict s)
    with ((B + z_mtctx z + bufB (mt_seq s) + mt_round s + mt_ldmH s + mt_ldmB s + mt_cdict s) + ctxB (mt_cctx s)) by lia.
  rewrite A3, live_after_app.
  replace (B + z_mtctx z + bufB (mt_seq s) + mt_round s + mt_ldmH s + mt_ldmB s + mt_cdict s)
    with ((B + z_mtctx z + mt_round s + mt_ldmH s + mt_ldmB s + mt_cdict s) + bufB (mt_seq s)) by lia.
  rewrite A3, !la_free, la_nil. lia.
Qed.

End WithSizes.

(* ------------------------------------------------------------------ *)
(* final statements (for every build: the structure sizes are universally quantified) *)

(* for EVERY history - worker-count changes with ANY allocation failing, dictionaries, round buffer, LDM tables growing and
   failing, output buffers taken / flushed in any order, sequence buffers and worker contexts of any size - the bytes
   outstanding at the allocator are exactly what the context owns, and the current ZSTDMT_sizeof_CCtx reports exactly that *)
Lemma mt_sizeof_exact_l :
  forall z n fs0 s0 e0 f0 ops s outs,
    mt_create z n fs0 = (Some s0, e0, f0) ->
    mt_run z s0 ops = (s, outs) ->
    live_after 0 (e0 ++ mt_all_events outs) = mt_sizeof z s.
Proof.
  intros z n fs0 s0 e0 f0 ops s outs EC ER.
  destruct (mt_create_live z n fs0 (Some s0) e0 f0 0 EC) as [A0 H0]. destruct (H0 s0 eq_refl) as [I0 _].
  rewrite live_after_app, A0. pose proof (mt_run_live z ops s0 s outs 0 ER) as A1. rewrite A1.
  rewrite (mt_sizeof_is_owned z s (mt_run_inv z ops s0 s outs I0 ER)). lia.
Qed.

(* a failed creation leaves nothing behind *)
Lemma mt_create_failed_l : forall z n fs e f X, mt_create z n fs = (None, e, f) -> live_after X e = X.
Proof. intros z n fs e f X E. destruct (mt_create_live z n fs None e f X E) as [A _]. rewrite A. lia. Qed.

(* the expression used before fix eb053f6: exact where it is defined ... *)
Lemma mt_sizeof_old_exact_l :
  forall z n fs0 s0 e0 f0 ops s outs v,
    mt_create z n fs0 = (Some s0, e0, f0) -> mt_run z s0 ops = (s, outs) ->
    mt_sizeof_old z s = Some v -> v = live_after 0 (e0 ++ mt_all_events outs).
Proof.
  intros z n fs0 s0 e0 f0 ops s outs v EC ER EV.
  rewrite (mt_sizeof_exact_l z n fs0 s0 e0 f0 ops s outs EC ER).
  destruct (mt_create_live z n fs0 (Some s0) e0 f0 0 EC) as [_ H0]. destruct (H0 s0 eq_refl) as [I0 _].
  rewrite (mt_sizeof_is_owned z s (mt_run_inv z ops s0 s outs I0 ER)). exact (mt_sizeof_old_is_owned z s v EV).
Qed.

(* ... and undefined (a NULL pool or a NULL jobs table is dereferenced) after EVERY resize that fails beyond the thread
   handle array, whatever the state, the worker count and the failure schedule *)
Lemma mt_sizeof_old_undefined_l :
  forall z s n fs th eT fsT s' e fs',
    resize_threads z (mt_threads s) n fs = (true, th, eT, fsT) ->
    mt_resize z s n fs = (s', false, e, fs') ->
    mt_sizeof_old z s' = None.
Proof.
  intros z s n fs th eT fsT s' e fs' ET. unfold mt_resize. rewrite ET. cbn [negb].
  destruct (resize_jobs z (mt_jobs s) n fsT) as [[[okJ jobs] eJ] fsJ] eqn:EJ.
  destruct okJ; cbn [negb].
  2:{ intros E; injection E as <- <- <-. unfold resize_jobs in EJ.
      destruct ((match mt_jobs s with Some j => j | None => 1 end) <? n + 2); [ | discriminate ].
      destruct (try_alloc (jobs_pow2 (n + 2) * z_job z) fsT) as [[ok0 e0] f0]. destruct ok0; [ discriminate | ].
      injection EJ as <- <- <-. reflexivity. }
  destruct (expand_with _ _ _ (mt_buf s) (2 * n + 3) fsJ) as [[pB eB] fsB].
  destruct pB as [b | ]; [ | intros E; injection E as <- <- <-; unfold mt_sizeof_old; cbn; destruct jobs; reflexivity ].
  destruct (expand_with _ _ _ (mt_cctx s) n fsB) as [[pC eC] fsC].
  destruct pC as [c | ]; [ | intros E; injection E as <- <- <-; unfold mt_sizeof_old; cbn; destruct jobs; reflexivity ].
  destruct (expand_with _ _ _ (mt_seq s) n fsC) as [[pS eS] fsS].
  destruct pS as [q | ]; [ discriminate | intros E; injection E as <- <- <-; unfold mt_sizeof_old; cbn; destruct jobs; reflexivity ].
Qed.

Lemma jobs_pow2_gt x : x < jobs_pow2 x.
Proof.
  unfold jobs_pow2. destruct (N.eq_dec x 0) as [-> | NZ]; [ reflexivity | ].
  pose proof (N.log2_spec x ltac:(lia)) as [_ H]. rewrite <- N.add_1_r in H. exact H.
Qed.

Lemma create_pool_nofail zs ze t : create_pool zs ze t [] = (Some (mkPool t []), [Alloc zs; Alloc (t * ze)], []).
Proof. reflexivity. Qed.
Lemma create_cpool_nofail z t : exists e, create_cpool z t [] = (Some (mkPool t [z_cctx z]), e, []).
Proof. eexists. reflexivity. Qed.

(* a resize WITHOUT allocation failure repairs ANY state (NULL pools, NULL jobs table, forgotten worker count) *)
Lemma mt_resize_recovers_l :
  forall z s n s' ok e fs',
    mt_resize z s n [] = (s', ok, e, fs') ->
    ok = true /\ mt_nbw s' = n /\ mt_sizeof_old z s' <> None
    /\ (exists j b c q, mt_jobs s' = Some j /\ n + 2 <= j /\ mt_buf s' = Some b /\ 2 * n + 3 <= p_total b
                        /\ mt_cctx s' = Some c /\ n <= p_total c /\ mt_seq s' = Some q /\ n <= p_total q).
Proof.
  intros z s n s' ok e fs'. unfold mt_resize.
  assert (HT : exists th eT, resize_threads z (mt_threads s) n [] = (true, th, eT, [])).
  { unfold resize_threads. destruct (n <=? mt_threads s); eexists _, _; reflexivity. }
  destruct HT as (th & eT & ->). cbn [negb].
  assert (HJ : exists j eJ, resize_jobs z (mt_jobs s) n [] = (true, Some j, eJ, []) /\ n + 2 <= j).
  { unfold resize_jobs. destruct (N.ltb_spec (match mt_jobs s with Some j => j | None => 1 end) (n + 2)) as [LT | GE].
    - eexists _, _. split; [ reflexivity | ]. pose proof (jobs_pow2_gt (n + 2)). lia.
    - destruct (mt_jobs s) as [j | ]; [ | lia ]. eexists _, _. split; [ reflexivity | exact GE ]. }
  destruct HJ as (j & eJ & -> & GJ). cbn [negb].
  assert (HB : forall p want, exists b eB, expand_with (create_pool (z_bufpool z) (z_buffer z)) (z_bufpool z) (z_buffer z) p want [] = (Some b, eB, []) /\ want <= p_total b).
  { intros p want. unfold expand_with. destruct p as [q | ].
    - destruct (N.leb_spec want (p_total q)); [ eexists _, _; split; [ reflexivity | assumption ] | ].
      rewrite create_pool_nofail. eexists _, _. split; [ reflexivity | cbn; lia ].
    - rewrite create_pool_nofail. eexists _, _. split; [ reflexivity | cbn; lia ]. }
  assert (HC : forall p want, exists c eC, expand_with (create_cpool z) (z_cctxpool z) (z_ptr z) p want [] = (Some c, eC, []) /\ want <= p_total c).
  { intros p want. unfold expand_with. destruct p as [q | ].
    - destruct (N.leb_spec want (p_total q)); [ eexists _, _; split; [ reflexivity | assumption ] | ].
      destruct (create_cpool_nofail z want) as [e0 ->]. eexists _, _. split; [ reflexivity | cbn; lia ].
    - destruct (create_cpool_nofail z want) as [e0 ->]. eexists _, _. split; [ reflexivity | cbn; lia ]. }
  destruct (HB (mt_buf s) (2 * n + 3)) as (b & eB & -> & GB).
  destruct (HC (mt_cctx s) n) as (c & eC & -> & GC).
  destruct (HB (mt_seq s) n) as (q & eS & -> & GS).
  intros E; injection E as <- <- <- <-.
  split; [ reflexivity | split; [ reflexivity | split ] ].
  - unfold mt_sizeof_old. cbn. discriminate.
  - exists j, b, c, q. cbn. repeat split; assumption.
Qed.

(* hence the session after a failed resize repairs the context, whatever worker count it asks for (the failed resize
   recorded nbWorkers = 0, so the next ZSTDMT_initCStream_internal resizes again: fixes 3a42f3b / 44900dc) *)
Lemma mt_next_session_recovers_l :
  forall z s n fs s1 e fs' m,
    mt_inflight s = [] ->
    mt_resize z s n fs = (s1, false, e, fs') ->
    m <> 0 ->
    exists s2 e2, mt_step z s1 (MStart m []) = (s2, MOk, e2) /\ mt_nbw s2 = m /\ mt_sizeof_old z s2 <> None.
Proof.
  intros z s n fs s1 e fs' m HI ER NZ.
  destruct (mt_resize_live z s n fs s1 false e fs' 0 ER) as (_ & NB & IF). cbn in NB. rewrite HI in IF.
  cbn [mt_step]. destruct (N.eqb_spec m 0) as [ | _]; [ contradiction | ].
  assert (RA : exists s1', mt_release_all s1 = (s1', []) /\ mt_nbw s1' = 0 /\ mt_threads s1' = mt_threads s1 /\ mt_jobs s1' = mt_jobs s1
                           /\ mt_buf s1' = mt_buf s1 /\ mt_cctx s1' = mt_cctx s1 /\ mt_seq s1' = mt_seq s1).
  { unfold mt_release_all. rewrite IF. destruct (mt_buf s1) as [p | ] eqn:EB; cbn [release_all map];
      eexists; (split; [ reflexivity | ]); cbn; rewrite ?NB; repeat split; try reflexivity; symmetry; assumption. }
  destruct RA as (s1' & -> & NB' & _).
  rewrite NB'. destruct (N.eqb_spec m 0) as [ | _]; [ contradiction | ].
  destruct (mt_resize z s1' m []) as [[[s2 ok] e2] f2] eqn:E2.
  destruct (mt_resize_recovers_l z s1' m s2 ok e2 f2 E2) as (-> & NB2 & SO & _).
  exists s2, ([] ++ e2). split; [ reflexivity | split; assumption ].
Qed.

(* ZSTDMT_freeCCtx after any history leaves nothing at the allocator *)
Lemma mt_free_releases_all_l :
  forall z n fs0 s0 e0 f0 ops s outs,
    mt_create z n fs0 = (Some s0, e0, f0) -> mt_run z s0 ops = (s, outs) ->
    live_after 0 (e0 ++ mt_all_events outs ++ mt_free_events z s) = 0.
Proof.
  intros z n fs0 s0 e0 f0 ops s outs EC ER.
  destruct (mt_create_live z n fs0 (Some s0) e0 f0 0 EC) as [A0 _].
  rewrite !live_after_app, A0, (mt_run_live z ops s0 s outs 0 ER). apply mt_free_live.
Qed.

(* ------------------------------------------------------------------ *)
(* non-vacuity, with the structure sizes of the x86-64 build (the run passes the sizes of the current build to the
   extracted model; the theorems above hold for every sizes): a context with 1 worker; the session that asks for 4
   workers has its second allocation (the jobs table) fail: memory_allocation, nbWorkers forgotten, the expression used
   before fix eb053f6 undefined while the current one reports the live bytes; the next session repairs everything;
   then LDM tables that grow, are dropped by a frame without LDM, fail; two complete ZSTDMT_initCStream_internal calls (the
   second one, 2 -> 3 workers, finds every pool large enough: its only allocation is the local CDict) *)
Definition z_x64 : mtsz := mkSZ 3120 448 88 16 80 8 5272 240 16 8 8 256.
Definition mt_example_ops : list mop :=
  [MGetBuf 4096 true; MStart 4 [true; false]; MStart 4 []; MGetBuf 4096 true; MGetBuf 100 true; MFlush 1; MCtxUse (Some 20000) true true;
   MLdm (Some (20, 17)) true true; MLdm None true true; MLdm (Some (10, 7)) true false; MRound 1000000 true; MDict (Some 5000) true;
   MInit 2 [] (Some 3000) 2000000 (Some (12, 9)); MInit 3 [true; false] (Some 3000) 0 None].

Example mt_example_history :
  match mt_create z_x64 1 [] with
  | (Some s0, e0, _) =>
      let '(s1, o1) := mt_run z_x64 s0 (firstn 2 mt_example_ops) in
      let '(s2, o2) := mt_run z_x64 s0 mt_example_ops in
      mt_jobs s1 = None /\ mt_nbw s1 = 0 /\ mt_sizeof_old z_x64 s1 = None
      /\ mt_sizeof z_x64 s1 = live_after 0 (e0 ++ mt_all_events o1)
      /\ mt_nbw s2 = 3 /\ mt_cdict s2 = 3000 /\ mt_round s2 = 2000000 /\ mt_sizeof_old z_x64 s2 = Some (live_after 0 (e0 ++ mt_all_events o2))
      /\ mt_sizeof z_x64 s2 = live_after 0 (e0 ++ mt_all_events o2) /\ mt_ldmB s2 = 2 ^ 9 /\ mt_ldmH s2 = 2 ^ 12 * 8
      /\ live_after 0 (e0 ++ mt_all_events o2 ++ mt_free_events z_x64 s2) = 0
  | _ => False
  end.
Proof. vm_compute. repeat split; reflexivity. Qed.

(* a creation whose 7th allocation (the slot array of the buffer pool) fails returns NULL and leaves nothing behind *)
Example mt_example_create_fails :
  match mt_create z_x64 2 [true; true; true; true; true; true; false] with
  | (None, e, _) => live_after 0 e = 0 /\ e <> []
  | _ => False
  end.
Proof. vm_compute. split; [ reflexivity | discriminate ]. Qed.
