(* C14 - model of the streaming decoder's buffer sizing (lib/decompress/zstd_decompress.c):
   ZSTD_decodingBufferSize_internal / _min, ZSTD_estimateDStreamSize, ZSTD_estimateDDictSize, the frame-header
   window size, and the "control buffer memory usage / adapt buffer sizes" part of zdss_loadHeader in
   ZSTD_decompressStream: window gate, need computation, oversize-shrink rule, static bound, (re)allocation.
   64-bit size_t is assumed (the (size_t) cast in ZSTD_decodingBufferSize_internal never truncates); the proofs
   check sizeof(void* ) = 8 against Gen_C14.  No proofs in this file. *)
From Coq Require Import NArith List Bool.
From ZV.Gen Require Import Gen_C14.
Import ListNotations.
Local Open Scope N_scope.

Definition D_UNKNOWN : N := 18446744073709551615.   (* ZSTD_CONTENTSIZE_UNKNOWN *)

(* ZSTD_decodingBufferSize_internal *)
Definition decodingBufferSize_internal (windowSize frameContentSize blockSizeMax : N) : N :=
  let blockSize := N.min (N.min windowSize c_ZSTD_BLOCKSIZE_MAX) blockSizeMax in
  let neededRBSize := windowSize + blockSize * 2 + c_WILDCOPY_OVERLENGTH * 2 in
  N.min frameContentSize neededRBSize.

(* ZSTD_decodingBufferSize_min *)
Definition decodingBufferSize_min (windowSize frameContentSize : N) : N :=
  decodingBufferSize_internal windowSize frameContentSize c_ZSTD_BLOCKSIZE_MAX.

(* ZSTD_estimateDStreamSize *)
Definition estimateDStreamSize (windowSize : N) : N :=
  let blockSize := N.min windowSize c_ZSTD_BLOCKSIZE_MAX in
  sizeof_ZSTD_DCtx + blockSize + decodingBufferSize_min windowSize D_UNKNOWN.

(* ZSTD_estimateDDictSize *)
Definition estimateDDictSize (dictSize : N) (byRef : bool) : N :=
  sizeof_ZSTD_DDict + (if byRef then 0 else dictSize).

(* window size announced by a frame header (ZSTD_getFrameHeader_advanced): [wlByte] is the window
   descriptor byte; None = frameParameter_windowTooLarge.  Single-segment frames use the content size. *)
Definition frame_windowSize (singleSegment : bool) (wlByte fcs : N) : option N :=
  if singleSegment then Some fcs
  else let windowLog := wlByte / 8 + c_ZSTD_WINDOWLOG_ABSOLUTEMIN in
       if c_ZSTD_WINDOWLOG_MAX <? windowLog then None
       else let base := 2 ^ windowLog in Some (base + (base / 8) * (wlByte mod 8)).

Record dstate := mkDS {
  inBuffSize : N;
  outBuffSize : N;
  oversizedDuration : N;
  staticSize : N;          (* 0 = heap context *)
  maxWindowSize : N;
  maxBlockSizeParam : N;   (* 0 = unset *)
  outBuffered : bool;      (* outBufferMode == ZSTD_bm_buffered *)
  live : N }.              (* bytes currently held by the malloc'ed in+out buffer (heap mode) *)

Definition dstate0 (staticSz maxW maxB : N) (buffered : bool) : dstate := mkDS 0 0 0 staticSz maxW maxB buffered 0.

Inductive dresult :=
| DsErrWindow               (* frameParameter_windowTooLarge, before any allocation *)
| DsErrMem                  (* memory_allocation: static context too small *)
| DsOk (st : dstate) (allocated : option N).   (* Some n: free(old) + malloc(n) happened *)

Definition needIn (st : dstate) (w : N) : N :=
  let bsm0 := N.min w c_ZSTD_BLOCKSIZE_MAX in
  let bsm := if maxBlockSizeParam st =? 0 then bsm0 else N.min bsm0 (maxBlockSizeParam st) in
  N.max bsm 4.

Definition clampedWindow (w : N) : N := N.max w (2 ^ c_ZSTD_WINDOWLOG_ABSOLUTEMIN).

Definition needOut (st : dstate) (w fcs : N) : N :=
  let bsm0 := N.min w c_ZSTD_BLOCKSIZE_MAX in
  let bsm := if maxBlockSizeParam st =? 0 then bsm0 else N.min bsm0 (maxBlockSizeParam st) in
  if outBuffered st then decodingBufferSize_internal (clampedWindow w) fcs bsm else 0.

(* the header has been decoded: [w] = windowSize of the header (before the ABSOLUTEMIN clamp), [fcs] its
   content size (D_UNKNOWN when absent); the single-pass shortcut was not taken *)
Definition dstream_load_header (st : dstate) (w fcs : N) : dresult :=
  let w' := clampedWindow w in
  if maxWindowSize st <? w' then DsErrWindow
  else
    let nIn := needIn st w in
    let nOut := needOut st w fcs in
    let over := (nIn + nOut) * c_ZSTD_WORKSPACETOOLARGE_FACTOR <=? inBuffSize st + outBuffSize st in
    let dur := if over then oversizedDuration st + 1 else 0 in
    let tooSmall := (inBuffSize st <? nIn) || (outBuffSize st <? nOut) in
    let tooLarge := c_ZSTD_WORKSPACETOOLARGE_MAXDURATION <=? dur in
    if tooSmall || tooLarge then
      let bufferSize := nIn + nOut in
      if negb (staticSize st =? 0) then
        if staticSize st - sizeof_ZSTD_DCtx <? bufferSize then DsErrMem
        else DsOk (mkDS nIn nOut dur (staticSize st) (maxWindowSize st) (maxBlockSizeParam st) (outBuffered st) 0) None
      else DsOk (mkDS nIn nOut dur 0 (maxWindowSize st) (maxBlockSizeParam st) (outBuffered st) bufferSize)
                (Some bufferSize)
    else DsOk (mkDS (inBuffSize st) (outBuffSize st) dur (staticSize st) (maxWindowSize st) (maxBlockSizeParam st)
                    (outBuffered st) (live st)) None.

(* ZSTD_sizeof_DCtx without a local DDict *)
Definition sizeof_DCtx_model (st : dstate) : N := sizeof_ZSTD_DCtx + inBuffSize st + outBuffSize st.

(* ZSTD_initStaticDCtx accepts the workspace *)
Definition initStaticDCtx_ok (start size : N) : bool := (start mod 8 =? 0) && (sizeof_ZSTD_DCtx <=? size).

(* ZSTD_initStaticDDict accepts the buffer *)
Definition initStaticDDict_ok (start size dictSize : N) (byRef : bool) : bool :=
  (start mod 8 =? 0) && (estimateDDictSize dictSize byRef <=? size).

(* buffer budget a window limit W grants (estimateDStreamSize W minus the context itself) *)
Definition dbudget (W : N) : N := estimateDStreamSize W - sizeof_ZSTD_DCtx.

(* a history of frames processed by one streaming context, window limit fixed at W (frames given as (w, fcs)) *)
Fixpoint dstream_history (st : dstate) (frames : list (N * N)) : dstate :=
  match frames with
  | [] => st
  | (w, fcs) :: rest =>
    match dstream_load_header st w fcs with
    | DsOk st' _ => dstream_history st' rest
    | _ => dstream_history st rest       (* a rejected frame leaves the buffers as they were *)
    end
  end.
