(* C14 - histories of ZSTD_compressCCtx calls at covered levels on one static context. *)
From Coq Require Import NArith ZArith List Bool Lia.
From ZV.Gen Require Import Gen_C14.
From ZV.Mem Require Import Cwksp CwkspProofs Estimate EstimateProofs History HistoryProofs LevelDefs LevelProofs.
Import ListNotations.
Local Open Scope N_scope.
Ltac Zify.zify_post_hook ::= Z.to_euclidean_division_equations.
(* ------------------------------------------------------------------ *)
(* levels: a static context of ZSTD_estimateCCtxSize(L) serves ANY history of ZSTD_compressCCtx calls at covered
   levels l <= L and any source sizes - it never wears out *)

Definition hop_level_ok (L : Z) (h : hop) : Prop :=
  match h with HopSimple l s => level_covered l L /\ s <= UNKNOWN | _ => False end.

Definition served_ok (start size : N) (o : reset_result) : Prop :=
  exists w log, o = ResetDone w log /\ allocFailed w = false /\ ws_start w = start /\ ws_end w = start + size /\
                Forall (entry_in start size) log /\ cwksp_used w <= size.

Lemma req_simple_need rz l s f : rq_need rz true (req_simple l s f) = need_simple rz l s.
Proof. reflexivity. Qed.

Lemma req_simple_ok l s f : req_ok (req_simple l s f).
Proof.
  unfold req_ok, req_simple, req_of_session, simple_params. cbn [rq_mbs rq_ldm]. split.
  - discriminate.
  - intros _. reflexivity.
Qed.

Lemma served_all rz start size : forall reqs outs,
  Forall2 (served_iff_fits rz start size) reqs outs ->
  Forall (fun r => rq_need rz true r <= size) reqs ->
  Forall (served_ok start size) outs.
Proof.
  induction 1 as [ | r o rs os Hro _ IH]; intros HF; [ constructor | ].
  pose proof (Forall_inv HF) as Hr. pose proof (Forall_inv_tail HF) as Hrest. cbv beta in Hr.
  constructor; [ | exact (IH Hrest) ].
  destruct o as [ | w log | n]; unfold served_iff_fits in Hro.
  - exfalso. lia.
  - destruct Hro as (_ & A & B & C & D & E). exists w, log. splits; try assumption; reflexivity.
  - contradiction.
Qed.

Lemma forall2_length {A B} (R : A -> B -> Prop) : forall l1 l2, Forall2 R l1 l2 -> length l1 = length l2.
Proof. induction 1; cbn [length]; congruence. Qed.

Lemma levels_static_history_ok_l :
  forall rz start size L p hops l0 outs cxf,
    sweep_oneshot rz = true ->
    Forall (hop_level_ok L) hops ->
    estimateCCtxSize rz L <= size ->
    static_history_hops rz start size p hops = Some (l0, outs, cxf) ->
    length outs = length hops /\ Forall (served_ok start size) outs.
Proof.
  intros rz start size L p hops l0 outs cxf SO HL Hsz H.
  unfold static_history_hops in H.
  destruct (initStaticCCtx rz start size) as [ | w0 l0'] eqn:EI; [ discriminate | ].
  injection H as <- <- _.
  set (reqs := reqs_of_hops p hops).
  assert (HR : Forall (fun r => req_ok r /\ rq_need rz true r <= size) reqs /\ length reqs = length hops).
  { assert (G : forall f h, hop_level_ok L h -> req_ok (req_of_hop p f h) /\ rq_need rz true (req_of_hop p f h) <= size).
    { intros f [l s | s | ] Hh; cbn in Hh; try contradiction. destruct Hh as [HC Hs].
      cbn [req_of_hop]. split; [ apply req_simple_ok | ].
      rewrite req_simple_need. destruct (estimate_covers_levels_oneshot rz l L s SO HC Hs) as [N1 _]. lia. }
    unfold reqs, reqs_of_hops. destruct hops as [ | h rest]; [ split; [ constructor | reflexivity ] | ].
    pose proof (Forall_inv HL) as Hh. pose proof (Forall_inv_tail HL) as Hrest.
    split.
    - constructor; [ apply G; exact Hh | ].
      clear Hh HL. induction rest as [ | h2 rest IH]; cbn [map]; [ constructor | ].
      constructor; [ apply G; exact (Forall_inv Hrest) | apply IH; exact (Forall_inv_tail Hrest) ].
    - cbn [length]. rewrite map_length. reflexivity. }
  destruct HR as [HR HLen].
  assert (Hok : Forall req_ok reqs) by (eapply Forall_impl; [ | exact HR ]; intros r [A _]; exact A).
  assert (Hfit : Forall (fun r => rq_need rz true r <= size) reqs) by (eapply Forall_impl; [ | exact HR ]; intros r [_ B]; exact B).
  assert (HS : static_history rz start size reqs = Some (l0', history rz (mkCx w0 0) reqs)).
  { unfold static_history. rewrite EI. reflexivity. }
  pose proof (static_history_served_iff_fits_l rz start size reqs _ _ HS Hok) as F2.
  split.
  - rewrite <- HLen. symmetry. eapply forall2_length. exact F2.
  - eapply served_all; eassumption.
Qed.

(* the hypotheses are satisfiable and the three outcomes occur: a block sized for level 3 serves level 3, refuses
   level 19 at 300000 bytes, and serves level 3 again *)
Example history_example :
  let size := estimateCCtxSize 0 3 in
  match static_history_hops 0 4096 size (level_pp 3) [HopSimple 3 100000; HopSimple 19 300000; HopSimple 3 300000] with
  | Some (_, [ResetDone _ _; ResetMemError; ResetDone w _], cx) => allocFailed w = false /\ cx_dur cx = 0
  | _ => False
  end.
Proof. vm_compute. split; reflexivity. Qed.
