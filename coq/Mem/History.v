(* C14 - context reuse: a HISTORY of ZSTD_resetCCtx_internal calls on one context (lib/compress/zstd_compress.c,
   zstd_cwksp.h).  Adds to Estimate.v what a single reset does not show: the state carried from one reset to the next
   (bump pointers after ZSTD_cwksp_clear, the one-off table alignment pad, workspaceOversizedDuration) and the
   "wasteful workspace" branch of the size gate (ZSTD_cwksp_check_too_large / _check_wasteful /
   _bump_oversized_duration), which must never apply to a static context.  No proofs in this file. *)
From Coq Require Import NArith ZArith List Bool.
From ZV.Gen Require Import Gen_C14.
From ZV.Mem Require Import Cwksp Estimate.
Import ListNotations.
Local Open Scope N_scope.

(* ZSTD_cwksp_check_too_large *)
Definition check_too_large (w : cwksp) (additionalNeeded : N) : bool :=
  additionalNeeded * c_ZSTD_WORKSPACETOOLARGE_FACTOR <=? available_space_c w.
(* ZSTD_cwksp_check_wasteful *)
Definition check_wasteful (w : cwksp) (dur additionalNeeded : N) : bool :=
  check_too_large w additionalNeeded && (c_ZSTD_WORKSPACETOOLARGE_MAXDURATION <? dur).
(* ZSTD_cwksp_bump_oversized_duration *)
Definition bump_oversized (w : cwksp) (dur additionalNeeded : N) : N :=
  if check_too_large w additionalNeeded then dur + 1 else 0.

(* the part of ZSTD_CCtx that survives from one compression to the next and matters for sizing *)
Record cctx := mkCx { cx_ws : cwksp; cx_dur : N }.     (* cx_dur = workspace.workspaceOversizedDuration *)

(* what one call of ZSTD_resetCCtx_internal is given (parameters already resolved by the caller) *)
Record request := mkReq {
  rq_cp : cparams; rq_ldm : ldmparams; rq_row : pswitch; rq_pledged : N; rq_ext : bool; rq_mbs : N;
  rq_buffered : bool; rq_inb : bool; rq_outb : bool;
  rq_resetIndex : bool; rq_makeClean : bool }.

Definition rq_ldmA (r : request) : ldmparams :=
  if ldm_enabled (rq_ldm r) then ldm_adjustParameters (rq_ldm r) (rq_cp r) else rq_ldm r.
Definition rq_bin (r : request) : N := reset_buffInSize (rq_cp r) (rq_pledged r) (rq_mbs r) (rq_buffered r) (rq_inb r).
Definition rq_bout (r : request) : N := reset_buffOutSize (rq_cp r) (rq_pledged r) (rq_mbs r) (rq_buffered r) (rq_outb r).

(* neededSpace *)
Definition rq_need (rz : N) (isStatic : bool) (r : request) : N :=
  estimate_internal rz (rq_cp r) (rq_ldmA r) isStatic (rq_row r) (rq_bin r) (rq_bout r) (rq_pledged r) (rq_ext r) (rq_mbs r).

Definition rq_ops (r : request) : list op :=
  resetCCtx_ops (rq_cp r) (rq_ldmA r) (rq_row r) (rq_bin r) (rq_bout r) (rq_pledged r) (rq_ext r) (rq_mbs r)
                (rq_resetIndex r) (rq_makeClean r).

(* ZSTD_resetCCtx_internal with the complete size gate:
     if (!zc->staticSize) ZSTD_cwksp_bump_oversized_duration(ws, 0);
     workspaceTooSmall = sizeof(ws) < neededSpace;  workspaceWasteful = check_wasteful(ws, neededSpace);
     if (tooSmall || wasteful) { RETURN_ERROR_IF(zc->staticSize, memory_allocation); ... resize ... }
   A heap context that takes the resize branch gets a new workspace at an address this model does not know: the
   history of a heap context ends there (ResetResize). *)
Definition resetCCtx_full (rz : N) (cx : cctx) (r : request) : reset_result * cctx :=
  let w := cx_ws cx in
  let needed := rq_need rz (is_static w) r in
  let dur := if is_static w then cx_dur cx else bump_oversized w (cx_dur cx) 0 in
  let tooSmall := cwksp_sizeof w <? needed in
  let wasteful := check_wasteful w dur needed in
  if tooSmall || wasteful then
    (if is_static w then ResetMemError else ResetResize needed, mkCx w dur)
  else let '(w', log) := run rz w (rq_ops r) in (ResetDone w' log, mkCx w' dur).

(* a history: every request is attempted; a refused one leaves the context as it was *)
Fixpoint history (rz : N) (cx : cctx) (reqs : list request) : list reset_result :=
  match reqs with
  | [] => []
  | r :: rest => let '(res, cx') := resetCCtx_full rz cx r in res :: history rz cx' rest
  end.

(* ZSTD_initStaticCCtx followed by a history of resets *)
Definition static_history (rz start size : N) (reqs : list request) : option (list entry * list reset_result) :=
  match initStaticCCtx rz start size with
  | InitNull => None
  | InitOk w l0 => Some (l0, history rz (mkCx w 0) reqs)
  end.

(* requests the library can issue: maxBlockSize resolved (asserted != 0 in the code), LDM user values 0-or-in-bounds *)
Definition req_ok (r : request) : Prop :=
  rq_mbs r <> 0 /\ (ldm_enabled (rq_ldm r) = true -> ldm_user_ok (rq_ldm r) = true).

(* requests as the public entry points build them *)
Definition req_of_session (prm : cparams * ldmparams * pswitch * N) (pledged : N)
           (ext buffered inb outb : bool) (first : bool) : request :=
  let '(cp, l, row, mbs) := prm in mkReq cp l row pledged ext mbs buffered inb outb first true.
(* ZSTD_compressCCtx at a level *)
Definition req_simple (lvl : Z) (srcSize : N) (first : bool) : request :=
  req_of_session (simple_params lvl srcSize) srcSize false false false false first.
(* ZSTD_compress2 / ZSTD_compressStream2 with a parameter set *)
Definition req_stream2 (p : cctxparams) (pledged : N) (oneShot first : bool) : request :=
  req_of_session (stream2_params p pledged) pledged (p_extSeq p) true
                 (negb oneShot && p_inBuffered p) (negb oneShot && p_outBuffered p) first.

(* the context after a history (what the next request would start from) *)
Fixpoint history_final (rz : N) (cx : cctx) (reqs : list request) : cctx :=
  match reqs with
  | [] => cx
  | r :: rest => history_final rz (snd (resetCCtx_full rz cx r)) rest
  end.

(* histories as the correspondence harness drives them: one parameter set [p] for the ZSTD_compress2 /
   ZSTD_compressStream2 operations (streaming with buffered input: the reset happens at the first call, source size
   unknown), a level per ZSTD_compressCCtx operation *)
Inductive hop := HopSimple (lvl : Z) (srcLen : N) | HopCompress2 (srcLen : N) | HopStream.

Definition req_of_hop (p : cctxparams) (first : bool) (h : hop) : request :=
  match h with
  | HopSimple lvl s => req_simple lvl s first
  | HopCompress2 s => req_stream2 p s true first
  | HopStream => req_stream2 p UNKNOWN false first
  end.

Definition reqs_of_hops (p : cctxparams) (hops : list hop) : list request :=
  match hops with
  | [] => []
  | h :: rest => req_of_hop p true h :: map (req_of_hop p false) rest
  end.

Definition static_history_hops (rz start size : N) (p : cctxparams) (hops : list hop)
  : option (list entry * list reset_result * cctx) :=
  match initStaticCCtx rz start size with
  | InitNull => None
  | InitOk w l0 => let reqs := reqs_of_hops p hops in
                   Some (l0, history rz (mkCx w 0) reqs, history_final rz (mkCx w 0) reqs)
  end.
