(* C13 - compression side, part 3: from every member of the closed set in which the context is alive, reset + compression
   with memory available succeeds. *)
From Coq Require Import NArith List Bool Arith Lia.
From ZV.Mem Require Import AllocDsl AllocInstances AllocProofs AllocSet AllocSetProofs AllocClient AllocHistory AllocTheorems AllocTheoremsC0.
Import ListNotations.
Local Open Scope N_scope.

Lemma cctx_recover_mt : forall zs, sizes_ok zs -> forall w cap dsz rsz hsz bsz cdsz wsz jbsz,
  all_res astatus_ok (aexecS F false (client zs OReset ;; Forget ;; client zs (OCompressMT w cap dsz rsz hsz bsz cdsz wsz jbsz))
   (filter (fun a => match aget a K_cctx with AOwn => true | _ => false end) St_cctx)) = true.
Proof.
  intros zs Hz w cap dsz rsz hsz bsz cdsz wsz jbsz.
  pose proof (clampw_nz zs (N.succ w) Hz (succ_nz w)) as Hc.
  unfold client, api, op_prog, compress_mt_any, mtctx_create, pool_create. rewrite (succ_nz w), Hc. run_analysis.
Qed.
