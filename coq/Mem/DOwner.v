(* C14 round 2 - model of what a ZSTD_DCtx OWNS and what ZSTD_sizeof_DCtx REPORTS (lib/decompress/zstd_decompress.c):
   the local DDict (ZSTD_DCtx_loadDictionary_advanced / ZSTD_clearDict), the multi-DDict hash set
   (ZSTD_createDDictHashSet, ZSTD_DDictHashSet_addDDict with its load-factor rule, _expand, _emplaceDDict),
   the streaming buffers (DBuffers.dstream_load_header), ZSTD_DCtx_reset(session_and_parameters), ZSTD_copyDCtx,
   ZSTD_freeDCtx, and the guards that keep a STATIC context away from every allocator.
   Every operation returns the allocator events it performs (malloc n / free n); "live" is the sum over the events.
   No proofs in this file. *)
From Coq Require Import NArith List Bool.
From ZV.Gen Require Import Gen_C14.
From ZV.Mem Require Import DBuffers.
Import ListNotations.
Local Open Scope N_scope.

Inductive ev := Alloc (n : N) | Free (n : N).

Definition ev_apply (live : N) (e : ev) : N := match e with Alloc n => live + n | Free n => live - n end.
Definition live_after (live : N) (es : list ev) : N := fold_left ev_apply es live.

(* ZSTD_DDictHashSet: table size and the distinct dictIDs stored *)
Record hset := mkHS { hs_size : N; hs_ids : list N }.
Definition hs_count (h : hset) : N := N.of_nat (length (hs_ids h)).
Definition hs_bytes (h : hset) : N := sizeof_ZSTD_DDictHashSet + hs_size h * sizeof_ptr.

(* the local DDict: bytes of the two allocations ZSTD_createDDict_advanced makes (structure, copied content) *)
Record ldict := mkLD { ld_content : N; ld_byRef : bool }.
Definition ld_copy (d : ldict) : N := if ld_byRef d then 0 else ld_content d.
Definition ld_bytes (d : ldict) : N := sizeof_ZSTD_DDict + ld_copy d.

Inductive duse := UseNone | UseOnce | UseIndef.   (* ZSTD_dont_use / ZSTD_use_once / ZSTD_use_indefinitely *)

Record downer := mkDO {
  do_multi : bool;             (* refMultipleDDicts == ZSTD_rmd_refMultipleDDicts *)
  do_uses : duse;              (* dictUses *)
  do_local : option ldict;     (* ddictLocal *)
  do_set : option hset;        (* ddictSet *)
  do_ds : dstate }.            (* staticSize, limits, buffers *)

Definition down0 (staticSz : N) : downer :=
  mkDO false UseNone None None (dstate0 staticSz c_ZSTD_MAXWINDOWSIZE_DEFAULT 0 true).

Definition dctx_is_static (d : downer) : bool := negb (staticSize (do_ds d) =? 0).

Inductive orc := RcOk | RcMem | RcWindow | RcUnsupported | RcGeneric.

(* ZSTD_clearDict: frees the local DDict (content buffer, then structure) *)
Definition clear_events (d : downer) : list ev :=
  match do_local d with
  | Some l => (if ld_copy l =? 0 then [] else [Free (ld_copy l)]) ++ [Free sizeof_ZSTD_DDict]
  | None => []
  end.

(* ZSTD_freeDDictHashSet *)
Definition set_free_events (d : downer) : list ev :=
  match do_set d with Some h => [Free (hs_size h * sizeof_ptr); Free sizeof_ZSTD_DDictHashSet] | None => [] end.

Inductive dop :=
| OpMulti (b : bool)                  (* ZSTD_DCtx_setParameter(ZSTD_d_refMultipleDDicts, b) *)
| OpRef (dictID : N)                  (* ZSTD_DCtx_refDDict(ddict) *)
| OpRefNull                           (* ZSTD_DCtx_refDDict(NULL) *)
| OpLoad (size : N) (byRef : bool)    (* ZSTD_DCtx_loadDictionary_advanced, also reached by initDStream_usingDict *)
| OpPrefix (size : N)                 (* ZSTD_DCtx_refPrefix: a by-reference local DDict used for ONE frame *)
| OpFrame (w fcs : N)                 (* a frame (no dictID) whose header is loaded by ZSTD_decompressStream, no single-pass shortcut *)
| OpReset                             (* ZSTD_DCtx_reset(ZSTD_reset_session_and_parameters): also frees the DDict set (b70602d) *)
| OpCopyFrom (srcMulti : bool) (srcUses : duse).   (* ZSTD_copyDCtx(this, src): what arrives from the source that matters here *)

(* load factor test of ZSTD_DDictHashSet_addDDict *)
Definition hs_overloaded (h : hset) : bool :=
  negb (hs_count h * c_DDICT_HASHSET_MAX_LOAD_FACTOR_COUNT_MULT / hs_size h * c_DDICT_HASHSET_MAX_LOAD_FACTOR_SIZE_MULT =? 0).

(* ZSTD_DDictHashSet_emplaceDDict: None = "Hash set is full" *)
Definition hs_emplace (h : hset) (id : N) : option hset :=
  if hs_count h =? hs_size h then None
  else if existsb (N.eqb id) (hs_ids h) then Some h
  else Some (mkHS (hs_size h) (id :: hs_ids h)).

(* ZSTD_DDictHashSet_addDDict: optional expansion (calloc new table, re-emplace, free old table), then emplace.
   Returns the table after the optional expansion, the result of the emplace, and the allocator events. *)
Definition hs_add (h : hset) (id : N) : hset * option hset * list ev :=
  if hs_overloaded h then
    let n := hs_size h * c_DDICT_HASHSET_RESIZE_FACTOR in
    let h' := mkHS n (hs_ids h) in
    (h', hs_emplace h' id, [Alloc (n * sizeof_ptr); Free (hs_size h * sizeof_ptr)])
  else (h, hs_emplace h id, []).

Definition set_ds (d : downer) (s : dstate) : downer := mkDO (do_multi d) (do_uses d) (do_local d) (do_set d) s.

(* ZSTD_getDDict, called when ZSTD_decompressStream consumes a complete frame header (before the window gate):
   ZSTD_dont_use clears (frees) the local dictionary, ZSTD_use_once becomes ZSTD_dont_use *)
Definition frame_dict_step (d : downer) : downer * list ev :=
  match do_uses d with
  | UseNone => (mkDO (do_multi d) UseNone None (do_set d) (do_ds d), clear_events d)
  | UseOnce => (mkDO (do_multi d) UseNone (do_local d) (do_set d) (do_ds d), [])
  | UseIndef => (d, [])
  end.

(* ZSTD_DCtx_loadDictionary_advanced; [u] = dictUses on success *)
Definition load_step (d : downer) (size : N) (byRef : bool) (u : duse) : downer * orc * list ev :=
  let ce := clear_events d in
  let d1 := mkDO (do_multi d) UseNone None (do_set d) (do_ds d) in
  if size =? 0 then (mkDO (do_multi d) (match u with UseOnce => UseOnce | _ => UseNone end) None (do_set d) (do_ds d), RcOk, ce)
  else if dctx_is_static d then (d1, RcMem, ce)     (* fix 11c6d2b: a static context refuses internal dictionary creation *)
  else let l := mkLD size byRef in
       (mkDO (do_multi d) u (Some l) (do_set d) (do_ds d), RcOk,
        ce ++ [Alloc sizeof_ZSTD_DDict] ++ (if ld_copy l =? 0 then [] else [Alloc (ld_copy l)])).

Definition down_step (d : downer) (o : dop) : downer * orc * list ev :=
  match o with
  | OpMulti b =>
      if dctx_is_static d then (d, RcUnsupported, [])
      else (mkDO b (do_uses d) (do_local d) (do_set d) (do_ds d), RcOk, [])
  | OpRefNull =>
      (mkDO (do_multi d) UseNone None (do_set d) (do_ds d), RcOk, clear_events d)
  | OpRef id =>
      let ce := clear_events d in
      let d1 := mkDO (do_multi d) UseIndef None (do_set d) (do_ds d) in
      if do_multi d then
        if dctx_is_static d then (d1, RcMem, ce)        (* fix c6e8f36: the guard sits where the set is allocated *)
        else
          let '(h0, e0) := match do_set d with
                           | Some h => (h, [])
                           | None => (mkHS c_DDICT_HASHSET_TABLE_BASE_SIZE [],
                                      [Alloc sizeof_ZSTD_DDictHashSet; Alloc (c_DDICT_HASHSET_TABLE_BASE_SIZE * sizeof_ptr)])
                           end in
          let '(h', r, e1) := hs_add h0 id in
          match r with
          | Some h => (mkDO (do_multi d) UseIndef None (Some h) (do_ds d), RcOk, ce ++ e0 ++ e1)
          | None => (mkDO (do_multi d) UseIndef None (Some h') (do_ds d), RcGeneric, ce ++ e0 ++ e1)   (* "Hash set is full" *)
          end
      else (d1, RcOk, ce)
  | OpLoad size byRef => load_step d size byRef UseIndef
  | OpPrefix size => load_step d size true UseOnce
  | OpFrame w fcs =>
      let '(d0, e0) := frame_dict_step d in
      match dstream_load_header (do_ds d0) w fcs with
      | DsErrWindow => (d0, RcWindow, e0)
      | DsErrMem => (d0, RcMem, e0)
      | DsOk s (Some n) => (set_ds d0 s, RcOk, e0 ++ [Free (live (do_ds d0)); Alloc n])
      | DsOk s None => (set_ds d0 s, RcOk, e0)
      end
  | OpReset =>
      (* fix b70602d: the set of referenced DDicts is dropped too (ZSTD_freeDDictHashSet: table, then structure) *)
      let s := do_ds d in
      (mkDO false UseNone None None
            (mkDS (inBuffSize s) (outBuffSize s) (oversizedDuration s) (staticSize s) c_ZSTD_MAXWINDOWSIZE_DEFAULT 0 true (live s)),
       RcOk, clear_events d ++ set_free_events d)
  | OpCopyFrom m u =>
      (* fix 15cfcd6: the destination keeps customMem, staticSize, ddictLocal, ddictSet; flags arrive from the source *)
      (mkDO m u (do_local d) (do_set d) (do_ds d), RcOk, [])
  end.

Fixpoint down_run (d : downer) (ops : list dop) : downer * list (orc * list ev) :=
  match ops with
  | [] => (d, [])
  | o :: rest =>
      let '(d1, rc, es) := down_step d o in
      let '(d2, outs) := down_run d1 rest in
      (d2, (rc, es) :: outs)
  end.

Definition all_events (outs : list (orc * list ev)) : list ev := flat_map snd outs.

(* ZSTD_sizeof_DCtx *)
Definition sizeof_DCtx_full (d : downer) : N :=
  sizeof_ZSTD_DCtx
  + (match do_local d with Some l => ld_bytes l | None => 0 end)
  + (match do_set d with Some h => hs_bytes h | None => 0 end)
  + inBuffSize (do_ds d) + outBuffSize (do_ds d).

(* ZSTD_sizeof_DCtx before fix 4686148 *)
Definition sizeof_DCtx_old (d : downer) : N :=
  sizeof_ZSTD_DCtx + (match do_local d with Some l => ld_bytes l | None => 0 end)
  + inBuffSize (do_ds d) + outBuffSize (do_ds d).

(* ZSTD_freeDCtx of a heap context *)
Definition free_events (d : downer) : list ev :=
  clear_events d ++ [Free (live (do_ds d))]
  ++ set_free_events d
  ++ [Free sizeof_ZSTD_DCtx].

(* what the counting allocator of the harness sees: the context itself, then the history *)
Definition heap_live (ops : list dop) : N :=
  live_after sizeof_ZSTD_DCtx (all_events (snd (down_run (down0 0) ops))).

(* ------------------------------------------------------------------ *)
(* ZSTD_estimateDStreamSize_fromFrame: None = error (window descriptor beyond ZSTD_WINDOWLOG_MAX, or window size above
   1 << ZSTD_WINDOWLOG_MAX for a single-segment frame) *)
Definition estimateDStreamSize_fromFrame (singleSegment : bool) (wlByte fcs : N) : option N :=
  match frame_windowSize singleSegment wlByte fcs with
  | Some w => if 2 ^ c_ZSTD_WINDOWLOG_MAX <? w then None else Some (estimateDStreamSize w)
  | None => None
  end.
