(* C13 - compression side, part 1: the closed set is closed under multithreaded compression (every parameter). *)
From Coq Require Import NArith List Bool Arith Lia.
From ZV.Mem Require Import AllocDsl AllocInstances AllocProofs AllocSet AllocSetProofs AllocClient AllocHistory AllocTheorems AllocTheoremsC0.
Import ListNotations.
Local Open Scope N_scope.

Lemma cctx_closed_mt : forall zs, sizes_ok zs -> forall w cap dsz rsz hsz bsz cdsz wsz jbsz,
  closedSF F St_cctx aerr_iff_fail (client zs (OCompressMT w cap dsz rsz hsz bsz cdsz wsz jbsz)) = true.
Proof.
  intros zs Hz w cap dsz rsz hsz bsz cdsz wsz jbsz.
  pose proof (clampw_nz zs (N.succ w) Hz (succ_nz w)) as Hc.
  unfold client, api, op_prog, compress_mt_any, mtctx_create, pool_create. rewrite (succ_nz w), Hc. run_analysis.
Qed.
