(* C06 (round 2) - model of the post-splitter of lib/compress/zstd_compress.c at capacity level:
   ZSTD_deriveBlockSplitsHelper / ZSTD_deriveBlockSplits (the recursion that fills
   zc->blockSplitCtx.partitions[ZSTD_MAX_NB_BLOCK_SPLITS]) and ZSTD_compressBlock_splitBlock_internal
   (every partition emitted through ZSTD_compressSeqStore_singleBlock, dstCapacity shrinking; the number of
   partitions capped by max(1, blockSize >> 10)).
   Model only: NO proofs in this file.
   The literals 196 (ZSTD_MAX_NB_BLOCK_SPLITS), 300 (MIN_SEQUENCES_BLOCK_SPLITTING), 4 and >>10 are not dumped constants:
   they are tied to the code by the behaviour comparison of harness/c06_r2.c (table derived by the real
   ZSTD_deriveBlockSplits from the real estimates vs [derive_splits] fed with the same decisions). *)
From Coq Require Import ZArith List Bool.
From ZV.Mem Require Import CompressBound.
Import ListNotations.
Local Open Scope Z_scope.

Definition MAX_NB_BLOCK_SPLITS : Z := 196.
Definition MIN_SEQUENCES_BLOCK_SPLITTING : Z := 300.

(* ZSTD_deriveBlockSplitsHelper(splits, startIdx, endIdx, zc, origSeqStore).
   [tbl] = splits->splitLocations[0 .. splits->idx); a store goes to index [length tbl].
   [decide s e] = (estimatedFirstHalfSize + estimatedSecondHalfSize < estimatedOriginalSize) for the range: an oracle
   (entropy estimates).  [fixed] = with the test added by "the block splitter stays within its partition table";
   [fixed = false] is the code before that repair (kept for the refutation witness). *)
Fixpoint derive_helper (fixed : bool) (fuel : nat) (decide : Z -> Z -> bool) (s e : Z) (tbl : list Z) : list Z :=
  match fuel with
  | O => tbl
  | S f =>
    if (e - s <? MIN_SEQUENCES_BLOCK_SPLITTING) || (Z.of_nat (length tbl) >=? MAX_NB_BLOCK_SPLITS) then tbl
    else if decide s e then
      let mid := (s + e) / 2 in
      let t1 := derive_helper fixed f decide s mid tbl in
      if fixed && (Z.of_nat (length t1) >=? MAX_NB_BLOCK_SPLITS - 1) then t1
      else derive_helper fixed f decide mid e (t1 ++ [mid])
    else tbl
  end.

(* ZSTD_deriveBlockSplits: nbSeq <= 4 -> no split; the terminator nbSeq is then stored at index [length result] *)
Definition derive_splits (fixed : bool) (fuel : nat) (decide : Z -> Z -> bool) (nbSeq : Z) : list Z :=
  if nbSeq <=? 4 then [] else derive_helper fixed fuel decide 0 nbSeq [].

(* index of the last store into partitions[] (the terminator) *)
Definition last_store_index (tbl : list Z) : Z := Z.of_nat (length tbl).

(* the cap of "the block splitter never cuts a block into more partitions than ZSTD_compressBound() pays for" *)
Definition max_partitions (len : Z) : Z := Z.max 1 (Z.shiftr len 10).

(* ZSTD_compressSeqStore_singleBlock for the j-th partition: oracle [pc j cap len] (None = dstSize_tooSmall) *)
Definition part_compressor := nat -> Z -> Z -> option Z.

(* the loop of ZSTD_compressBlock_splitBlock_internal: op += cSizeChunk; dstCapacity -= cSizeChunk; cSize += cSizeChunk *)
Fixpoint emit_parts (pc : part_compressor) (j : nat) (parts : list Z) (cap written : Z) : option Z :=
  match parts with
  | [] => Some written
  | l :: rest =>
      match pc j cap l with
      | None => None
      | Some cs => emit_parts pc (S j) rest (cap - cs) (written + cs)
      end
  end.

(* [parts] = source bytes of the partitions the derived table cuts (numSplits + 1 of them, summing to blockSize):
   an oracle; if there are more than max(1, blockSize >> 10) the block is compressed in one piece *)
Definition chosen_parts (parts : list Z) (len : Z) : list Z :=
  if Z.of_nat (length parts) >? max_partitions len then [len] else parts.
Definition split_block (pc : part_compressor) (parts : list Z) (cap len : Z) : option Z :=
  emit_parts pc O (chosen_parts parts len) cap 0.

(* the frame loop's block compressor when the post-splitter is on: per frame-loop iteration i its own partition
   compressor and its own cut *)
Definition bc_split (pcs : nat -> part_compressor) (cut : nat -> Z -> list Z) : block_compressor :=
  fun i cap len => split_block (pcs i) (cut i len) cap len.

(* what the frame loop needs for r more bytes when every block may cost 3 bytes per started KiB partition *)
Definition kb_blocks (r : Z) : Z := r / 1024 + (if 0 <? r then 1 else 0).

(* ---- instances for the correspondence runs ---- *)
Definition decide_of_list (l : list (Z * Z * bool)) : Z -> Z -> bool :=
  fun s e => existsb (fun t => match t with (s', e', d) => (s' =? s) && (e' =? e) && d end) l.
Definition pc_raw : part_compressor := fun _ cap len => no_compress_block cap len.

(* number of wire blocks a block of [len] bytes becomes when the derived table holds [numSplits] split locations *)
Definition emitted_partitions (numSplits len : Z) : Z :=
  if numSplits + 1 >? max_partitions len then 1 else numSplits + 1.
(* the table ZSTD_deriveBlockSplits leaves (split locations, then the terminator) for recorded decisions *)
Definition derive_table (l : list (Z * Z * bool)) (nbSeq : Z) : list Z :=
  derive_splits true 64 (decide_of_list l) nbSeq.
(* worst cost the weak contract allows for a frame-loop block of [len] bytes *)
Definition weak_block_cost (len : Z) : Z := len + BHS * max_partitions len.
