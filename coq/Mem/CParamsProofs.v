(* C14 - "estimate*_usingCParams(c) + exactly c": a static context sized by ZSTD_estimateCCtxSize_usingCParams(c) /
   ZSTD_estimateCStreamSize_usingCParams(c) completes ZSTD_compress2 / ZSTD_compressStream2 with exactly these cParams
   for EVERY source size.  Ingredients: ZSTD_adjustCParams_internal only shrinks windowLog / chainLog / hashLog
   (adjust_only_shrinks), the need is monotone in each of them, in the LDM table logs and in the pledged size, and the
   estimator takes the larger of the two row-match-finder modes. *)
From Coq Require Import NArith ZArith List Bool Lia.
From ZV.Gen Require Import Gen_C14.
From ZV.Mem Require Import Cwksp CwkspProofs Estimate EstimateProofs LevelDefs LevelProofs.
Import ListNotations.
Local Open Scope N_scope.
Ltac Zify.zify_post_hook ::= Z.to_euclidean_division_equations.

(* ------------------------------------------------------------------ *)
(* orders on parameters *)

Definition cp_le (a b : cparams) : Prop :=
  wlog a <= wlog b /\ clog a <= clog b /\ hlog a <= hlog b /\ mml a = mml b /\ strat a = strat b.

(* LDM: "la needs no more table / sequence space than lb" *)
Definition ldm_le (la lb : ldmparams) : Prop :=
  ldm_enabled la = true ->
  ldm_enabled lb = true /\ ldm_hashLog la <= ldm_hashLog lb /\
  ldm_hashLog la - N.min (ldm_bucketSizeLog la) (ldm_hashLog la)
    <= ldm_hashLog lb - N.min (ldm_bucketSizeLog lb) (ldm_hashLog lb) /\
  ldm_minMatch lb <= ldm_minMatch la /\ 0 < ldm_minMatch lb.

Lemma pow2_mono a b : a <= b -> 2 ^ a <= 2 ^ b.
Proof. intros. apply N.pow_le_mono_r; lia. Qed.

Lemma sizeof_matchState_mono rz a b row :
  cp_le a b -> sizeof_matchState rz a row false true <= sizeof_matchState rz b row false true.
Proof.
  intros (Hw & Hc & Hh & Hm & Hs). unfold sizeof_matchState, hashLog3_of. rewrite Hm, Hs. cbn [andb negb].
  pose proof (pow2_mono _ _ Hc) as Pc. pose proof (pow2_mono _ _ Hh) as Ph.
  assert (T1 : (if allocateChainTable (strat b) row false then 2 ^ clog a else 0)
               <= (if allocateChainTable (strat b) row false then 2 ^ clog b else 0))
    by (destruct (allocateChainTable _ _ _); lia).
  assert (T3 : (let h3 := if mml b =? 3 then N.min c_ZSTD_HASHLOG3_MAX (wlog a) else 0 in if h3 =? 0 then 0 else 2 ^ h3)
               <= (let h3 := if mml b =? 3 then N.min c_ZSTD_HASHLOG3_MAX (wlog b) else 0 in if h3 =? 0 then 0 else 2 ^ h3)).
  { cbv zeta. destruct (mml b =? 3); [ | cbn; lia ].
    destruct (N.eqb_spec (N.min c_ZSTD_HASHLOG3_MAX (wlog a)) 0) as [E | E]; [ lia | ].
    destruct (N.eqb_spec (N.min c_ZSTD_HASHLOG3_MAX (wlog b)) 0) as [E' | E']; [ lia | ].
    apply pow2_mono. lia. }
  cbv zeta in T3.
  assert (T4 : (if rowMatchFinderUsed (strat b) row then aligned64_alloc_size rz (2 ^ hlog a) else 0)
               <= (if rowMatchFinderUsed (strat b) row then aligned64_alloc_size rz (2 ^ hlog b) else 0)).
  { destruct (rowMatchFinderUsed _ _); [ apply aligned64_mono; exact Ph | lia ]. }
  nia.
Qed.

Lemma ldm_tableSize_mono rz la lb : ldm_le la lb -> ldm_getTableSize rz la <= ldm_getTableSize rz lb.
Proof.
  intros H. unfold ldm_getTableSize. destruct (ldm_enabled la) eqn:Ea; [ | lia ].
  destruct (H Ea) as (Eb & Hh & Hbk & _). rewrite Eb.
  pose proof (pow2_mono _ _ Hh). pose proof (pow2_mono _ _ Hbk).
  pose proof (alloc_size_mono rz _ _ H1).
  pose proof (alloc_size_mono rz (2 ^ ldm_hashLog la * sizeof_ldmEntry_t) (2 ^ ldm_hashLog lb * sizeof_ldmEntry_t) ltac:(nia)).
  lia.
Qed.

Lemma estimate_internal_mono rz a b la lb st row bia bib boa bob pa pb ext mbs :
  cp_le a b -> ldm_le la lb -> bia <= bib -> boa <= bob -> pa <= pb ->
  estimate_internal rz a la st row bia boa pa ext mbs <= estimate_internal rz b lb st row bib bob pb ext mbs.
Proof.
  intros Hcp Hl Hbi Hbo Hp.
  pose proof (sizeof_matchState_mono rz a b row Hcp) as TM.
  pose proof (ldm_tableSize_mono rz la lb Hl) as TL.
  destruct Hcp as (Hw & Hc & Hh & Hm & Hs).
  unfold estimate_internal, windowSize_of. cbv zeta. rewrite Hm.
  pose proof (pow2_mono _ _ Hw) as Pw.
  set (w1 := N.max 1 (N.min (2 ^ wlog a) pa)). set (w2 := N.max 1 (N.min (2 ^ wlog b) pb)).
  assert (Hww : w1 <= w2) by (unfold w1, w2; lia).
  set (m := resolveMaxBlockSize mbs).
  set (b1 := N.min m w1). set (b2 := N.min m w2).
  assert (Hb : b1 <= b2) by (unfold b1, b2; lia).
  assert (T1 : alloc_size rz (c_WILDCOPY_OVERLENGTH + b1) <= alloc_size rz (c_WILDCOPY_OVERLENGTH + b2)) by (apply alloc_size_mono; lia).
  assert (Hseq : maxNbSeq_of b1 (mml b) ext <= maxNbSeq_of b2 (mml b) ext).
  { unfold maxNbSeq_of. apply N.div_le_mono; [ destruct (_ || _); lia | exact Hb ]. }
  assert (T2 : aligned64_alloc_size rz (maxNbSeq_of b1 (mml b) ext * sizeof_seqDef)
               <= aligned64_alloc_size rz (maxNbSeq_of b2 (mml b) ext * sizeof_seqDef)).
  { apply aligned64_mono. apply N.mul_le_mono_r. exact Hseq. }
  assert (T3 : alloc_size rz (maxNbSeq_of b1 (mml b) ext) <= alloc_size rz (maxNbSeq_of b2 (mml b) ext))
    by (apply alloc_size_mono; exact Hseq).
  assert (T4 : (if ldm_enabled la then aligned64_alloc_size rz (ldm_getMaxNbSeq la b1 * sizeof_rawSeq) else 0)
               <= (if ldm_enabled lb then aligned64_alloc_size rz (ldm_getMaxNbSeq lb b2 * sizeof_rawSeq) else 0)).
  { unfold ldm_getMaxNbSeq. destruct (ldm_enabled la) eqn:Ea; [ | lia ].
    destruct (Hl Ea) as (Eb & _ & _ & Hmm & Hpos). rewrite Eb.
    apply aligned64_mono. apply N.mul_le_mono_r.
    eapply N.le_trans; [ apply (N.div_le_mono b1 b2 (ldm_minMatch la)); [ lia | exact Hb ] | ].
    apply N.div_le_compat_l. lia. }
  assert (T5 : (if ext then aligned64_alloc_size rz (sequenceBound b1 * sizeof_ZSTD_Sequence) else 0)
               <= (if ext then aligned64_alloc_size rz (sequenceBound b2 * sizeof_ZSTD_Sequence) else 0)).
  { destruct ext; [ | lia ]. apply aligned64_mono. apply N.mul_le_mono_r. unfold sequenceBound.
    assert (b1 / c_ZSTD_MINMATCH_MIN <= b2 / c_ZSTD_MINMATCH_MIN) by (apply N.div_le_mono; [ discriminate | exact Hb ]).
    assert (b1 / c_ZSTD_BLOCKSIZE_MAX_MIN <= b2 / c_ZSTD_BLOCKSIZE_MAX_MIN) by (apply N.div_le_mono; [ discriminate | exact Hb ]).
    repeat first [ apply N.le_refl | assumption | apply N.add_le_mono ]. }
  pose proof (alloc_size_mono rz _ _ Hbi) as T6. pose proof (alloc_size_mono rz _ _ Hbo) as T7.
  fold w1 w2 b1 b2 m.
  repeat first [ apply N.le_refl | assumption | apply N.add_le_mono | apply N.mul_le_mono_l ].
Qed.

(* ------------------------------------------------------------------ *)
(* adjust_only_shrinks: what a known source size does to the parameters, compared with the unknown-size adjustment
   the estimators use (same row-mode argument or an explicit one) *)

Lemma srcLog_unknown : srcLog_of UNKNOWN 0 = None.
Proof. reflexivity. Qed.

Lemma dawl0 w s : dictAndWindowLog w s 0 = w.
Proof. reflexivity. Qed.

Lemma adjust_le cpo s r :
  cp_le (adjustCParams_internal cpo s 0 CpmNoAttachDict PsAuto)
        (adjustCParams_internal cpo UNKNOWN 0 CpmNoAttachDict r) /\
  slog (adjustCParams_internal cpo s 0 CpmNoAttachDict PsAuto) = slog cpo /\
  strat (adjustCParams_internal cpo s 0 CpmNoAttachDict PsAuto) = strat cpo /\
  strat (adjustCParams_internal cpo UNKNOWN 0 CpmNoAttachDict r) = strat cpo /\
  wlog (adjustCParams_internal cpo s 0 CpmNoAttachDict PsAuto) <= N.max (wlog cpo) c_ZSTD_WINDOWLOG_ABSOLUTEMIN /\
  wlog (adjustCParams_internal cpo UNKNOWN 0 CpmNoAttachDict r) = N.max (wlog cpo) c_ZSTD_WINDOWLOG_ABSOLUTEMIN.
Proof.
  unfold adjustCParams_internal. rewrite srcLog_unknown. change (negb (UNKNOWN =? UNKNOWN)) with false.
  unfold adjust_core, cp_le. cbv zeta.
  set (w1 := match srcLog_of s 0 with Some l => if l <? wlog cpo then l else wlog cpo | None => wlog cpo end).
  assert (Hw1 : w1 <= wlog cpo) by (unfold w1; destruct (srcLog_of s 0) as [l | ]; [ destruct (N.ltb_spec l (wlog cpo)); lia | lia ]).
  set (hc := if negb (s =? UNKNOWN)
             then (if dictAndWindowLog w1 s 0 + 1 <? hlog cpo then dictAndWindowLog w1 s 0 + 1 else hlog cpo,
                   if dictAndWindowLog w1 s 0 <? clog cpo - (if c_ZSTD_btlazy2 <=? strat cpo then 1 else 0)
                   then clog cpo - (clog cpo - (if c_ZSTD_btlazy2 <=? strat cpo then 1 else 0) - dictAndWindowLog w1 s 0)
                   else clog cpo)
             else (hlog cpo, clog cpo)).
  assert (Hhc : fst hc <= hlog cpo /\ snd hc <= clog cpo).
  { unfold hc. destruct (negb (s =? UNKNOWN)); cbn [fst snd]; [ | lia ].
    destruct (_ <? hlog cpo) eqn:E1; [ apply N.ltb_lt in E1 | ]; destruct (_ <? clog cpo - _); lia. }
  destruct hc as [h1 c1]. cbn [fst snd] in Hhc. destruct Hhc as [Hh1 Hc1].
  cbn [wlog clog hlog slog mml tlen strat].
  assert (HR : forall x y, x <= y -> forall (b : bool) (m : N), (if b then (if m <? x then m else x) else x) <= y).
  { intros x y Hxy b m. destruct b; [ destruct (N.ltb_spec m x); lia | lia ]. }
  splits; try reflexivity.
  - destruct (N.ltb_spec w1 c_ZSTD_WINDOWLOG_ABSOLUTEMIN), (N.ltb_spec (wlog cpo) c_ZSTD_WINDOWLOG_ABSOLUTEMIN); lia.
  - exact Hc1.
  - (* hashLog: same cap on both sides when the estimator enables rows, no cap on the estimator side otherwise *)
    change (match PsAuto with PsAuto => PsEnable | m => m end) with PsEnable.
    destruct r; cbn [rowMatchFinderUsed].
    + (* auto: both capped *)
      destruct (rowMatchFinderUsed (strat cpo) PsEnable);
      repeat match goal with |- context [ ?a <? ?b ] => destruct (N.ltb_spec a b) end; lia.
    + destruct (rowMatchFinderUsed (strat cpo) PsEnable);
      repeat match goal with |- context [ ?a <? ?b ] => destruct (N.ltb_spec a b) end; lia.
    + unfold rowMatchFinderUsed at 2. cbn [ps_eqb]. rewrite andb_false_r.
      destruct (rowMatchFinderUsed (strat cpo) PsEnable);
      repeat match goal with |- context [ ?a <? ?b ] => destruct (N.ltb_spec a b) end; lia.
  - destruct (N.ltb_spec w1 c_ZSTD_WINDOWLOG_ABSOLUTEMIN); lia.
  - destruct (N.ltb_spec (wlog cpo) c_ZSTD_WINDOWLOG_ABSOLUTEMIN); lia.
Qed.

(* ------------------------------------------------------------------ *)
(* a parameter set that fixes all memory-relevant cParams (what ZSTD_CCtx_setParameter leaves after the seven
   cParams were set explicitly; level arbitrary; targetLength may be left to the level) *)

Definition explicit_cp (cp : cparams) : Prop :=
  wlog cp <> 0 /\ clog cp <> 0 /\ hlog cp <> 0 /\ slog cp <> 0 /\ mml cp <> 0 /\ strat cp <> 0.

Definition cparams_pp (lvl : Z) (cp : cparams) (inb outb : bool) : cctxparams :=
  mkPP lvl cp PsAuto (ldm_zero PsAuto) 0 false inb outb 0 0.

Definition with_tlen (cp : cparams) (t : N) : cparams := mkCP (wlog cp) (clog cp) (hlog cp) (slog cp) (mml cp) t (strat cp).

Lemma override_explicit base cp : explicit_cp cp -> exists t, overrideCParams base cp = with_tlen cp t.
Proof.
  intros (H1 & H2 & H3 & H4 & H5 & H6). unfold overrideCParams, override1, with_tlen.
  destruct (N.eqb_spec (wlog cp) 0); [ contradiction | ]. destruct (N.eqb_spec (clog cp) 0); [ contradiction | ].
  destruct (N.eqb_spec (hlog cp) 0); [ contradiction | ]. destruct (N.eqb_spec (slog cp) 0); [ contradiction | ].
  destruct (N.eqb_spec (mml cp) 0); [ contradiction | ]. destruct (N.eqb_spec (strat cp) 0); [ contradiction | ].
  eexists. reflexivity.
Qed.

(* the estimator's parameter set in row mode r *)
Definition est_pp (cp : cparams) (r : pswitch) : cctxparams := with_row (makeCCtxParamsFromCParams cp) r.

Lemma usingCParams_ge rz cp r :
  (r = PsEnable \/ r = PsDisable) -> (rowMatchFinderSupported (strat cp) = false -> r = PsDisable) ->
  oget (estimateCCtxSize_usingCCtxParams rz (est_pp cp r)) <= estimateCCtxSize_usingCParams rz cp /\
  oget (estimateCStreamSize_usingCCtxParams rz (est_pp cp r)) <= estimateCStreamSize_usingCParams rz cp.
Proof.
  intros Hr Hu. unfold estimateCCtxSize_usingCParams, estimateCStreamSize_usingCParams, est_pp.
  destruct (rowMatchFinderSupported (strat cp)) eqn:ES.
  - destruct Hr as [-> | ->]; split; lia.
  - assert (Er : r = PsDisable) by (apply Hu; first [ exact ES | reflexivity ]). rewrite Er.
    assert (E : with_row (makeCCtxParamsFromCParams cp) PsDisable = makeCCtxParamsFromCParams cp).
    { unfold makeCCtxParamsFromCParams, with_row, resolveRowMatchFinderMode. rewrite ES. reflexivity. }
    rewrite E. split; lia.
Qed.

Lemma gen_ldm_consts :
  0 < c_LDM_BUCKET_SIZE_LOG /\ 0 < c_LDM_MIN_MATCH_LENGTH /\ 0 < c_ZSTD_HASHLOG_MIN /\
  c_ZSTD_WINDOWLOG_ABSOLUTEMIN < 27 /\ resolveMaxBlockSize 0 = c_ZSTD_BLOCKSIZE_MAX /\
  resolveMaxBlockSize c_ZSTD_BLOCKSIZE_MAX = c_ZSTD_BLOCKSIZE_MAX /\ c_ZSTD_BLOCKSIZE_MAX = 128 * 1024.
Proof. vm_compute. repeat split; try reflexivity; discriminate. Qed.

(* LDM side: the auto-enabled LDM tables of the session against those of the estimator *)
Lemma ldm_side A E cp r :
  strat A = strat cp -> wlog A <= N.max (wlog cp) c_ZSTD_WINDOWLOG_ABSOLUTEMIN ->
  let lS := ldm_with_enable (ldm_zero PsAuto) (resolveEnableLdm PsAuto A) in
  ldm_le (if ldm_enabled lS then ldm_adjustParameters lS A else lS) (resolveLdmParamsForEstimate (est_pp cp r) E) /\
  (ldm_enabled lS = true -> ldm_user_ok lS = true).
Proof.
  intros SA WA lS.
  destruct gen_ldm_consts as (GB & GM & GH & GW & _).
  assert (EA : resolveEnableLdm PsAuto A = if (c_ZSTD_btopt <=? strat cp) && (27 <=? wlog A) then PsEnable else PsDisable)
    by (unfold resolveEnableLdm; rewrite SA; reflexivity).
  subst lS. rewrite EA. split; [ | intros _; reflexivity ].
  destruct (c_ZSTD_btopt <=? strat cp) eqn:C1; cbn [andb]; [ | unfold ldm_le; cbn; discriminate ].
  destruct (N.leb_spec 27 (wlog A)) as [W27 | W27]; [ | unfold ldm_le; cbn; discriminate ].
  assert (E0 : resolveEnableLdm PsAuto cp = PsEnable).
  { unfold resolveEnableLdm. rewrite C1. destruct (N.leb_spec 27 (wlog cp)); [ reflexivity | lia ]. }
  unfold ldm_le, resolveLdmParamsForEstimate, est_pp, with_row, makeCCtxParamsFromCParams. cbn [p_ldm].
  rewrite E0. cbn [ps_eqb].
  unfold ldm_with_enable, ldm_zero, ldm_adjustParameters, ldm_enabled, resolveEnableLdm.
  cbn [ldm_enable ldm_hashLog ldm_bucketSizeLog ldm_minMatch ldm_hashRateLog ldm_windowLog ps_eqb].
  change (0 =? 0) with true. cbv iota.
  set (hlA := N.max c_ZSTD_HASHLOG_MIN (wlog A - c_LDM_HASH_RLOG)).
  set (hlC := N.max c_ZSTD_HASHLOG_MIN (wlog cp - c_LDM_HASH_RLOG)).
  assert (HhlC : hlC <> 0) by (unfold hlC; lia).
  destruct (N.eqb_spec hlC 0) as [ | _ ]; [ contradiction | ].
  assert (Hb : N.min c_LDM_BUCKET_SIZE_LOG hlC <> 0) by lia.
  destruct (N.eqb_spec (N.min c_LDM_BUCKET_SIZE_LOG hlC) 0) as [ | _ ]; [ contradiction | ].
  destruct (N.eqb_spec c_LDM_MIN_MATCH_LENGTH 0) as [ | _ ]; [ lia | ].
  cbn [ldm_enable ldm_hashLog ldm_bucketSizeLog ldm_minMatch ldm_hashRateLog ldm_windowLog ps_eqb].
  assert (hlA <= hlC) by (unfold hlA, hlC; lia).
  intros _. splits; try reflexivity; lia.
Qed.

(* the session's parameters against the estimator's, in the row mode the session resolves to *)
Lemma session_vs_estimate lvl cp inb outb s :
  explicit_cp cp ->
  let p := cparams_pp lvl cp inb outb in
  let '(A, l, row, mbs) := stream2_params p s in
  let la := if ldm_enabled l then ldm_adjustParameters l A else l in
  exists r, (r = PsEnable \/ r = PsDisable) /\ (rowMatchFinderSupported (strat cp) = false -> r = PsDisable) /\
    row = r /\ mbs = c_ZSTD_BLOCKSIZE_MAX /\
    let E := getCParamsFromCCtxParams (est_pp cp r) UNKNOWN 0 CpmNoAttachDict in
    cp_le A E /\ ldm_le la (resolveLdmParamsForEstimate (est_pp cp r) E) /\
    resolveRowMatchFinderMode r E = r /\
    (ldm_enabled l = true -> ldm_user_ok l = true).
Proof.
  intros Hex p. unfold stream2_params.
  destruct gen_ldm_consts as (GB & GM & GH & GW & GR0 & GR1 & GBS).
  (* the session's cParams *)
  assert (HA : exists t, getCParamsFromCCtxParams p s 0 CpmNoAttachDict
                         = adjustCParams_internal (with_tlen cp t) s 0 CpmNoAttachDict PsAuto).
  { unfold getCParamsFromCCtxParams, p, cparams_pp. cbn [p_srcSizeHint p_level p_ldm p_cp p_row].
    change (ldm_enabled (ldm_zero PsAuto)) with false. cbv iota.
    change (0 <? 0) with false. rewrite andb_false_r.
    destruct (override_explicit (getCParams_internal lvl s 0 CpmNoAttachDict) cp Hex) as [t ->]. exists t. reflexivity. }
  destruct HA as [t HA]. rewrite HA.
  set (A := adjustCParams_internal (with_tlen cp t) s 0 CpmNoAttachDict PsAuto).
  set (r := resolveRowMatchFinderMode PsAuto A).
  cbn [p_ldm p_row p_maxBlockSize p cparams_pp]. fold r.
  assert (Hr : r = PsEnable \/ r = PsDisable).
  { unfold r, resolveRowMatchFinderMode. destruct (rowMatchFinderSupported _); [ destruct (_ <? _) | ]; auto. }
  destruct (adjust_le (with_tlen cp t) s r) as (_ & _ & SA & _ & _ & _). fold A in SA. cbn [with_tlen strat] in SA.
  assert (Hu : rowMatchFinderSupported (strat cp) = false -> r = PsDisable).
  { intros Hn. unfold r, resolveRowMatchFinderMode. rewrite SA, Hn. reflexivity. }
  exists r. split; [ exact Hr | ]. split; [ exact Hu | ]. split; [ reflexivity | ]. split; [ exact GR0 | ].
  (* the estimator's cParams in mode r *)
  assert (HE : exists t', getCParamsFromCCtxParams (est_pp cp r) UNKNOWN 0 CpmNoAttachDict
                          = adjustCParams_internal (with_tlen cp t') UNKNOWN 0 CpmNoAttachDict r).
  { unfold getCParamsFromCCtxParams, est_pp, with_row, makeCCtxParamsFromCParams.
    cbn [p_srcSizeHint p_level p_ldm p_cp p_row]. change (0 <? 0) with false. rewrite andb_false_r.
    match goal with |- context [ overrideCParams ?b cp ] => destruct (override_explicit b cp Hex) as [t' ->] end.
    exists t'. reflexivity. }
  destruct HE as [t' HE]. cbv zeta. rewrite HE.
  set (E := adjustCParams_internal (with_tlen cp t') UNKNOWN 0 CpmNoAttachDict r).
  (* same adjustment input up to targetLength, which the adjustment only copies *)
  assert (HAE : cp_le A E /\ wlog A <= N.max (wlog cp) c_ZSTD_WINDOWLOG_ABSOLUTEMIN).
  { assert (TL : forall u v sz rr, let X := adjustCParams_internal (with_tlen cp u) sz 0 CpmNoAttachDict rr in
                                    let Y := adjustCParams_internal (with_tlen cp v) sz 0 CpmNoAttachDict rr in
                                    wlog X = wlog Y /\ clog X = clog Y /\ hlog X = hlog Y /\ mml X = mml Y /\ strat X = strat Y).
    { intros. unfold X, Y, adjustCParams_internal, adjust_core, with_tlen. cbn [wlog clog hlog slog mml tlen strat].
      repeat match goal with |- context [ let '(_, _) := ?e in _ ] => destruct e end.
      cbn [wlog clog hlog slog mml tlen strat]. repeat split; reflexivity. }
    destruct (adjust_le (with_tlen cp t) s r) as ((L1 & L2 & L3 & L4 & L5) & _ & _ & S2 & W1 & W2).
    fold A in L1, L2, L3, L4, L5, W1. cbn [with_tlen wlog strat] in W1, W2, S2.
    destruct (TL t t' UNKNOWN r) as (Q1 & Q2 & Q3 & Q4 & Q5). cbv zeta in Q1, Q2, Q3, Q4, Q5. fold E in Q1, Q2, Q3, Q4, Q5.
    unfold cp_le. rewrite <- Q1, <- Q2, <- Q3, <- Q4, <- Q5. splits; assumption. }
  destruct HAE as (HLE & WA).
  split; [ exact HLE | ].
  destruct (ldm_side A E cp r SA WA) as [LS1 LS2]. cbv zeta in LS1, LS2.
  split; [ exact LS1 | ]. split; [ destruct Hr as [-> | ->]; reflexivity | exact LS2 ].
Qed.

(* ------------------------------------------------------------------ *)
(* estimate*_usingCParams(c) + exactly c, every source size *)

Lemma cparams_need_le_estimate rz lvl cp inb outb s oneShot :
  explicit_cp cp -> s <= UNKNOWN ->
  let p := cparams_pp lvl cp inb outb in
  session_need rz (stream2_params p s) s false true (negb oneShot && inb) (negb oneShot && outb)
  <= (if oneShot then estimateCCtxSize_usingCParams rz cp else estimateCStreamSize_usingCParams rz cp) /\
  (let '(A, l, row, mbs) := stream2_params p s in mbs <> 0 /\ (ldm_enabled l = true -> ldm_user_ok l = true)).
Proof.
  intros Hex Hs p.
  pose proof (session_vs_estimate lvl cp inb outb s Hex) as H. cbv zeta in H. fold p in H.
  destruct gen_ldm_consts as (_ & _ & _ & _ & GR0 & GR1 & GBS).
  destruct (stream2_params p s) as [[[A l] row] mbs].
  destruct H as (r & Hr & Hu & -> & -> & HLE & HL & HR & HOK).
  split; [ | split; [ rewrite GBS; discriminate | exact HOK ] ].
  destruct (usingCParams_ge rz cp r Hr Hu) as [G1 G2].
  unfold session_need.
  set (E := getCParamsFromCCtxParams (est_pp cp r) UNKNOWN 0 CpmNoAttachDict) in *.
  set (la := if ldm_enabled l then ldm_adjustParameters l A else l) in *.
  set (lE := resolveLdmParamsForEstimate (est_pp cp r) E) in *.
  assert (PW : 2 ^ wlog A <= 2 ^ wlog E) by (apply pow2_mono; apply HLE).
  assert (P1 : 1 <= 2 ^ wlog A) by (pose proof (N.pow_nonzero 2 (wlog A)); lia).
  destruct oneShot; cbn [negb andb].
  - (* ZSTD_compress2: no buffers *)
    eapply N.le_trans; [ | exact G1 ].
    unfold estimateCCtxSize_usingCCtxParams. fold E. fold lE. change (p_row (est_pp cp r)) with r. rewrite HR.
    change (p_nbWorkers (est_pp cp r)) with 0. change (0 <? 0) with false. cbv iota. cbn [oget].
    change (p_extSeq (est_pp cp r)) with false. change (p_maxBlockSize (est_pp cp r)) with c_ZSTD_BLOCKSIZE_MAX.
    unfold reset_buffInSize, reset_buffOutSize. cbn [andb].
    apply estimate_internal_mono; try assumption; lia.
  - (* ZSTD_compressStream2 with the buffer modes of the parameter set *)
    eapply N.le_trans; [ | exact G2 ].
    unfold estimateCStreamSize_usingCCtxParams. fold E. fold lE. change (p_row (est_pp cp r)) with r. rewrite HR.
    change (p_nbWorkers (est_pp cp r)) with 0. change (0 <? 0) with false. cbv iota. cbn [oget].
    change (p_extSeq (est_pp cp r)) with false. change (p_maxBlockSize (est_pp cp r)) with c_ZSTD_BLOCKSIZE_MAX.
    change (p_inBuffered (est_pp cp r)) with true. change (p_outBuffered (est_pp cp r)) with true. cbv iota.
    rewrite GR1.
    unfold reset_buffInSize, reset_buffOutSize. cbn [andb].
    set (w' := N.max 1 (N.min (2 ^ wlog A) s)).
    assert (Hw' : w' <= 2 ^ wlog E) by (unfold w'; lia).
    apply estimate_internal_mono; try assumption.
    + destruct inb; lia.
    + destruct outb; [ | lia ].
      pose proof (compressBound_mono (N.min c_ZSTD_BLOCKSIZE_MAX w') (N.min c_ZSTD_BLOCKSIZE_MAX (2 ^ wlog E)) ltac:(lia) ltac:(lia)).
      lia.
Qed.

Lemma cparams_static_compress2_ok_l :
  forall rz start size lvl cp inb outb s,
    explicit_cp cp -> s <= UNKNOWN -> start mod 8 = 0 ->
    estimateCCtxSize_usingCParams rz cp <= size ->
    exists w log, static_stream2_session rz start size (cparams_pp lvl cp inb outb) s true = SessDone w log /\
                  allocFailed w = false /\ ws_start w = start /\ ws_end w = start + size /\
                  Forall (entry_in start size) log.
Proof.
  intros rz start size lvl cp inb outb s Hex Hs Ha Hsz.
  destruct (cparams_need_le_estimate rz lvl cp inb outb s true Hex Hs) as [N1 N2]. cbv zeta in N1, N2.
  unfold static_stream2_session. cbn [negb andb] in *. change (p_extSeq (cparams_pp lvl cp inb outb)) with false.
  destruct (stream2_params (cparams_pp lvl cp inb outb) s) as [[[A l] row] mbs]. destruct N2 as [M1 M2].
  apply estimate_covers_reservation_l; try assumption.
  unfold session_need in N1. lia.
Qed.

Lemma cparams_static_stream_ok_l :
  forall rz start size lvl cp inb outb s,
    explicit_cp cp -> s <= UNKNOWN -> start mod 8 = 0 ->
    estimateCStreamSize_usingCParams rz cp <= size ->
    exists w log, static_stream2_session rz start size (cparams_pp lvl cp inb outb) s false = SessDone w log /\
                  allocFailed w = false /\ ws_start w = start /\ ws_end w = start + size /\
                  Forall (entry_in start size) log.
Proof.
  intros rz start size lvl cp inb outb s Hex Hs Ha Hsz.
  destruct (cparams_need_le_estimate rz lvl cp inb outb s false Hex Hs) as [N1 N2]. cbv zeta in N1, N2.
  unfold static_stream2_session. cbn [negb andb] in *. change (p_extSeq (cparams_pp lvl cp inb outb)) with false.
  change (p_inBuffered (cparams_pp lvl cp inb outb)) with inb. change (p_outBuffered (cparams_pp lvl cp inb outb)) with outb.
  destruct (stream2_params (cparams_pp lvl cp inb outb) s) as [[[A l] row] mbs]. destruct N2 as [M1 M2].
  apply estimate_covers_reservation_l; try assumption.
  unfold session_need in N1. lia.
Qed.

(* the hypotheses are satisfiable *)
Example explicit_cp_example : explicit_cp (mkCP 17 12 13 4 3 8 5) /\ cparams_in_bounds (mkCP 17 12 13 4 3 8 5) = true.
Proof. unfold explicit_cp. cbn. repeat split; discriminate. Qed.
