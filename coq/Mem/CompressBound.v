(* C06 - model of ZSTD_COMPRESSBOUND (lib/zstd.h) and of the capacity accounting of the one-pass
   frame compressor (lib/compress/zstd_compress.c: ZSTD_compressEnd_public ->
   ZSTD_compressContinue_internal -> ZSTD_writeFrameHeader / ZSTD_compress_frameChunk /
   ZSTD_optimalBlockSize / ZSTD_noCompressBlock -> ZSTD_writeEpilogue).
   Model only: NO proofs in this file (it must keep extracting when a proof breaks).
   All named constants come from coq/Gen/Gen_Tables.v, regenerated from the current headers on every run.
   The macro's own literals (8, 11, 128<<10) are not named constants in zstd.h: they are written here and
   tied to the code by the value correspondence (real ZSTD_compressBound / ZSTD_COMPRESSBOUND vs [bound]). *)
From Coq Require Import ZArith List Bool.
From ZV.Gen Require Gen_Tables.
Import ListNotations.
Local Open Scope Z_scope.

(* ---- constants (T-tie) ---- *)
Definition MAX_INPUT : Z := Z.of_N Gen_Tables.c_ZSTD_MAX_INPUT_SIZE.
Definition BLOCKSIZE_MAX : Z := Z.of_N Gen_Tables.c_ZSTD_BLOCKSIZE_MAX.
Definition BLOCKSIZE_MAX_MIN : Z := Z.of_N Gen_Tables.c_ZSTD_BLOCKSIZE_MAX_MIN.
Definition FHS_MAX : Z := Z.of_N Gen_Tables.c_ZSTD_FRAMEHEADERSIZE_MAX.
Definition BHS : Z := Z.of_N Gen_Tables.c_ZSTD_blockHeaderSize.
Definition MIN_CBLOCK : Z := Z.of_N Gen_Tables.c_MIN_CBLOCK_SIZE.
Definition CHECKSUM_SIZE : Z := Z.of_N Gen_Tables.c_ZSTD_FRAMECHECKSUMSIZE.
Definition SIZE_T_BITS : Z := 8 * Z.of_N Gen_Tables.c_sizeof_size_t.

(* ---- ZSTD_COMPRESSBOUND(srcSize), zstd.h ----
   (((size_t)(srcSize) >= ZSTD_MAX_INPUT_SIZE) ? 0
     : (srcSize) + ((srcSize)>>8) + (((srcSize) < (128<<10)) ? (((128<<10) - (srcSize)) >> 11) : 0)) *)
Definition KB128 : Z := Z.shiftl 128 10.

Definition bound (n : Z) : Z :=
  if n >=? MAX_INPUT then 0
  else n + Z.shiftr n 8 + (if n <? KB128 then Z.shiftr (KB128 - n) 11 else 0).

(* ZSTD_compressBound(): r==0 -> ERROR(srcSize_wrong) *)
Definition compressBound_fn (n : Z) : option Z :=
  let r := bound n in if r =? 0 then None else Some r.

(* ---- results of capacity-checked writers ---- *)
Inductive res : Type :=
| Done (written : Z) (capLeft : Z)   (* success: bytes produced, capacity left *)
| TooSmall                            (* ERROR(dstSize_tooSmall) *)
| OutOfFuel.                          (* artefact of the fuelled recursion; excluded by the theorems *)

(* ZSTD_writeFrameHeader: RETURN_ERROR_IF(dstCapacity < ZSTD_FRAMEHEADERSIZE_MAX); writes hs bytes *)
Definition write_frame_header (cap hs : Z) : option Z :=
  if cap <? FHS_MAX then None else Some hs.

(* ZSTD_noCompressBlock: RETURN_ERROR_IF(srcSize + ZSTD_blockHeaderSize > dstCapacity) *)
Definition no_compress_block (cap len : Z) : option Z :=
  if len + BHS >? cap then None else Some (BHS + len).

(* ZSTD_rleCompressBlock: RETURN_ERROR_IF(dstCapacity < 4) *)
Definition rle_compress_block (cap : Z) : option Z :=
  if cap <? 4 then None else Some 4.

(* ZSTD_optimalBlockSize(cctx, src, srcSize, blockSizeMax, strat, savings).
   [split] stands for the answer of the pre-splitter (ZSTD_splitBlock(..) for strat >= lazy2, the blind
   92 KB otherwise): a heuristic, left as an oracle. *)
Definition optimal_block_size (srcSize blockSizeMax savings split : Z) : Z :=
  if (srcSize <? KB128) || (blockSizeMax <? KB128) then Z.min srcSize blockSizeMax
  else if savings <? 3 then KB128
  else split.

(* The block compressor (ZSTD_compressBlock_internal + header / ZSTD_compressBlock_splitBlock /
   ZSTD_compressBlock_targetCBlockSize) is an oracle [bc i cap len]: result for the i-th iteration of the frame
   loop when offered [cap] bytes for a chunk of [len] source bytes (None = dstSize_tooSmall). *)
Definition block_compressor := nat -> Z -> Z -> option Z.

(* ZSTD_compress_frameChunk: while (remaining) { blockSize = optimalBlockSize; guard; compress; savings += .. } *)
Fixpoint frame_chunk (fuel : nat) (bc : block_compressor) (split : nat -> Z) (i : nat)
         (bsMax remaining cap savings written : Z) : res :=
  if remaining <=? 0 then Done written cap
  else match fuel with
  | O => OutOfFuel
  | S fuel' =>
    let blockSize := optimal_block_size remaining bsMax savings (split i) in
    if cap <? BHS + MIN_CBLOCK + 1 then TooSmall
    else match bc i cap blockSize with
    | None => TooSmall
    | Some cSize =>
        frame_chunk fuel' bc split (S i) bsMax (remaining - blockSize) (cap - cSize)
                    (savings + blockSize - cSize) (written + cSize)
    end
  end.

(* ZSTD_writeEpilogue.  [ending] = (stage == ZSTDcs_ending), i.e. the frame chunk loop emitted its last block. *)
Definition write_epilogue (ending chk : bool) (cap : Z) : option Z :=
  let after_empty := if ending then Some (0, cap)
                     else if cap <? 3 then None else Some (BHS, cap - BHS) in
  match after_empty with
  | None => None
  | Some (w, cap') =>
      if chk then (if cap' <? 4 then None else Some (w + CHECKSUM_SIZE)) else Some w
  end.

(* ZSTD_compressEnd_public on a freshly initialised context (stage == ZSTDcs_init), whole input in one call:
   n = srcSize, hs = size of the header ZSTD_writeFrameHeader emits, chk = checksumFlag,
   s0 = consumedSrcSize - producedCSize at entry (0 for a one-pass call). *)
Definition compress_frame (fuel : nat) (bc : block_compressor) (split : nat -> Z)
           (n bsMax hs : Z) (chk : bool) (s0 cap : Z) : res :=
  match write_frame_header cap hs with
  | None => TooSmall
  | Some h =>
    let cap1 := cap - h in
    if n <=? 0 then   (* "if (!srcSize) return fhSize" : no block, stage stays 'ongoing' *)
      match write_epilogue false chk cap1 with
      | None => TooSmall
      | Some e => Done (h + e) (cap1 - e)
      end
    else match frame_chunk fuel bc split O bsMax n cap1 s0 0 with
    | Done body cap2 =>
        (* lastFrameChunk && op > ostart -> stage = ending *)
        match write_epilogue (0 <? body) chk cap2 with
        | None => TooSmall
        | Some e => Done (h + body + e) (cap2 - e)
        end
    | TooSmall => TooSmall
    | OutOfFuel => OutOfFuel
    end
  end.

(* ---- instances used by the correspondence runs ---- *)

(* incompressible input: every block goes through ZSTD_noCompressBlock *)
Definition bc_raw : block_compressor := fun _ cap len => no_compress_block cap len.

(* replay of an observed run: the i-th chunk came out in (nth i sizes) bytes *)
Definition bc_replay (sizes : list Z) : block_compressor :=
  fun i cap _ => let cs := nth i sizes 0 in if cs >? cap then None else Some cs.

Definition split_const (v : Z) : nat -> Z := fun _ => v.
Definition split_list (l : list Z) : nat -> Z := fun i => nth i l KB128.

(* number of blocks of size bs needed for n bytes *)
Definition nb_blocks (n bs : Z) : Z := (n + bs - 1) / bs.

(* the capacity the loop can need in the worst case (every block raw), used as a sweep point *)
Definition worst_frame (n bs hs : Z) (chk : bool) : Z :=
  hs + n + BHS * nb_blocks n bs + (if n <=? 0 then BHS else 0) + (if chk then CHECKSUM_SIZE else 0).

(* ZSTD_resetCCtx_internal: windowSize = MAX(1, MIN(1 << windowLog, pledgedSrcSize));
   blockSize = MIN(params->maxBlockSize, windowSize)  (maxBlockSize already resolved: 0 -> ZSTD_BLOCKSIZE_MAX) *)
Definition resolve_max_block_size (maxBlockSize : Z) : Z :=
  if maxBlockSize =? 0 then BLOCKSIZE_MAX else maxBlockSize.
Definition cctx_block_size (maxBlockSize windowLog pledgedSrcSize : Z) : Z :=
  Z.min (resolve_max_block_size maxBlockSize) (Z.max 1 (Z.min (2 ^ windowLog) pledgedSrcSize)).

(* a capacity that is always enough for the frame writer (tighter than the bound): header guard, every block raw,
   and what the last guard / the epilogue want to see *)
Definition suff_capacity (n bs hs : Z) (chk : bool) : Z :=
  Z.max FHS_MAX
    (hs + n + BHS * nb_blocks n bs
     + (if n <=? 0 then BHS + (if chk then CHECKSUM_SIZE else 0) else (if chk then CHECKSUM_SIZE else 2))).

(* convenience for the driver: run the raw model with fuel = number of blocks + 1 *)
Definition raw_frame (n bsMax hs : Z) (chk : bool) (cap : Z) : res :=
  compress_frame (S (Z.to_nat (nb_blocks n bsMax))) bc_raw (split_const KB128) n bsMax hs chk 0 cap.

Definition replay_frame (sizes splits : list Z) (n bsMax hs : Z) (chk : bool) (s0 cap : Z) : res :=
  compress_frame (S (length sizes)) (bc_replay sizes) (split_list splits) n bsMax hs chk s0 cap.

(* ZSTD_writeLastEmptyBlock: RETURN_ERROR_IF(dstCapacity < ZSTD_blockHeaderSize); writes 3 bytes *)
Definition write_last_empty_block (cap : Z) : option Z :=
  if cap <? BHS then None else Some BHS.
