(* C14 - proofs about the workspace allocator model (Cwksp.v). *)
From Coq Require Import NArith ZArith List Bool Lia.
From ZV.Mem Require Import Cwksp.
From ZV.Gen Require Import Gen_C14.
Import ListNotations.
Local Open Scope N_scope.
Ltac Zify.zify_post_hook ::= Z.to_euclidean_division_equations.
Ltac psimpl := cbn [ws_start ws_end objectEnd tableEnd tableValidEnd allocStart initOnceStart allocFailed ph is_static fst snd phase_rank].
Ltac psimpl_all := cbn [ws_start ws_end objectEnd tableEnd tableValidEnd allocStart initOnceStart allocFailed ph is_static fst snd phase_rank] in *.

(* T-tie: the constants the model hard-wires are those of the current headers *)
Lemma align_is_header_value : ALIGN = c_ZSTD_CWKSP_ALIGNMENT_BYTES /\ slack_space_required = c_cwksp_slack.
Proof. split; reflexivity. Qed.

Lemma align_up_spec x a : 0 < a ->
  exists q r, x + (a - 1) = a * q + r /\ r < a /\ align_up x a = q * a.
Proof.
  intros Ha. exists ((x + (a - 1)) / a), ((x + (a - 1)) mod a). split; [ | split ].
  - apply N.div_mod. lia.
  - apply N.mod_lt. lia.
  - reflexivity.
Qed.
Lemma align_up_ge x a : 0 < a -> x <= align_up x a.
Proof. intros Ha. destruct (align_up_spec x a Ha) as (q & r & E & R & ->). nia. Qed.
Lemma align_up_lt x a : 0 < a -> align_up x a < x + a.
Proof. intros Ha. destruct (align_up_spec x a Ha) as (q & r & E & R & ->). nia. Qed.
Lemma align_up_mod x a : 0 < a -> align_up x a mod a = 0.
Proof. unfold align_up; intros. apply N.mod_mul; lia. Qed.
Lemma align_up_id x a : 0 < a -> x mod a = 0 -> align_up x a = x.
Proof.
  intros Ha Hm. unfold align_up.
  pose proof (N.div_mod x a ltac:(lia)) as D. rewrite Hm, N.add_0_r in D.
  rewrite D at 1. rewrite (N.mul_comm a (x / a)). rewrite N.div_add_l by lia.
  rewrite (N.div_small (a - 1) a) by lia. rewrite N.add_0_r, N.mul_comm. symmetry. exact D.
Qed.
Lemma align_up_mono x y a : 0 < a -> x <= y -> align_up x a <= align_up y a.
Proof. unfold align_up; intros. apply N.mul_le_mono_r. apply N.div_le_mono; lia. Qed.
Lemma bytes_to_align_lt p : bytes_to_align p ALIGN <= 63.
Proof. unfold bytes_to_align, ALIGN. pose proof (N.mod_lt (64 - p mod 64) 64 ltac:(lia)). lia. Qed.
Lemma bytes_to_align_aligned p : (p + bytes_to_align p ALIGN) mod ALIGN = 0.
Proof.
  unfold bytes_to_align, ALIGN.
  pose proof (N.mod_lt p 64 ltac:(lia)) as H.
  pose proof (N.div_mod p 64 ltac:(lia)) as D.
  destruct (N.eqb_spec (p mod 64) 0) as [E | E].
  - rewrite E. rewrite N.sub_0_r, N.mod_same by lia. rewrite N.add_0_r. exact E.
  - rewrite (N.mod_small (64 - p mod 64) 64) by lia.
    replace (p + (64 - p mod 64)) with ((p / 64 + 1) * 64) by lia.
    apply N.mod_mul. lia.
Qed.
Lemma alloc_size_mono rz x y : x <= y -> alloc_size rz x <= alloc_size rz y.
Proof. unfold alloc_size; intros. destruct (N.eqb_spec x 0), (N.eqb_spec y 0); lia. Qed.
Lemma alloc_size_le rz x : x <= alloc_size rz x.
Proof. unfold alloc_size. destruct (N.eqb_spec x 0); lia. Qed.

(* ------------------------------------------------------------------ *)
(* the bump-pointer invariant (ZSTD_cwksp_assert_internal_consistency, plus what the fit argument needs) *)

Definition inv (w : cwksp) : Prop :=
  ws_start w <= objectEnd w /\ objectEnd w <= tableEnd w /\ tableEnd w <= allocStart w /\
  allocStart w <= initialAllocStart w /\ initialAllocStart w <= ws_end w /\
  (ph w = PhObjects -> tableEnd w = objectEnd w).

Definition same_bounds (w w' : cwksp) : Prop := ws_start w' = ws_start w /\ ws_end w' = ws_end w.

Definition pad_due (w : cwksp) : N := if phase_rank (ph w) =? 0 then 63 else 0.

Lemma initialAllocStart_bounds w w' : same_bounds w w' -> initialAllocStart w' = initialAllocStart w.
Proof. unfold same_bounds, initialAllocStart; intros [_ ->]; reflexivity. Qed.

Lemma inv_init start size st : 63 <= size -> inv (init start size st).
Proof.
  unfold inv, init, clear, set_initOnce, initialAllocStart, ALIGN; psimpl. intros. repeat split; try lia.
Qed.

Lemma init_free start size st : 63 <= size ->
  let w := init start size st in
  size <= available_space w + 63 /\ ws_start w = start /\ ws_end w = start + size /\ ph w = PhObjects
  /\ allocFailed w = false /\ objectEnd w = start.
Proof.
  unfold init, clear, set_initOnce, initialAllocStart, available_space, ALIGN; psimpl. intros. repeat split; try lia.
Qed.

Ltac destr_cmp :=
  repeat match goal with
  | |- context [ ?a <? ?b ] => destruct (N.ltb_spec a b)
  | |- context [ ?a <=? ?b ] => destruct (N.leb_spec a b)
  | |- context [ ?a =? ?b ] => destruct (N.eqb_spec a b)
  | H : context [ ?a <? ?b ] |- _ => destruct (N.ltb_spec a b)
  | H : context [ ?a <=? ?b ] |- _ => destruct (N.leb_spec a b)
  | H : context [ ?a =? ?b ] |- _ => destruct (N.eqb_spec a b)
  end.

Ltac splits := repeat match goal with |- _ /\ _ => split end.
Ltac fin :=
  try lia; try assumption; try reflexivity; try (left; reflexivity); try (right; reflexivity);
  try (let E := fresh "E" in intros E; rewrite E in *; psimpl_all; first [ lia | congruence | contradiction ]).

Lemma phase_rank_0 p : phase_rank p = 0 <-> p = PhObjects.
Proof. destruct p; psimpl; split; intros; try reflexivity; try discriminate; lia. Qed.

(* advance_phase: costs at most 63 bytes, once, when leaving the objects phase *)
Lemma advance_phase_ok w p c :
  inv w -> allocFailed w = false -> phase_rank p <> 0 -> c + pad_due w <= available_space w ->
  let '(w', ok) := advance_phase w p in
  ok = true /\ inv w' /\ same_bounds w w' /\ allocFailed w' = false /\ phase_rank (ph w') <> 0 /\
  c <= available_space w' /\ allocStart w' = allocStart w /\ tableEnd w <= tableEnd w' /\
  (initOnceStart w' = initOnceStart w \/ initOnceStart w' = initialAllocStart w).
Proof.
  intros (I1 & I2 & I3 & I4 & I5 & I6) AF HP HC.
  unfold advance_phase, pad_due, available_space in *.
  pose proof (bytes_to_align_lt (objectEnd w)) as HB.
  destruct (N.ltb_spec (phase_rank (ph w)) (phase_rank p)) as [Hlt | Hge].
  - destruct (N.ltb_spec (phase_rank (ph w)) 1) as [H0 | H0]; cbn [andb].
    + assert (Hph : ph w = PhObjects) by (apply phase_rank_0; lia).
      specialize (I6 Hph). rewrite Hph in *. cbn [phase_rank] in *. cbn [N.eqb] in HC.
      destruct (N.leb_spec 1 (phase_rank p)) as [H1 | H1]; [ | lia ].
      destruct (N.ltb_spec (ws_end w) (objectEnd w + bytes_to_align (objectEnd w) ALIGN)) as [Hbad | Hgood].
      * exfalso. lia.
      * unfold inv, same_bounds, initialAllocStart in *; psimpl. repeat split; fin.
    + destruct (N.eqb_spec (phase_rank (ph w)) 0); [ lia | ].
      destruct (N.leb_spec 1 (phase_rank p)); cbn [andb]; unfold inv, same_bounds, set_phase in *; psimpl;
      repeat split; fin.
  - destruct (N.eqb_spec (phase_rank (ph w)) 0); [ lia | ].
    unfold inv, same_bounds; repeat split; fin.
Qed.

Definition in_free (w : cwksp) (e : entry) : Prop :=
  snd e = 0 \/ exists p, fst e = Some p /\ tableEnd w <= p /\ p + snd e <= allocStart w.

Lemma reserve_internal_ok rz w bytes p c :
  inv w -> allocFailed w = false -> phase_rank p <> 0 ->
  alloc_size rz bytes + c + pad_due w <= available_space w ->
  let '(w', r) := reserve_internal rz w bytes p in
  inv w' /\ same_bounds w w' /\ allocFailed w' = false /\ phase_rank (ph w') <> 0 /\
  c <= available_space w' /\
  (bytes = 0 \/ exists q, r = Some q /\ allocStart w' <= q /\ q + bytes <= allocStart w /\ tableEnd w <= tableEnd w'
                           /\ tableEnd w' <= allocStart w' /\ q = allocStart w' + rz) /\
  (r = None -> initOnceStart w' = initOnceStart w \/ initOnceStart w' = initialAllocStart w).
Proof.
  intros I AF HP HC. unfold reserve_internal.
  pose proof (advance_phase_ok w p (alloc_size rz bytes + c) I AF HP) as HA.
  destruct (advance_phase w p) as [w1 ok].
  destruct HA as (-> & I1 & SB & AF1 & P1 & C1 & AS1 & TE1 & IO1); [ lia | ].
  cbn [negb orb]. unfold alloc_size in *.
  destruct (N.eqb_spec bytes 0) as [-> | Hnz].
  - split; [ exact I1 | ]. split; [ exact SB | ]. split; [ exact AF1 | ]. split; [ exact P1 | ].
    split; [ lia | ]. split; [ left; reflexivity | intros _; exact IO1 ].
  - unfold reserve_internal_buffer_space, available_space in *.
    destruct I1 as (J1 & J2 & J3 & J4 & J5 & J6).
    destruct (N.ltb_spec (allocStart w1) (tableEnd w1 + (bytes + 2 * rz))) as [Hbad | Hgood]; [ exfalso; lia | ].
    destruct SB as [S1 S2].
    unfold inv, same_bounds, set_alloc, initialAllocStart in *; psimpl.
    split; [ repeat split; fin | ]. split; [ split; assumption | ]. split; [ exact AF1 | ]. split; [ exact P1 | ].
    split; [ lia | ]. split; [ | intros E; discriminate ].
    right. exists (allocStart w1 - (bytes + 2 * rz) + rz). repeat split; lia.
Qed.

Lemma reserve_table_ok w bytes c :
  inv w -> allocFailed w = false ->
  bytes + c + pad_due w <= available_space w ->
  let '(w', r) := reserve_table w bytes in
  inv w' /\ same_bounds w w' /\ allocFailed w' = false /\ phase_rank (ph w') <> 0 /\
  c <= available_space w' /\
  (exists q, r = Some q /\ tableEnd w <= q /\ q + bytes = tableEnd w' /\ allocStart w' = allocStart w).
Proof.
  intros I AF HC. unfold reserve_table.
  destruct (N.ltb_spec (phase_rank (ph w)) 1) as [H0 | H0].
  - pose proof (advance_phase_ok w PhInitOnce (bytes + c) I AF) as HA.
    destruct (advance_phase w PhInitOnce) as [w1 ok].
    destruct HA as (-> & I1 & SB & AF1 & P1 & C1 & AS1 & TE1 & _); [ psimpl; lia | lia | ].
    cbn [negb]. unfold available_space in *. destruct I1 as (J1 & J2 & J3 & J4 & J5 & J6).
    destruct (N.ltb_spec (allocStart w1) (tableEnd w1 + bytes)); [ exfalso; lia | ].
    destruct SB as [S1 S2].
    unfold inv, same_bounds, set_tableEnd, initialAllocStart in *; psimpl. splits; fin.
    exists (tableEnd w1). splits; fin.
  - cbn [negb]. unfold available_space, pad_due in *. destruct I as (J1 & J2 & J3 & J4 & J5 & J6).
    destruct (N.eqb_spec (phase_rank (ph w)) 0); [ lia | ].
    destruct (N.ltb_spec (allocStart w) (tableEnd w + bytes)); [ exfalso; lia | ].
    unfold inv, same_bounds, set_tableEnd, initialAllocStart in *; psimpl. splits; fin.
    exists (tableEnd w). splits; fin.
Qed.

Lemma reserve_object_ok rz w bytes c :
  inv w -> allocFailed w = false -> ph w = PhObjects ->
  align_up bytes 8 + 2 * rz + c + pad_due w <= available_space w ->
  let '(w', r) := reserve_object rz w bytes in
  inv w' /\ same_bounds w w' /\ allocFailed w' = false /\ ph w' = PhObjects /\
  c + pad_due w' <= available_space w' /\
  (exists q, r = Some q /\ tableEnd w <= q /\ q + bytes <= tableEnd w' /\ allocStart w' = allocStart w /\ q = objectEnd w + rz).
Proof.
  intros I AF HP HC. unfold reserve_object. rewrite HP. cbn [phase_rank N.eqb negb orb].
  unfold available_space, pad_due in *. rewrite HP in *. cbn [phase_rank N.eqb] in *.
  destruct I as (J1 & J2 & J3 & J4 & J5 & J6). specialize (J6 HP).
  pose proof (align_up_ge bytes 8 ltac:(lia)).
  destruct (N.ltb_spec (ws_end w) (objectEnd w + align_up bytes 8 + 2 * rz)); [ exfalso; lia | ].
  unfold inv, same_bounds, initialAllocStart in *; psimpl. cbn [phase_rank N.eqb]. splits; fin.
  exists (objectEnd w + rz). splits; fin.
Qed.

(* ------------------------------------------------------------------ *)
(* one step of an operation list *)

Lemma entry_ok_of_free w0 w e : same_bounds w0 w -> inv w -> in_free w e -> entry_ok w0 e.
Proof.
  intros [S1 S2] (J1 & J2 & J3 & J4 & J5 & J6) [Z | (p & E & L1 & L2)]; [ left; exact Z | right ].
  exists p. unfold initialAllocStart in *. rewrite <- S1, <- S2. repeat split; try assumption; lia.
Qed.

Lemma step_ok rz w o c :
  inv w -> allocFailed w = false ->
  (is_object o = true -> ph w = PhObjects) ->
  op_cost rz o + c + pad_due w <= available_space w ->
  let '(w', l) := step rz w o in
  inv w' /\ same_bounds w w' /\ allocFailed w' = false /\ c + pad_due w' <= available_space w' /\
  Forall (in_free w) l /\
  (ph w = PhObjects -> is_reserve o && negb (is_object o) = false -> ph w' = PhObjects).
Proof.
  intros I AF HO HC. destruct o; cbn [step op_cost is_object is_reserve negb andb] in *.
  - (* object *)
    pose proof (reserve_object_ok rz w n c I AF (HO eq_refl) HC) as H.
    destruct (reserve_object rz w n) as [w' r]. destruct H as (I' & SB & AF' & P' & C' & (q & -> & Q1 & Q2 & Q3 & Q4)).
    splits; try assumption; try (intros; assumption).
    constructor; [ | constructor ]. right. exists q. psimpl. destruct I' as (_ & _ & K & _). splits; fin.
  - (* table *)
    pose proof (reserve_table_ok w n c I AF HC) as H.
    destruct (reserve_table w n) as [w' r]. destruct H as (I' & SB & AF' & P' & C' & (q & -> & Q1 & Q2 & Q3)).
    unfold pad_due. destruct (N.eqb_spec (phase_rank (ph w')) 0); [ contradiction | ].
    splits; try assumption; try lia; try (intros _ E; discriminate).
    constructor; [ | constructor ]. right. exists q. psimpl. destruct I' as (_ & _ & K & _). splits; fin.
  - (* init once *)
    unfold reserve_aligned_init_once.
    pose proof (reserve_internal_ok rz w (align_up n ALIGN) PhInitOnce c I AF) as H.
    destruct (reserve_internal rz w (align_up n ALIGN) PhInitOnce) as [w1 r].
    destruct H as (I' & SB & AF' & P' & C' & R & _); [ psimpl; lia | exact HC | ].
    assert (Hlog : Forall (in_free w) [(r, align_up n ALIGN)]).
    { constructor; [ | constructor ]. destruct R as [Z | (q & -> & Q1 & Q2 & Q3 & Q4 & Q5)]; [ left; exact Z | right ].
      exists q. psimpl. splits; fin. }
    assert (Hgoal : inv w1 /\ same_bounds w w1 /\ allocFailed w1 = false /\ c + pad_due w1 <= available_space w1 /\
                    Forall (in_free w) [(r, align_up n ALIGN)] /\ (ph w = PhObjects -> true = false -> ph w1 = PhObjects)).
    { unfold pad_due. destruct (N.eqb_spec (phase_rank (ph w1)) 0); [ contradiction | ].
      splits; try assumption; try lia; try (intros _ E; discriminate). }
    destruct r as [p | ]; [ | exact Hgoal ].
    destruct (N.ltb_spec p (initOnceStart w1)); [ | exact Hgoal ].
    destruct Hgoal as (G1 & G2 & G3 & G4 & G5 & G6).
    unfold set_initOnce, inv, same_bounds, pad_due, available_space, initialAllocStart in *; psimpl.
    splits; try apply G1; try apply G2; try assumption.
  - (* aligned *)
    unfold reserve_aligned.
    pose proof (reserve_internal_ok rz w (align_up n ALIGN) PhAligned c I AF) as H.
    destruct (reserve_internal rz w (align_up n ALIGN) PhAligned) as [w1 r].
    destruct H as (I' & SB & AF' & P' & C' & R & _); [ psimpl; lia | exact HC | ].
    unfold pad_due. destruct (N.eqb_spec (phase_rank (ph w1)) 0); [ contradiction | ].
    splits; try assumption; try lia; try (intros _ E; discriminate).
    constructor; [ | constructor ]. destruct R as [Z | (q & -> & Q1 & Q2 & Q3 & Q4 & Q5)]; [ left; exact Z | right ].
    exists q. psimpl. splits; fin.
  - (* buffer *)
    unfold reserve_buffer.
    pose proof (reserve_internal_ok rz w n PhBuffers c I AF) as H.
    destruct (reserve_internal rz w n PhBuffers) as [w1 r].
    destruct H as (I' & SB & AF' & P' & C' & R & _); [ psimpl; lia | exact HC | ].
    unfold pad_due. destruct (N.eqb_spec (phase_rank (ph w1)) 0); [ contradiction | ].
    splits; try assumption; try lia; try (intros _ E; discriminate).
    constructor; [ | constructor ]. destruct R as [Z | (q & -> & Q1 & Q2 & Q3 & Q4 & Q5)]; [ left; exact Z | right ].
    exists q. psimpl. splits; fin.
  - (* clear *)
    destruct I as (J1 & J2 & J3 & J4 & J5 & J6).
    unfold clear, inv, same_bounds, available_space, pad_due, initialAllocStart in *; psimpl.
    destruct (N.ltb_spec 1 (phase_rank (ph w))) as [L | L]; psimpl.
    + destruct (N.eqb_spec (phase_rank (ph w)) 0); [ lia | ].
      change (1 =? 0) with false. cbv iota. splits; fin; try constructor.
    + destruct (N.eqb_spec (phase_rank (ph w)) 0); splits; fin; try constructor.
  - (* clear tables *)
    destruct I as (J1 & J2 & J3 & J4 & J5 & J6).
    unfold clear_tables, set_tableEnd, inv, same_bounds, available_space, pad_due, initialAllocStart in *; psimpl.
    splits; fin; try constructor.
  - (* mark dirty *)
    destruct I as (J1 & J2 & J3 & J4 & J5 & J6).
    unfold mark_tables_dirty, set_tableValidEnd, inv, same_bounds, available_space, pad_due, initialAllocStart in *; psimpl.
    splits; fin; try constructor.
  - (* clean *)
    destruct I as (J1 & J2 & J3 & J4 & J5 & J6).
    unfold mark_tables_clean. destruct (N.ltb_spec (tableValidEnd w) (tableEnd w));
    unfold set_tableValidEnd, inv, same_bounds, available_space, pad_due, initialAllocStart in *; psimpl;
    splits; fin; try constructor.
Qed.

(* ------------------------------------------------------------------ *)
(* whole lists: the fit theorem of the allocator *)

Lemma run_ok rz : forall ops w b,
  inv w -> allocFailed w = false ->
  (b = true -> ph w = PhObjects) ->
  wf_ops b ops = true ->
  ops_cost rz ops + pad_due w <= available_space w ->
  let '(w', log) := run rz w ops in
  inv w' /\ same_bounds w w' /\ allocFailed w' = false /\ Forall (entry_ok w) log.
Proof.
  induction ops as [ | o rest IH]; intros w b I AF HB WF HC; cbn [run].
  - splits; try assumption; try constructor; reflexivity.
  - cbn [ops_cost wf_ops] in *.
    pose proof (step_ok rz w o (ops_cost rz rest) I AF) as HS.
    destruct (step rz w o) as [w1 l1].
    destruct HS as (I1 & SB1 & AF1 & C1 & L1 & PK).
    { intros Ho. rewrite Ho in WF. apply andb_true_iff in WF. destruct WF as [W _]. exact (HB W). }
    { lia. }
    assert (exists b1, (b1 = true -> ph w1 = PhObjects) /\ wf_ops b1 rest = true) as (b1 & HB1 & WF1).
    { destruct (is_object o) eqn:Eo.
      - apply andb_true_iff in WF. destruct WF as [W1 W2]. exists b. split; [ | exact W2 ].
        intros _. apply PK; [ exact (HB W1) | ]. apply andb_false_r.
      - destruct (is_reserve o) eqn:Er.
        + exists false. split; [ discriminate | exact WF ].
        + exists b. split; [ | exact WF ]. intros Hb. apply PK; [ exact (HB Hb) | reflexivity ]. }
    specialize (IH w1 b1 I1 AF1 HB1 WF1 C1).
    destruct (run rz w1 rest) as [w2 l2].
    destruct IH as (I2 & SB2 & AF2 & L2).
    splits; try assumption.
    + destruct SB1, SB2; split; congruence.
    + apply Forall_app. split.
      * eapply Forall_impl; [ | exact L1 ]. intros e He. eapply entry_ok_of_free; [ | exact I | exact He ]. split; reflexivity.
      * eapply Forall_impl; [ | exact L2 ]. intros e [Z | (p & E1 & E2 & E3)]; [ left; exact Z | right ].
        exists p. destruct SB1 as [S1 S2]. rewrite <- S1, <- S2. repeat split; assumption.
Qed.

(* fit from a fresh workspace: 126 spare bytes (two alignment pads of at most 63) always suffice *)
Theorem cwksp_fit rz start size st ops :
  wf_ops true ops = true ->
  ops_cost rz ops + 126 <= size ->
  let w0 := init start size st in
  let '(w', log) := run rz w0 ops in
  allocFailed w' = false /\ same_bounds w0 w' /\ Forall (entry_ok w0) log.
Proof.
  intros WF HC w0.
  assert (Hs : 63 <= size) by lia.
  pose proof (inv_init start size st Hs) as I.
  destruct (init_free start size st Hs) as (F1 & F2 & F3 & F4 & F5 & F6). fold w0 in F1, F2, F3, F4, F5, F6, I.
  pose proof (run_ok rz ops w0 true I F5 (fun _ => F4) WF) as H.
  destruct (run rz w0 ops) as [w' log].
  destruct H as (I' & SB & AF & L).
  { unfold pad_due. rewrite F4. cbn [phase_rank N.eqb]. lia. }
  splits; assumption.
Qed.

(* ------------------------------------------------------------------ *)
(* safety without any budget: whatever is requested, from whatever state the bump pointers are in,
   a returned pointer always designates bytes inside [workspace, workspaceEnd); the bounds never move. *)

Definition safe_inv (w : cwksp) : Prop :=
  ws_start w <= objectEnd w /\ objectEnd w <= tableEnd w /\ tableEnd w <= ws_end w /\ allocStart w <= ws_end w.

Definition entry_safe (w : cwksp) (e : entry) : Prop :=
  fst e = None \/ exists p, fst e = Some p /\ ws_start w <= p /\ p + snd e <= ws_end w.

Lemma safe_inv_init start size st : safe_inv (init start size st).
Proof. unfold safe_inv, init, clear, set_initOnce, initialAllocStart; psimpl. splits; lia. Qed.

Lemma advance_phase_safe w p :
  safe_inv w -> let '(w', ok) := advance_phase w p in safe_inv w' /\ same_bounds w w'.
Proof.
  intros (S1 & S2 & S3 & S4). unfold advance_phase.
  destruct (phase_rank (ph w) <? phase_rank p); [ | unfold safe_inv, same_bounds; splits; fin ].
  destruct ((phase_rank (ph w) <? 1) && (1 <=? phase_rank p)).
  - destruct (N.ltb_spec (ws_end w) (objectEnd w + bytes_to_align (objectEnd w) ALIGN));
    unfold safe_inv, same_bounds, set_initOnce, set_tableValidEnd; psimpl; splits; fin.
  - unfold safe_inv, same_bounds, set_phase; psimpl; splits; fin.
Qed.

Lemma reserve_internal_safe rz w bytes p :
  safe_inv w -> let '(w', r) := reserve_internal rz w bytes p in
  safe_inv w' /\ same_bounds w w' /\ entry_safe w (r, bytes).
Proof.
  intros S. unfold reserve_internal.
  pose proof (advance_phase_safe w p S) as HA. destruct (advance_phase w p) as [w1 ok].
  destruct HA as (SS & BB).
  destruct (negb ok || (bytes =? 0)).
  - splits; try assumption. left; reflexivity.
  - destruct SS as (S1 & S2 & S3 & S4). destruct BB as [B1 B2]. unfold reserve_internal_buffer_space.
    destruct (N.ltb_spec (allocStart w1) (tableEnd w1 + (bytes + 2 * rz))).
    + unfold safe_inv, same_bounds, set_failed, entry_safe; psimpl. splits; fin.
    + unfold safe_inv, same_bounds, set_alloc, entry_safe; psimpl. splits; fin.
      right. exists (allocStart w1 - (bytes + 2 * rz) + rz). splits; fin.
Qed.

Lemma step_safe rz w o :
  safe_inv w -> let '(w', l) := step rz w o in
  safe_inv w' /\ same_bounds w w' /\ Forall (entry_safe w) l.
Proof.
  intros S. destruct o; cbn [step].
  - (* object *)
    destruct S as (S1 & S2 & S3 & S4). unfold reserve_object.
    pose proof (align_up_ge n 8 ltac:(lia)).
    destruct (negb (phase_rank (ph w) =? 0)); cbn [orb].
    + unfold safe_inv, same_bounds, set_failed; psimpl. splits; fin. constructor; [ left; reflexivity | constructor ].
    + destruct (N.ltb_spec (ws_end w) (objectEnd w + align_up n 8 + 2 * rz)).
      * unfold safe_inv, same_bounds, set_failed; psimpl. splits; fin. constructor; [ left; reflexivity | constructor ].
      * unfold safe_inv, same_bounds; psimpl. splits; fin.
        constructor; [ | constructor ]. right. exists (objectEnd w + rz). psimpl. splits; fin.
  - (* table *)
    unfold reserve_table.
    assert (HA : let '(w1, ok) := if phase_rank (ph w) <? 1 then advance_phase w PhInitOnce else (w, true) in
                 safe_inv w1 /\ same_bounds w w1).
    { destruct (phase_rank (ph w) <? 1); [ apply advance_phase_safe; exact S | ].
      split; [ exact S | split; reflexivity ]. }
    destruct (if phase_rank (ph w) <? 1 then advance_phase w PhInitOnce else (w, true)) as [w1 ok].
    destruct HA as (SS & BB).
    destruct (negb ok).
    + splits; try assumption.
      constructor; [ left; reflexivity | constructor ].
    + destruct SS as (S1 & S2 & S3 & S4). destruct BB as [B1 B2].
      destruct (N.ltb_spec (allocStart w1) (tableEnd w1 + n)).
      * unfold safe_inv, same_bounds, set_failed; psimpl. splits; fin. constructor; [ left; reflexivity | constructor ].
      * unfold safe_inv, same_bounds, set_tableEnd; psimpl. splits; fin.
        constructor; [ | constructor ]. right. exists (tableEnd w1). psimpl. splits; fin.
  - (* init once *)
    unfold reserve_aligned_init_once.
    pose proof (reserve_internal_safe rz w (align_up n ALIGN) PhInitOnce S) as H.
    destruct (reserve_internal rz w (align_up n ALIGN) PhInitOnce) as [w1 r].
    destruct H as (S' & SB & E).
    destruct r as [p | ].
    + destruct (p <? initOnceStart w1).
      * unfold safe_inv, same_bounds, set_initOnce in *; psimpl. splits; try apply S'; try apply SB.
        constructor; [ exact E | constructor ].
      * splits; try assumption. constructor; [ exact E | constructor ].
    + splits; try assumption. constructor; [ exact E | constructor ].
  - (* aligned *)
    unfold reserve_aligned.
    pose proof (reserve_internal_safe rz w (align_up n ALIGN) PhAligned S) as H.
    destruct (reserve_internal rz w (align_up n ALIGN) PhAligned) as [w1 r].
    destruct H as (S' & SB & E). splits; try assumption. constructor; [ exact E | constructor ].
  - (* buffer *)
    unfold reserve_buffer.
    pose proof (reserve_internal_safe rz w n PhBuffers S) as H.
    destruct (reserve_internal rz w n PhBuffers) as [w1 r].
    destruct H as (S' & SB & E). splits; try assumption. constructor; [ exact E | constructor ].
  - destruct S as (S1 & S2 & S3 & S4).
    unfold clear, safe_inv, same_bounds, initialAllocStart; psimpl. splits; fin; try constructor.
  - destruct S as (S1 & S2 & S3 & S4).
    unfold clear_tables, set_tableEnd, safe_inv, same_bounds; psimpl. splits; fin; try constructor.
  - destruct S as (S1 & S2 & S3 & S4).
    unfold mark_tables_dirty, set_tableValidEnd, safe_inv, same_bounds; psimpl. splits; fin; try constructor.
  - destruct S as (S1 & S2 & S3 & S4).
    unfold mark_tables_clean. destruct (tableValidEnd w <? tableEnd w);
    unfold set_tableValidEnd, safe_inv, same_bounds; psimpl; splits; fin; try constructor.
Qed.

Theorem run_safe rz : forall ops w,
  safe_inv w -> let '(w', log) := run rz w ops in
  safe_inv w' /\ same_bounds w w' /\ Forall (entry_safe w) log.
Proof.
  induction ops as [ | o rest IH]; intros w S; cbn [run].
  - split; [ assumption | split; [ split; reflexivity | constructor ] ].
  - pose proof (step_safe rz w o S) as H1. destruct (step rz w o) as [w1 l1].
    destruct H1 as (S1 & [B1 B2] & L1).
    specialize (IH w1 S1). destruct (run rz w1 rest) as [w2 l2]. destruct IH as (S2 & [C1 C2] & L2).
    split; [ exact S2 | ]. split; [ split; congruence | ].
    apply Forall_app. split; [ exact L1 | ].
    eapply Forall_impl; [ | exact L2 ]. intros e [Z | (p & E1 & E2 & E3)]; [ left; exact Z | right ].
    exists p. rewrite <- B1, <- B2. splits; assumption.
Qed.

(* run_ok with spare budget [c] left over at the end *)
Lemma run_ok_c rz : forall ops w b c,
  inv w -> allocFailed w = false ->
  (b = true -> ph w = PhObjects) ->
  wf_ops b ops = true ->
  ops_cost rz ops + c + pad_due w <= available_space w ->
  let '(w', log) := run rz w ops in
  inv w' /\ same_bounds w w' /\ allocFailed w' = false /\ Forall (entry_ok w) log /\
  c + pad_due w' <= available_space w' /\ (b = true -> forallb is_object ops = true -> ph w' = PhObjects).
Proof.
  induction ops as [ | o rest IH]; intros w b c I AF HB WF HC; cbn [run].
  - cbn [ops_cost] in HC.
    split; [ exact I | ]. split; [ split; reflexivity | ]. split; [ exact AF | ]. split; [ constructor | ].
    split; [ lia | intros Hb _; exact (HB Hb) ].
  - cbn [ops_cost wf_ops] in *.
    pose proof (step_ok rz w o (ops_cost rz rest + c) I AF) as HS.
    destruct (step rz w o) as [w1 l1].
    destruct HS as (I1 & SB1 & AF1 & C1 & L1 & PK).
    { intros Ho. rewrite Ho in WF. apply andb_true_iff in WF. destruct WF as [W _]. exact (HB W). }
    { lia. }
    assert (exists b1, (b1 = true -> ph w1 = PhObjects) /\ wf_ops b1 rest = true /\
                       (b = true -> is_object o = true -> b1 = true)) as (b1 & HB1 & WF1 & HBB).
    { destruct (is_object o) eqn:Eo.
      - apply andb_true_iff in WF. destruct WF as [W1 W2]. exists b. split; [ | split; [ exact W2 | auto ] ].
        intros _. apply PK; [ exact (HB W1) | ]. apply andb_false_r.
      - destruct (is_reserve o) eqn:Er.
        + exists false. split; [ discriminate | split; [ exact WF | intros _ H; discriminate ] ].
        + exists b. split; [ | split; [ exact WF | intros _ H; discriminate ] ].
          intros Hb. apply PK; [ exact (HB Hb) | reflexivity ]. }
    specialize (IH w1 b1 c I1 AF1 HB1 WF1 ltac:(lia)).
    destruct (run rz w1 rest) as [w2 l2].
    destruct IH as (I2 & SB2 & AF2 & L2 & C2 & P2).
    splits; try assumption.
    + destruct SB1, SB2; split; congruence.
    + apply Forall_app. split.
      * eapply Forall_impl; [ | exact L1 ]. intros e He. eapply entry_ok_of_free; [ | exact I | exact He ]. split; reflexivity.
      * eapply Forall_impl; [ | exact L2 ]. intros e [Z | (p & E1 & E2 & E3)]; [ left; exact Z | right ].
        exists p. destruct SB1 as [S1 S2]. rewrite <- S1, <- S2. repeat split; assumption.
    + intros Hb Hall. cbn [forallb] in Hall. apply andb_true_iff in Hall. destruct Hall as [Ho Hr].
      apply P2; [ exact (HBB Hb Ho) | exact Hr ].
Qed.

(* the static flag never changes *)
Lemma step_static rz w o : is_static (fst (step rz w o)) = is_static w.
Proof.
  destruct o; cbn [step];
  unfold reserve_object, reserve_table, reserve_aligned_init_once, reserve_aligned, reserve_buffer, reserve_internal,
         reserve_internal_buffer_space, advance_phase, clear, clear_tables, mark_tables_dirty, mark_tables_clean,
         set_failed, set_alloc, set_phase, set_initOnce, set_tableEnd, set_tableValidEnd;
  repeat match goal with
         | |- context [ if ?c then _ else _ ] => destruct c
         | |- context [ match ?c with Some _ => _ | None => _ end ] => destruct c
         end; reflexivity.
Qed.

Lemma run_static rz : forall ops w, is_static (fst (run rz w ops)) = is_static w.
Proof.
  induction ops as [ | o rest IH]; intros w; cbn [run]; [ reflexivity | ].
  pose proof (step_static rz w o) as H. destruct (step rz w o) as [w1 l1]. cbn [fst] in H.
  specialize (IH w1). destruct (run rz w1 rest) as [w2 l2]. cbn [fst] in *. congruence.
Qed.
