From Coq Require Import NArith List Lia.
From ZV.Gen Require Import Gen_Tables.
Import ListNotations.
Local Open Scope N_scope.
Lemma ll_base_len : length LL_base = 36%nat. Proof. reflexivity. Qed.
