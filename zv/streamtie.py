"""Shared machinery of the streaming checks C02 and C10: batch runners for harness/c02_stream.c (real libzstd rebuilt
from /repo, private fields read by #include) and for the extracted streaming models (coq/Stream), frame builders,
history generators, lock-step comparison and the direct oracles.  All randomness comes from the caller's Random."""
import resource
import struct
import subprocess
from concurrent.futures import ThreadPoolExecutor

from . import codec, core

ERRNAMES = {
    "Unknown_frame_descriptor": "prefix_unknown", "Unsupported_frame_parameter": "frameParameter_unsupported",
    "Frame_requires_too_much_memory_for_decoding": "frameParameter_windowTooLarge", "Data_corruption_detected": "corruption_detected",
    "Restored_data_doesn't_match_checksum": "checksum_wrong", "Dictionary_mismatch": "dictionary_wrong",
    "Destination_buffer_is_too_small": "dstSize_tooSmall", "Src_size_is_incorrect": "srcSize_wrong",
    "Operation_made_no_progress_over_multiple_calls,_due_to_output_buffer_being_full": "noForwardProgress_destFull",
    "Operation_made_no_progress_over_multiple_calls,_due_to_input_being_empty": "noForwardProgress_inputEmpty",
    "Destination_buffer_is_wrong": "dstBuffer_wrong", "pledged_buffer_stability_condition_is_not_respected": "stabilityCondition_notRespected",
    "Context_should_be_init_first": "init_missing", "Allocation_error_:_not_enough_memory": "memory_allocation",
    "Version_not_supported": "version_unsupported", "Error_(generic)": "GENERIC",
}

MAGIC = 0xFD2FB528
DFIELDS = ["consumed", "produced", "ret", "streamStage", "stage", "expected", "lhSize", "inPos", "outStart", "outEnd", "hostage",
           "inBuffSize", "outBuffSize"]
KFIELDS = ["consumed", "produced", "ret", "streamStage", "inBuffPos", "inToCompress", "inBuffTarget", "outBuffContentSize",
           "outBuffFlushedSize", "frameEnded", "notConsumed", "blockSize", "inBuffSize", "outBuffSize", "hint"]


def _unlimit_stack():
    try:
        soft, hard = resource.getrlimit(resource.RLIMIT_STACK)
        resource.setrlimit(resource.RLIMIT_STACK, (hard, hard))
    except Exception:
        pass


def run_lines(exe, lines, nproc=core.NCPU, timeout=1500, big_stack=False):
    """feed command lines to a line-oriented driver in parallel; -> ({id: rest of result line}, [crash info])"""
    if not lines:
        return {}, []
    nproc = max(1, min(nproc, len(lines)))
    # balance by line length (cost is roughly proportional)
    order = sorted(range(len(lines)), key=lambda i: -len(lines[i]))
    chunks = [[] for _ in range(nproc)]
    for j, i in enumerate(order):
        chunks[j % nproc].append(lines[i])

    def one(ch):
        try:
            p = subprocess.run([exe], input=("\n".join(ch) + "\n").encode(), stdout=subprocess.PIPE, stderr=subprocess.PIPE,
                               timeout=timeout, preexec_fn=_unlimit_stack if big_stack else None)
            return p.returncode, p.stdout.decode("utf-8", "replace").split("\n"), p.stderr.decode("utf-8", "replace")
        except subprocess.TimeoutExpired as e:
            return 124, (e.stdout or b"").decode("utf-8", "replace").split("\n"), "timeout"
    with ThreadPoolExecutor(nproc) as ex:
        res = list(ex.map(one, chunks))
    out, errs = {}, []
    for (rc, ls, err), ch in zip(res, chunks):
        for l in ls:
            if l:
                i = l.find(" ")
                out[l[:i]] = l[i + 1:]
        if rc != 0:
            done = set(out)
            errs.append(dict(rc=rc, stderr=err[-1500:], first_unanswered=next((c for c in ch if c.split(" ")[1] not in done), "")[:4000]))
    return out, errs


class Tie:
    def __init__(self, ctx, variant="o1"):
        self.ctx = ctx
        self.variant = variant
        self.h = core.build_harness("c02_stream", ["c02_stream.c"], variant=variant, extra_flags=["-w"])
        self._m = None

    @property
    def m(self):
        if self._m is None:
            self._m = core.build_extracted("c02model", "Extract/Extract_C02.v", "c02_driver.ml")
        return self._m

    def impl(self, lines, **kw):
        return run_lines(self.h, lines, **kw)

    def model(self, lines, **kw):
        return run_lines(self.m, lines, big_stack=True, **kw)


# ---------------------------------------------------------------------------------------------
# hand-made frames (valid by construction): exercise shapes the bundled compressor never emits

def block(btype, data=b"", last=False, rle_len=0):
    """btype 0 raw, 1 rle (data = one byte, rle_len = regenerated size), 2 compressed payload given verbatim"""
    size = rle_len if btype == 1 else len(data)
    h = (size << 3) | (btype << 1) | (1 if last else 0)
    return struct.pack("<I", h)[:3] + data


_P1, _P2, _P3, _P4, _P5 = 11400714785074694791, 14029467366897019727, 1609587929392839161, 9650029242287828579, 2870177450012600261
_M = (1 << 64) - 1


def _rotl(x, r):
    return ((x << r) | (x >> (64 - r))) & _M


def xxh64(data, seed=0):
    """XXH64 (python, for the checksums of hand-made frames)"""
    n = len(data)
    i = 0

    def rnd(acc, inp):
        return (_rotl((acc + inp * _P2) & _M, 31) * _P1) & _M
    if n >= 32:
        v1, v2, v3, v4 = (seed + _P1 + _P2) & _M, (seed + _P2) & _M, seed, (seed - _P1) & _M
        while i + 32 <= n:
            a, b, c, d = struct.unpack_from("<QQQQ", data, i)
            v1, v2, v3, v4 = rnd(v1, a), rnd(v2, b), rnd(v3, c), rnd(v4, d)
            i += 32
        h = (_rotl(v1, 1) + _rotl(v2, 7) + _rotl(v3, 12) + _rotl(v4, 18)) & _M
        for v in (v1, v2, v3, v4):
            h = ((h ^ rnd(0, v)) * _P1 + _P4) & _M
    else:
        h = (seed + _P5) & _M
    h = (h + n) & _M
    while i + 8 <= n:
        (k,) = struct.unpack_from("<Q", data, i)
        h = (_rotl(h ^ rnd(0, k), 27) * _P1 + _P4) & _M
        i += 8
    if i + 4 <= n:
        (k,) = struct.unpack_from("<I", data, i)
        h = (_rotl(h ^ ((k * _P1) & _M), 23) * _P2 + _P3) & _M
        i += 4
    while i < n:
        h = (_rotl(h ^ ((data[i] * _P5) & _M), 11) * _P1) & _M
        i += 1
    h ^= h >> 33
    h = (h * _P2) & _M
    h ^= h >> 29
    h = (h * _P3) & _M
    h ^= h >> 32
    return h


def frame_header(window_log=None, fcs=None, fcs_bytes=None, checksum=False, single=False, magicless=False, dictid=0):
    """fcs_bytes forces a wider-than-necessary Frame_Content_Size field (valid, never emitted by libzstd)"""
    fhd = 0
    body = b""
    if single:
        assert fcs is not None
        fhd |= 0x20
    else:
        wl = window_log if window_log is not None else 10
        body += bytes([(wl - 10) << 3])
    if dictid:
        fhd |= 3
        body += struct.pack("<I", dictid)
    if fcs is not None:
        nb = fcs_bytes
        if nb is None:
            nb = 1 if (single and fcs < 256) else 2 if 256 <= fcs < 65792 else 4 if fcs < (1 << 32) else 8
        if nb == 1:
            assert single
            body += bytes([fcs])
        elif nb == 2:
            fhd |= 0x40
            body += struct.pack("<H", fcs - 256)
        elif nb == 4:
            fhd |= 0x80
            body += struct.pack("<I", fcs)
        else:
            fhd |= 0xC0
            body += struct.pack("<Q", fcs)
    if checksum:
        fhd |= 4
    return (b"" if magicless else struct.pack("<I", MAGIC)) + bytes([fhd]) + body


def skippable(payload, nibble=0):
    return struct.pack("<II", 0x184D2A50 + nibble, len(payload)) + payload


def handmade_frame(rng, kind, magicless=False):
    """-> (frame bytes, content bytes, description). Only raw / RLE / empty blocks."""
    blocks = []
    content = bytearray()
    wl = rng.choice([10, 10, 11, 12])
    bmax = 1 << wl
    maxblk = 0
    n = rng.choice([1, 2, 3, 5, 8]) if kind != "big" else rng.choice([12, 20, 40])
    for i in range(n):
        last = i == n - 1
        t = rng.choice(["raw", "raw", "rle", "empty", "rawbig"]) if kind != "empty" else "empty"
        if t == "raw":
            d = rng.randbytes(rng.choice([1, 2, 3, 7, 32, 100, 500]))
            blocks.append(block(0, d, last))
            content += d
            maxblk = max(maxblk, len(d))
        elif t == "rawbig":
            d = rng.randbytes(rng.choice([bmax, bmax - 1, bmax // 2 + 1]))
            blocks.append(block(0, d, last))
            content += d
            maxblk = max(maxblk, len(d))
        elif t == "rle":
            b = rng.randrange(256)
            k = rng.choice([1, 2, 100, bmax, bmax - 1, 0])
            blocks.append(block(1, bytes([b]), last, rle_len=k))
            content += bytes([b]) * k
            maxblk = max(maxblk, k)
        else:
            blocks.append(block(0, b"", last))
    ck = rng.random() < 0.4
    form = rng.choice(["nofcs", "fcs", "fcs8", "fcs4", "single", "single"])
    n_c = len(content)
    if form == "single" and maxblk <= n_c:
        hdr = frame_header(fcs=n_c, single=True, magicless=magicless, checksum=ck,
                           fcs_bytes=rng.choice([None, None, 8 if n_c < 256 else None]) if n_c < 256 else None)
    elif form == "nofcs":
        hdr = frame_header(window_log=wl, magicless=magicless, checksum=ck)
    elif form == "fcs8":
        hdr = frame_header(window_log=wl, fcs=n_c, fcs_bytes=8, magicless=magicless, checksum=ck)
    elif form == "fcs" and n_c >= 256:
        hdr = frame_header(window_log=wl, fcs=n_c, magicless=magicless, checksum=ck)
    else:
        hdr = frame_header(window_log=wl, fcs=n_c, fcs_bytes=4, magicless=magicless, checksum=ck)
        form = "fcs4"
    tail = struct.pack("<I", xxh64(bytes(content)) & 0xFFFFFFFF) if ck else b""
    return hdr + b"".join(blocks) + tail, bytes(content), "handmade-%s-%s-%dblk%s" % (kind, form, n, "-ck" if ck else "")


# ---------------------------------------------------------------------------------------------
# decoder histories

def dflags_str(d):
    if not d:
        return "-"
    out = []
    for k, v in d.items():
        out.append(k if v is True else "%s=%d" % (k, v))
    return ",".join(out)


def model_dflags(d):
    """harness flags -> model flags (wl=<log> becomes mw=<size>)"""
    out = []
    for k, v in (d or {}).items():
        if k == "wl":
            out.append("mw=%d" % (1 << v))
        elif v is True:
            out.append(k)
        else:
            out.append("%s=%d" % (k, v))
    return ",".join(out) if out else "-"


IN_TOKENS = ["0", "1", "1", "2", "3", "h", "h", "h", "h+1", "h-1", "h+3", "5", "7", "100", "1023", "1024", "1025", "a", "a"]
CAP_TOKENS = ["0", "1", "1", "2", "3", "5", "r", "r", "r", "100", "1000", "1023", "1024", "1025", "4096"]


def gen_dhistory(rng, style=None):
    style = style or rng.choice(["bytewise", "hint", "hint+1", "hint-1", "all", "tinyout", "mixed", "mixed", "mixed", "tinyboth", "allsmallout"])
    if style == "bytewise":
        return "1:r"
    if style == "hint":
        return "h:r"
    if style == "hint+1":
        return "h+1:r"
    if style == "hint-1":
        return "h-1:r;1:r"
    if style == "all":
        return "a:r"
    if style == "tinyout":
        return "a:%s" % rng.choice(["1", "2", "3", "5"])
    if style == "tinyboth":
        return ";".join("%s:%s" % (rng.choice(["1", "2", "3"]), rng.choice(["1", "2", "3", "5"])) for _ in range(rng.randint(1, 5)))
    if style == "allsmallout":
        return ";".join("a:%s" % rng.choice(["0", "1", "2", "3", "5", "r"]) for _ in range(rng.randint(2, 8)))
    ops = []
    for _ in range(rng.randint(2, 12)):
        ops.append("%s:%s" % (rng.choice(IN_TOKENS), rng.choice(CAP_TOKENS)))
    if all(o.split(":")[0] == "0" for o in ops) or all(o.split(":")[1] == "0" for o in ops):
        ops.append("h:r")
    return ";".join(ops)


def parse_drecords(s):
    """harness X records -> list of dict"""
    recs = []
    if s == "-":
        return recs
    for r in s.split(";"):
        if not r:
            continue
        v = r.split(":")
        d = dict(offered=int(v[0]), cap=int(v[1]))
        for k, x in zip(DFIELDS, v[2:]):
            d[k] = x if k == "ret" else int(x)
        recs.append(d)
    return recs


def parse_mrecords(s, fields):
    recs = []
    if s == "-":
        return recs
    for r in s.split(";"):
        if not r:
            continue
        v = r.split(":")
        d = {}
        for k, x in zip(fields, v):
            d[k] = x if k == "ret" else int(x)
        recs.append(d)
    return recs


def norm_ret(r):
    """'E<C error string>' / 'E<model name>' -> ('E', name) ; number -> int"""
    if r.startswith("E"):
        n = r[1:]
        return ("E", ERRNAMES.get(n, n))
    return int(r)


def first_diff(irecs, mrecs, fields, private=True):
    """first call where the implementation and the model disagree -> (index, field, impl value, model value) or None"""
    pub = ("consumed", "produced", "ret")
    for i, (a, b) in enumerate(zip(irecs, mrecs)):
        for f in fields:
            if f not in pub and not private:
                continue
            x, y = a.get(f), b.get(f)
            if f == "ret":
                x, y = norm_ret(x), norm_ret(y)
                if isinstance(x, tuple) and isinstance(y, tuple):
                    return None     # both fail: error classification is C09's business, the state after an error is unspecified
            if f in ("stage", "expected") and a.get("streamStage") in (0, 1) and "streamStage" in fields and fields is DFIELDS:
                continue            # dctx->stage / expected are only meaningful once a frame header was decoded
            if x != y:
                return (i, f, a.get(f), b.get(f))
        if isinstance(norm_ret(a["ret"]), tuple):
            return None
    if len(irecs) != len(mrecs):
        return (min(len(irecs), len(mrecs)), "number-of-calls", len(irecs), len(mrecs))
    return None


def frame_ends(frames_desc):
    """[(compressed size, content size)] -> list of (compressed end offset, content end offset)"""
    ends, c, o = [], 0, 0
    for cs, os_ in frames_desc:
        c += cs
        o += os_
        ends.append((c, o))
    return ends


def check_dstream_oracle(recs, out, expect_out, ends, total_in):
    """the C02 statement for one decoding history, executed on the observed calls of the real decoder.
    -> None or (call index, description of the violation)"""
    cin = cout = 0
    endset = dict(ends)
    for i, r in enumerate(recs):
        ret = norm_ret(r["ret"])
        if isinstance(ret, tuple):
            if ret[1] in ("noForwardProgress_destFull", "noForwardProgress_inputEmpty"):
                return None          # caller-induced: 16 calls without progress
            return (i, "call %d: error %s on a valid stream" % (i, ret[1]))
        cin += r["consumed"]
        cout += r["produced"]
        if out[:cout] != expect_out[:cout]:
            return (i, "call %d: streaming output is not a prefix of the one-shot output" % i)
        at_end = cin in endset and endset[cin] == cout
        if ret == 0 and not at_end:
            return (i, "call %d: returned 0 at input offset %d / output offset %d which is not a flushed frame end" % (i, cin, cout))
        if ret != 0 and at_end and (r["consumed"] > 0 or r["produced"] > 0):
            return (i, "call %d: returned %d although the frame ending at input offset %d is consumed and flushed" % (i, ret, cin))
        if r["consumed"] == 0 and r["produced"] == 0 and r["offered"] > 0 and r["cap"] > 0:
            return (i, "call %d: no progress although input (%d) and output room (%d) were offered" % (i, r["offered"], r["cap"]))
    if cin == total_in and out != expect_out:
        return (len(recs), "all input consumed but output (%d bytes) differs from the one-shot output (%d bytes)" % (len(out), len(expect_out)))
    return None


def dsignature(recs):
    """canonical shape of a decoding history: which model branches it exercised"""
    s = set()
    prev = None
    for r in recs:
        ret = norm_ret(r["ret"])
        cls = "E" if isinstance(ret, tuple) else ("0" if ret == 0 else "1" if ret == 1 else "h")
        feat = (r["streamStage"], r["stage"], cls, r["hostage"], min(r["lhSize"], 1) if r["streamStage"] == 1 else 0,
                r["inPos"] > 0, r["consumed"] == 0, r["produced"] == 0, r["consumed"] < r["offered"],
                prev is not None and r["outStart"] < prev)
        s.add(feat)
        prev = r["outStart"]
    return tuple(sorted(s))


def frame_block_max(frame, magicless):
    """blockSizeMax announced by the header of a Zstandard frame (min(window, 128 KiB))"""
    p = 0 if magicless else 4
    fhd = frame[p]
    single = (fhd >> 5) & 1
    if single:
        q = p + 1 + [0, 1, 2, 4][fhd & 3]
        nb = [1, 2, 4, 8][fhd >> 6]
        w = int.from_bytes(frame[q:q + nb], "little") + (256 if nb == 2 else 0)
    else:
        wd = frame[p + 1]
        w = (1 << (10 + (wd >> 3)))
        w += (w >> 3) * (wd & 7)
    return min(w, 131072)
