"""C16 - parameter interface contract: bounds, stickiness, reset, stage rules.

proof      : coq/Props/Properties_C16.v over coq/Params/{BoundsModel,ParamModel,CParamsAdjust}.v and the tables
             regenerated from the current /repo (coq/Gen/Gen_Bounds.v, Gen_Levels.v)
tie (C)    : harness/c16_params.c (+ c16_dint.c) linked against libzstd rebuilt from the working tree executes
             scripts of API calls; ml/c16_driver.ml runs the extracted model on the same scripts; line-by-line diff
oracle     : the property statement itself evaluated on the outputs of the real code (python, below)
"""
import concurrent.futures
import json
import os
import random
import re

from .. import core
from . import c16_session as S2

INT_MIN, INT_MAX = -2 ** 31, 2 ** 31 - 1
HARNESS_SRC = ["c16_params.c", "c16_dint.c", "c16_mtint.c"]

# ---- documentation-derived tables used by the direct oracle (zstd.h) ----
ZERO_DEFAULT = {"windowLog", "hashLog", "chainLog", "searchLog", "minMatch", "strategy", "ldmHashLog", "ldmMinMatch",
                "ldmBucketSizeLog", "ldmHashRateLog", "targetCBlockSize", "srcSizeHint", "maxBlockSize"}
AUTHORIZED = {"compressionLevel", "hashLog", "chainLog", "searchLog", "minMatch", "targetLength", "strategy"}
DOC_DEFAULT_ONE = {"contentSizeFlag", "dictIDFlag"}


def gen_consts():
    txt = open(os.path.join(core.COQ, "Gen", "Gen_Bounds.v")).read()
    return {m.group(1): int(m.group(2)) for m in re.finditer(r"Definition z_(\w+) : Z := \((-?\d+)\)%Z\.", txt)}


class Env:
    """ids / names / real bounds of the current tree."""

    def __init__(self, ml_exe, c_exe):
        self.ml, self.cx = ml_exe, c_exe
        self.k = gen_consts()
        rc, out, err = core.sh([ml_exe], inp=b"ids\n", timeout=60)
        if rc != 0:
            raise RuntimeError("model driver failed: " + err[-500:])
        l = out.strip().split("\n")
        self.cids = [int(x) for x in l[0].split()[1:]]
        self.dids = [int(x) for x in l[1].split()[1:]]
        self.header = "cids %s\ndids %s\n" % (" ".join(map(str, self.cids)), " ".join(map(str, self.dids)))
        self.cname = {v: n[len("ZSTD_c_"):] for n, v in self.k.items() if n.startswith("ZSTD_c_")}
        self.dname = {v: n[len("ZSTD_d_"):] for n, v in self.k.items() if n.startswith("ZSTD_d_")}
        self.cid = {n: i for i, n in self.cname.items()}
        self.did = {n: i for i, n in self.dname.items()}
        # advertised bounds, asked from the real library
        q = "".join("cbounds %d\n" % i for i in self.cids) + "".join("dbounds %d\n" % i for i in self.dids)
        rc, out, err = core.sh([c_exe], inp=(self.header + q).encode(), timeout=60)
        if rc != 0:
            raise RuntimeError("harness failed: " + err[-500:])
        ls = out.strip().split("\n")
        self.cb, self.db = {}, {}
        for i, ln in zip(self.cids + self.dids, ls):
            t = ln.split()
            (self.cb if len(self.cb) < len(self.cids) else self.db)[i] = (int(t[1]), int(t[2])) if t[0] == "ok" else None
        self.level_default = self.k["ZSTD_CLEVEL_DEFAULT"]
        self.jobmin = self.k["ZSTDMT_JOBSIZE_MIN"]
        self.wl_default_d = self.k["ZSTD_WINDOWLOG_LIMIT_DEFAULT"]

    def cdefault(self, name):
        return self.level_default if name == "compressionLevel" else (1 if name in DOC_DEFAULT_ONE else 0)

    def cnorm(self, name, v):
        if name == "compressionLevel":
            return self.level_default if v == 0 else v
        if name == "jobSize":
            return self.jobmin if (v != 0 and v < self.jobmin) else v
        return v


# --------------------------------------------------------------------------- running scripts

def run_cases(env, cases):
    """cases: list of lists of op strings.  Returns (real_lines, model_lines) per case (flat lists split back)."""
    script = []
    for c in cases:
        script.extend(c)
    rc, out, err = core.sh([env.cx], inp=(env.header + "\n".join(script) + "\n").encode(), timeout=900)
    real = out.split("\n")
    if real and real[-1] == "":
        real.pop()
    crashed = rc != 0 or len(real) != len(script)
    if crashed:
        return None, None, "harness rc=%d, %d/%d result lines; stderr: %s" % (rc, len(real), len(script), err[-400:])
    mscript = []
    for opl, rl in zip(script, real):
        if rl == "skip":
            mscript.append("skip")
        else:
            mscript.append(model_op(opl))
    rc, out, err = core.sh([env.ml], inp=("\n".join(mscript) + "\n").encode(), timeout=900)
    model = out.split("\n")
    if model and model[-1] == "":
        model.pop()
    if rc != 0 or len(model) != len(script):
        return None, None, "model driver rc=%d, %d/%d lines: %s" % (rc, len(model), len(script), err[-400:])
    res_r, res_m, i = [], [], 0
    for c in cases:
        res_r.append(real[i:i + len(c)])
        res_m.append(model[i:i + len(c)])
        i += len(c)
    return res_r, res_m, None


def tobin(tok):
    """numbers beyond 60 bits travel in binary (the OCaml driver works on Coq's Z, its parser on native ints)"""
    try:
        v = int(tok)
    except ValueError:
        return tok
    return ("b" + bin(v)[2:]) if v >= (1 << 60) else tok


def model_op(opl):
    t = opl.split()
    if t[0] == "cpl":
        return "cpl %s %s" % (t[1], tobin(t[2]))
    if t[0] in ("cinitsrc", "cinitcdictadv", "cinitadv", "cresetcs"):     # the pledged size is the last argument
        return " ".join(t[:-1] + [tobin(t[-1])])
    if t[0] in ("cover", "fixture", "dfxb"):      # direct rules without a model (dfxb: buffer-less decoding leaves what the model tracks alone)
        return "nop"
    return opl


def canon(opl, real_line, model_line=""):
    """what of the real line is compared with the model."""
    t = opl.split()
    r = real_line.split()
    m = model_line.split()
    if not r:
        return real_line
    if t[0] == "cfxwin" and r[0] == "ok":
        return " ".join(r[:5])
    if t[0] in ("dfx", "dfxb", "cover", "fixture"):
        return "ok"
    if r[0] == "err":
        return "err"
    if r == ["ok", "none"]:
        return "ok"
    if t[0] == "cuse" and len(r) == 4 and len(m) == 4:
        # the model names the dictionary / prefix the frame was compressed with; the harness tried all five candidates
        use, mask = int(m[3]), int(r[3])
        return " ".join(r[:3] + [m[3] if (mask >> use) & 1 else "does-not-decode-with-%d(mask=%d)" % (use, mask)])
    if t[0] == "cavec" and len(r) == len(m):
        return " ".join(a if b != "?" else "?" for a, b in zip(r, m))      # `?`: a cell the model leaves open (frames using a CDict)
    if t[0] == "cxvec":
        return " ".join(tobin(x) for x in r)
    return real_line


# --------------------------------------------------------------------------- the direct oracle

class Oracle:
    """Evaluates the property statement on the outputs of the real library for one case."""

    def __init__(self, env):
        self.e = env
        self.nc = len(env.cids)
        self.s2 = S2.SessionOracle(env)

    def cvec_ok(self, vec, skip_level, raw_flags=False):
        """every stored value within the advertised bounds or the documented 0."""
        for i, v in zip(self.e.cids, vec[:self.nc]):
            n = self.e.cname[i]
            b = self.e.cb[i]
            if v == "E" or b is None:
                return "get(%s) fails" % n
            if n == "compressionLevel" and skip_level:
                continue
            if n in ("contentSizeFlag", "checksumFlag") and raw_flags:
                continue    # ZSTD_CCtxParams_init_advanced stores the struct's flags as given: outside the property (like init(level))
            v = int(v)
            if not (b[0] <= v <= b[1] or (v == 0 and n in ZERO_DEFAULT)):
                return "%s holds %d outside its bounds [%d,%d]" % (n, v, b[0], b[1])
        return None

    def check(self, ops, real):
        """returns a list of violated statements (strings) for this case."""
        e, bad = self.e, []
        last = {}
        pinit = any(o.startswith("pinit") for o in ops)
        raw_flags = any(o.startswith("pinitadv") and any(x not in ("0", "1") for x in o.split()[8:11]) for o in ops)
        new_dict_calls = any(o.split()[0] in ("dload", "drefprefix", "ddec", "ddec1", "ddecm", "ddecu") or
                             (o.split()[0] == "drefddict" and o.split()[2] == "2") for o in ops)
        pend = []   # (index, key) probes waiting for the next vector of their object
        fresh = set()
        for i, (o, r) in enumerate(zip(ops, real)):
            t, rr = o.split(), r.split()
            if r == "skip" or not rr:
                continue
            k0 = t[0]
            if k0 == "new":
                last = {}
                fresh = {"c0", "c1", "p", "d0", "d1"}
                continue
            key = None
            if k0[0] == "c" and k0 != "cbounds":
                key = "c" + t[1]
            elif k0[0] == "p":
                key = "p"
            elif k0[0] == "d" and k0 != "dbounds":
                key = "d" + t[1]
            if k0 in ("cvec", "pvec", "dvec"):
                vec = rr[1:]
                if k0 != "dvec":
                    m = self.cvec_ok(vec, pinit, raw_flags)
                    if m:
                        bad.append("op %d (%s): %s" % (i, o, m))
                else:
                    m = self.dvec_ok(vec)
                    if m:
                        bad.append("op %d (%s): %s" % (i, o, m))
                if "E" in vec:
                    # a getter of a listed parameter fails: already recorded above; nothing else can be judged on this vector
                    pend = [p for p in pend if p[1] != key]
                    fresh.discard(key)
                    last[key] = None
                    continue
                if key in fresh:
                    fresh.discard(key)
                    if k0 != "dvec":
                        want = [str(e.cdefault(e.cname[ii])) for ii in e.cids] + (["0", "0"] if k0 == "cvec" else [])
                    else:
                        want = [str(e.wl_default_d if e.dname[ii] == "windowLogMax" else 0) for ii in e.dids] + [str((1 << e.wl_default_d) + 1), "0", "0"]
                    if vec != want:
                        bad.append("op %d (%s): a freshly created object does not hold the documented defaults" % (i, o))
                for (j, kk) in [p for p in pend if p[1] == key]:
                    m = self.judge(ops[j], real[j], last.get(key), vec, last, new_dict_calls)
                    if m:
                        bad.append("op %d (%s -> %s): %s" % (j, ops[j], real[j], m))
                pend = [p for p in pend if p[1] != key]
                last[key] = vec
            elif k0 in ("cget", "pget", "dget"):
                ids = e.cids if k0 != "dget" else e.dids
                idv = int(t[-1])
                if idv in ids:
                    if rr[0] != "ok":
                        bad.append("op %d (%s): get of a known parameter fails" % (i, o))
                    else:
                        pend.append((i, key))     # compared with the next vector of the object
                elif rr[0] != "unsup":
                    bad.append("op %d (%s): get of an unknown parameter does not fail with parameter_unsupported" % (i, o))
            elif key is not None:
                fresh.discard(key)
                pend.append((i, key))
        return bad + self.s2.check(ops, real)

    def dvec_ok(self, vec):
        e = self.e
        for i, v in zip(e.dids, vec[:len(e.dids)]):
            n, b = e.dname[i], e.db[i]
            if v == "E" or b is None:
                return "get(%s) fails" % n
            v = int(v)
            if not (b[0] <= v <= b[1] or (v == 0 and n == "maxBlockSize")):
                return "%s holds %d outside its bounds [%d,%d]" % (n, v, b[0], b[1])
        return None

    def judge(self, o, r, pre, post, last, new_dict_calls=False):
        """one call between two vectors of its object."""
        e = self.e
        t, rr = o.split(), r.split()
        k0, cls = t[0], rr[0]
        nc = self.nc
        if k0 in ("cget", "pget", "dget"):
            ids = e.cids if k0 != "dget" else e.dids
            want = post[ids.index(int(t[-1]))]
            return None if want == rr[1] else "get returns %s, the get-vector says %s" % (rr[1], want)
        if pre is None:
            return None
        if k0[0] == "c":
            ppar, pstage, pdict = pre[:nc], pre[nc], pre[nc + 1]
            qpar, qstage, qdict = post[:nc], post[nc], post[nc + 1]
            mid = pstage == "1"
            if k0 == "cset":
                idv, v = int(t[2]), int(t[3])
                known = idv in e.cids
                name = e.cname.get(idv)
                if cls != "ok":
                    if post != pre:
                        return "a refused set changed the context"
                else:
                    if not known:
                        return "set of an unknown parameter succeeds"
                    ix = e.cids.index(idv)
                    if [x for j, x in enumerate(qpar) if j != ix] != [x for j, x in enumerate(ppar) if j != ix] or (qstage, qdict) != (pstage, pdict):
                        return "an accepted set changed something else than its parameter"
                    b = e.cb[idv]
                    nv = int(qpar[ix])
                    if b[0] <= v <= b[1]:
                        if nv != e.cnorm(name, v):
                            return "in-bounds value %d reads back %d (documented %d)" % (v, nv, e.cnorm(name, v))
                    elif not (b[0] <= nv <= b[1] or (v == 0 and nv == 0 and name in ZERO_DEFAULT)):
                        return "out-of-bounds value %d accepted and stored as %d outside [%d,%d]" % (v, nv, b[0], b[1])
                if mid:
                    if known and name in AUTHORIZED:
                        if cls == "stage":
                            return "authorised parameter refused mid-frame"
                    elif cls != "stage":
                        return "parameter settable mid-frame although not authorised (class %s)" % cls
                else:
                    if cls == "stage":
                        return "stage_wrong in the init stage"
                    if not known and cls != "unsup":
                        return "unknown parameter: class %s instead of parameter_unsupported" % cls
                    if known:
                        b = e.cb[idv]
                        static_nbw = t[1] == "1" and name == "nbWorkers" and v != 0
                        if b[0] <= v <= b[1] and not static_nbw and cls != "ok":
                            return "in-bounds value refused in the init stage (class %s)" % cls
                return None
            if k0 == "creset":
                d = int(t[2])
                if d in (2, 3):
                    if mid and d == 2:
                        if cls != "stage" or post != pre:
                            return "parameter reset mid-frame not refused / changed something"
                    else:
                        if cls != "ok":
                            return "reset refused"
                        want = [str(e.cdefault(e.cname[i])) for i in e.cids]
                        if qpar != want or qstage != "0" or qdict != "0":
                            return "after a parameter reset the context is not at its documented defaults"
                elif d == 1:
                    if cls != "ok" or qpar != ppar or qstage != "0" or qdict != pdict:
                        return "session reset changed parameters / dictionary or kept the stage"
                elif cls != "ok" or post != pre:
                    return "unknown reset directive changed something"
                return None
            if k0 in ("cbegin", "cend", "cframe", "cfail", "cbad", "csimple", "cfxwin"):
                if qpar != ppar:
                    return "parameters changed by a compression call (not sticky)"
                if k0 in ("cframe", "cend", "cfxwin") and cls == "ok":
                    ck, fm = ppar[e.cids.index(e.cid["checksumFlag"])], ppar[e.cids.index(e.cid["format"])]
                    ck = "0" if ck == "0" else "1"       # a flag: any non-zero value announces (and appends) a checksum
                    if rr[1] != ck or rr[4] != fm:
                        return "frame header (checksum %s, magicless %s) does not reflect the parameters (%s, %s)" % (rr[1], rr[4], ck, fm)
                    if k0 != "cend" and rr[2] != ("0" if ppar[e.cids.index(e.cid["contentSizeFlag"])] == "0" else "1"):
                        return "content size flag not in force"
                    if k0 == "cfxwin" and pdict == "0":
                        w = int(ppar[e.cids.index(e.cid["windowLog"])])
                        if 10 <= w <= 12 and int(rr[5]) != (1 << w):
                            return "windowLog %d not in force: frame window %s" % (w, rr[5])
                if k0 == "csimple" and cls == "ok" and rr[1:5] != ["0", "1", "0", "0"]:
                    return "simple API frame header %s is affected by advanced parameters" % rr[1:5]
                if k0 == "csimple" and cls == "ok" and (qstage != "0" or qdict != pdict):
                    return "simple API changed the dictionary / left a streaming session open (stage %s, dictionary %s -> %s)" % (qstage, pdict, qdict)
                return None
            if k0 in ("cload", "crefcdict", "crefprefix", "capply"):
                if mid and (cls != "stage" or post != pre):
                    return "dictionary / parameter-set call mid-frame not refused"
                if k0 != "capply" and qpar != ppar:
                    return "dictionary call changed parameters"
                if k0 == "capply" and cls == "ok" and last.get("p") is not None and qpar != last["p"][:nc]:
                    return "applied parameters differ from the CCtxParams object"
                if k0 == "capply" and cls != "ok" and post != pre:
                    return "refused apply changed the context"
                return None
            return None
        if k0[0] == "p":
            if k0 == "pset":
                idv, v = int(t[1]), int(t[2])
                known, name = idv in e.cids, e.cname.get(idv)
                if cls != "ok":
                    if post != pre:
                        return "a refused set changed the parameter object"
                    if not known and cls != "unsup":
                        return "unknown parameter: class %s" % cls
                    if known and e.cb[idv][0] <= v <= e.cb[idv][1]:
                        return "in-bounds value refused (class %s)" % cls
                else:
                    if not known:
                        return "set of an unknown parameter succeeds"
                    ix = e.cids.index(idv)
                    if [x for j, x in enumerate(post) if j != ix] != [x for j, x in enumerate(pre) if j != ix]:
                        return "an accepted set changed another parameter"
                    b, nv = e.cb[idv], int(post[ix])
                    if b[0] <= v <= b[1]:
                        if nv != e.cnorm(name, v):
                            return "in-bounds value %d reads back %d" % (v, nv)
                    elif not (b[0] <= nv <= b[1] or (v == 0 and nv == 0 and name in ZERO_DEFAULT)):
                        return "out-of-bounds value %d stored as %d" % (v, nv)
            elif k0 in ("preset", "pinit"):
                want = [str(e.cdefault(e.cname[i])) for i in e.cids]
                if k0 == "pinit":
                    want[e.cids.index(e.cid["compressionLevel"])] = t[1]
                if cls != "ok" or post != want:
                    return "parameter object not at its documented defaults after reset/init"
            return None
        if k0[0] == "d":
            nd = len(e.dids)
            ppar, pmw, pstage, pdict = pre[:nd], pre[nd], pre[nd + 1], pre[nd + 2]
            qpar, qmw, qstage, qdict = post[:nd], post[nd], post[nd + 1], post[nd + 2]
            mid = pstage == "1"
            if k0 in ("dset", "dmaxwin", "drefddict"):
                if mid:
                    if cls != "stage" or post != pre:
                        return "setter not refused while a frame is being decoded"
                    return None
                if cls == "stage":
                    return "stage_wrong in the init stage"
                if cls != "ok":
                    if post != pre:
                        return "a refused call changed the context"
                if k0 == "dset":
                    idv, v = int(t[2]), int(t[3])
                    known, name = idv in e.dids, e.dname.get(idv)
                    if not known:
                        return None if cls == "unsup" else "unknown parameter: class %s" % cls
                    b = e.db[idv]
                    static_rm = t[1] == "1" and name == "refMultipleDDicts"
                    ix = e.dids.index(idv)
                    if cls == "ok":
                        if [x for j, x in enumerate(qpar) if j != ix] != [x for j, x in enumerate(ppar) if j != ix] or (qstage, qdict) != (pstage, pdict):
                            return "an accepted set changed something else"
                        nv = int(qpar[ix])
                        if b[0] <= v <= b[1]:
                            if nv != v:
                                return "in-bounds value %d reads back %d" % (v, nv)
                        elif not (v == 0 and ((name == "windowLogMax" and nv == e.wl_default_d) or (name == "maxBlockSize" and nv == 0))):
                            return "out-of-bounds value %d accepted (reads back %d)" % (v, nv)
                    elif b[0] <= v <= b[1] and not static_rm:
                        return "in-bounds value refused (class %s)" % cls
                if k0 == "dmaxwin":
                    s = int(t[2])
                    b = e.db[e.did["windowLogMax"]]
                    inb = (1 << b[0]) <= s <= (1 << b[1])
                    if inb != (cls == "ok"):
                        return "setMaxWindowSize(%d): class %s" % (s, cls)
                    if cls == "ok" and int(qmw) != s:
                        return "setMaxWindowSize(%d) stored %s" % (s, qmw)
                return None
            if k0 == "dreset":
                d = int(t[2])
                if d in (2, 3):
                    if mid and d == 2:
                        if cls != "stage" or post != pre:
                            return "parameter reset mid-frame not refused"
                    else:
                        want = [str(e.wl_default_d if e.dname[i] == "windowLogMax" else 0) for i in e.dids]
                        if cls != "ok" or qpar != want or qstage != "0" or qdict != "0" or int(qmw) != (1 << e.wl_default_d) + 1:
                            return "after a parameter reset the decompression context is not at its documented defaults"
                elif d == 1:
                    if cls != "ok" or qpar != ppar or qmw != pmw or qstage != "0" or qdict != pdict:
                        return "session reset changed parameters"
                elif cls != "ok" or post != pre:
                    return "unknown reset directive changed something"
                return None
            if k0 in ("dbegin", "dend", "dbad", "dbadcall", "dframe", "dfx", "dfxb"):
                if qpar != ppar or qmw != pmw or (qdict != pdict and not new_dict_calls):   # round 2: a prefix is consumed by a frame
                    return "parameters changed by a decompression call (not sticky)"
                if k0 == "dfx":
                    fmt = int(ppar[e.dids.index(e.did["format"])])
                    mbs = int(ppar[e.dids.index(e.did["maxBlockSize"])])
                    ign = int(ppar[e.dids.index(e.did["forceIgnoreChecksum"])])
                    k, mw = int(t[2]) % 5, int(pmw)
                    exp = None
                    if k == 0:
                        exp = fmt == 0
                    elif k == 1:
                        exp = fmt == 1
                    elif k == 2:      # round 3: ZSTD_d_maxBlockSize below the 4096-byte first block refuses the frame on every path
                        exp = fmt == 0 and mw >= 4096 and (mbs == 0 or mbs >= 4096)
                    elif k == 3:
                        exp = fmt == 0 and ign == 1
                    elif k == 4:
                        exp = None if new_dict_calls else (fmt == 0 and pdict == "1")   # which dictionary: judged by the round-2 rules
                    if exp is not None and exp != (cls == "ok"):
                        return "decoder-side effect: frame %d %s although format=%d maxWindow=%d ignoreChecksum=%d dict=%s" % (
                            k, "decoded" if cls == "ok" else "refused", fmt, mw, ign, pdict)
                if k0 == "dfxb":      # buffer-less decoding: same parameters in force, except the window limit (the caller's job there) and dictionaries (none given)
                    fmt = int(ppar[e.dids.index(e.did["format"])])
                    mbs = int(ppar[e.dids.index(e.did["maxBlockSize"])])
                    ign = int(ppar[e.dids.index(e.did["forceIgnoreChecksum"])])
                    k = int(t[2]) % 5
                    exp = {0: fmt == 0, 1: fmt == 1, 2: fmt == 0 and (mbs == 0 or mbs >= 4096), 3: fmt == 0 and ign == 1, 4: False}[k]
                    if exp != (cls == "ok"):
                        return "decoder-side effect (buffer-less decoding): frame %d %s although format=%d maxBlockSize=%d ignoreChecksum=%d" % (
                            k, "decoded" if cls == "ok" else "refused", fmt, mbs, ign)
                return None
        return None


# --------------------------------------------------------------------------- generators

def clip(v):
    return max(INT_MIN, min(INT_MAX, v))


def boundary_values(rng, lo, hi, default, nrandom):
    s = [lo - 1, lo, lo + 1, 0, default, hi - 1, hi, hi + 1, INT_MIN, INT_MAX, 1, -1, 2]
    for _ in range(nrandom):
        c = rng.random()
        if c < 0.4:
            s.append(rng.randint(lo, hi))
        elif c < 0.7:
            s.append(rng.randint(lo - 40, hi + 40))
        else:
            s.append(rng.randint(INT_MIN, INT_MAX))
    out, seen = [], set()
    for v in s:
        v = clip(v)
        if v not in seen:
            seen.add(v)
            out.append(v)
    return out


def vclass(v, lo, hi):
    if v == 0:
        return "zero"
    if v in (INT_MIN, INT_MAX):
        return "extreme"
    if v < lo:
        return "lo-1" if v == lo - 1 else "below"
    if v > hi:
        return "hi+1" if v == hi + 1 else "above"
    if v == lo:
        return "lo"
    if v == hi:
        return "hi"
    return "inside"


def cheap_value(rng, name, static):
    r = rng.randint
    return {
        "compressionLevel": rng.choice([-5, -1, 1, 2, 3]), "windowLog": r(10, 14), "hashLog": r(6, 12), "chainLog": r(6, 12),
        "searchLog": r(1, 5), "minMatch": r(3, 7), "targetLength": r(0, 64), "strategy": r(1, 9),
        "targetCBlockSize": rng.choice([0, r(1340, 5000)]), "enableLongDistanceMatching": r(0, 2), "ldmHashLog": r(6, 12),
        "ldmMinMatch": r(4, 64), "ldmBucketSizeLog": r(1, 4), "ldmHashRateLog": r(0, 7), "contentSizeFlag": r(0, 1),
        "checksumFlag": r(0, 1), "dictIDFlag": r(0, 1), "nbWorkers": 0 if (static or rng.random() < 0.85) else r(1, 2),
        "jobSize": rng.choice([0, 0, 524288, 1 << 20]), "overlapLog": r(0, 9), "rsyncable": r(0, 1), "format": r(0, 1),
        "forceMaxWindow": r(0, 1), "forceAttachDict": r(0, 3), "literalCompressionMode": r(0, 2), "srcSizeHint": r(0, 100000),
        "enableDedicatedDictSearch": r(0, 1), "stableInBuffer": 1 if rng.random() < 0.08 else 0,
        "stableOutBuffer": 1 if rng.random() < 0.08 else 0, "blockDelimiters": r(0, 1), "validateSequences": r(0, 1),
        "useBlockSplitter": r(0, 2), "useRowMatchFinder": r(0, 2), "deterministicRefPrefix": r(0, 1), "prefetchCDictTables": r(0, 2),
        "enableSeqProducerFallback": r(0, 1), "maxBlockSize": rng.choice([0, r(1024, 131072)]), "searchForExternalRepcodes": r(0, 2),
    }.get(name, 0)


def dirty_c(rng, env, o, frac=0.6):
    ops = []
    ids = list(env.cids)
    rng.shuffle(ids)
    for i in ids:
        if rng.random() < frac:
            ops.append("cset %d %d %d" % (o, i, cheap_value(rng, env.cname[i], o == 1)))
    if rng.random() < 0.5:
        ops.append(rng.choice(["cload %d 1", "crefcdict %d 1", "crefprefix %d 1"]) % o)
    return ops


def dirty_d(rng, env, o):
    ops = []
    vals = {"windowLogMax": rng.randint(10, 31), "format": rng.randint(0, 1), "stableOutBuffer": 0, "forceIgnoreChecksum": rng.randint(0, 1),
            "refMultipleDDicts": 0 if o == 1 else rng.randint(0, 1), "disableHuffmanAssembly": rng.randint(0, 1),
            "maxBlockSize": rng.choice([0, rng.randint(1024, 131072)])}
    for i in env.dids:
        if rng.random() < 0.6:
            ops.append("dset %d %d %d" % (o, i, vals[env.dname[i]]))
    if rng.random() < 0.3:
        ops.append("dmaxwin %d %d" % (o, rng.choice([1024, 5000, 1 << 20, (1 << 27) + 1, 1 << 31])))
    if rng.random() < 0.4:
        ops.append("drefddict %d 1" % o)
    return ops


C_STAGES = {
    "fresh": lambda o: None,
    "dirty": lambda o: [],
    "mid": lambda o: ["cbegin %d" % o],
    "after-failed-compress2": lambda o: ["cfail %d" % o],
    "after-bad-call": lambda o: ["cbad %d" % o],
    "after-frame-stream": lambda o: ["cbegin %d" % o, "cend %d" % o],
    "after-frame-oneshot": lambda o: ["cframe %d" % o],
    "mid+reset-session": lambda o: ["cbegin %d" % o, "creset %d 1" % o],
    "reset-parameters": lambda o: ["creset %d 2" % o],
    "mid+reset-all": lambda o: ["cbegin %d" % o, "creset %d 3" % o],
    "mid+reset-parameters-refused": lambda o: ["cbegin %d" % o, "creset %d 2" % o],
    "after-simple-api": lambda o: ["csimple %d" % o],
}
D_STAGES = {
    "fresh": lambda o: None,
    "dirty": lambda o: [],
    "mid": lambda o: ["dbegin %d" % o],
    "after-error": lambda o: ["dbad %d" % o],
    "after-bad-call": lambda o: ["dbadcall %d" % o],
    "after-frame-stream": lambda o: ["dbegin %d" % o, "dend %d" % o],
    "after-frame": lambda o: ["dframe %d" % o],
    "mid+reset-session": lambda o: ["dbegin %d" % o, "dreset %d 1" % o],
    "reset-parameters": lambda o: ["dreset %d 2" % o],
    "mid+reset-all": lambda o: ["dbegin %d" % o, "dreset %d 3" % o],
    "mid+reset-parameters-refused": lambda o: ["dbegin %d" % o, "dreset %d 2" % o],
}


def unknown_ids(known):
    cand = [0, 1, 9, 11, 99, 108, 129, 131, 165, 203, 399, 403, 501, 999, 1003, 1017, 2000, -1, INT_MAX, INT_MIN]
    return [c for c in cand if c not in known]


def gen_grid(rng, env, tier):
    """exhaustive grid: objects x stages x parameter ids (+ unknown) x boundary values; each cell is one case."""
    cases = []     # (ops, signature, probe index)
    nrand = 2 if tier == "quick" else 64
    # --- CCtx (dynamic and static)
    for o in (0, 1):
        for sname, sfun in C_STAGES.items():
            if tier == "quick" and o == 1 and sname not in ("fresh", "dirty", "mid", "after-failed-compress2", "reset-parameters", "mid+reset-all"):
                continue
            for idv in env.cids + unknown_ids(env.cids)[:(6 if tier == "quick" else 20)]:
                b = env.cb.get(idv) or (0, 1)
                name = env.cname.get(idv, "unknown")
                vals = boundary_values(rng, b[0], b[1], env.cdefault(name), nrand) if idv in env.cids else [0, 1, INT_MIN, INT_MAX]
                # several values per case would hide "the first one already broke it": one case per value, but
                # share the (expensive) setup by chaining probes is NOT done - cases are independent
                for v in vals:
                    setup = sfun(o)
                    ops = ["new"]
                    if setup is not None:
                        ops += dirty_c(rng, env, o) + setup
                    ops += ["cvec %d" % o, "cset %d %d %d" % (o, idv, v), "cget %d %d" % (o, idv), "cvec %d" % o]
                    cases.append((ops, ("C", o, sname, name, vclass(v, b[0], b[1]))))
            # reset directives, dictionary calls, apply, frames as probes
            for probe in (["creset %d %d" % (o, d) for d in (0, 1, 2, 3, 4, -1)]
                          + ["cload %d 1" % o, "cload %d 0" % o, "crefcdict %d 1" % o, "crefcdict %d 0" % o, "crefprefix %d 1" % o,
                             "crefprefix %d 0" % o, "capply %d" % o, "cframe %d" % o, "cbegin %d" % o, "cend %d" % o, "cfail %d" % o,
                             "cbad %d" % o, "csimple %d" % o, "cfxwin %d" % o]):
                setup = sfun(o)
                ops = ["new"]
                if setup is not None:
                    ops += dirty_c(rng, env, o) + setup
                if probe.startswith("capply"):
                    ops += ["pset %d %d" % (i, cheap_value(rng, env.cname[i], o == 1)) for i in env.cids if rng.random() < 0.5] + ["pvec"]
                ops += ["cvec %d" % o, probe, "cvec %d" % o]
                cases.append((ops, ("C", o, sname, probe.split()[0] + (probe.split()[2] if probe.startswith("creset") else ""), "-")))
    # --- CCtxParams
    for dirty in (False, True):
        for idv in env.cids + unknown_ids(env.cids)[:8]:
            b = env.cb.get(idv) or (0, 1)
            name = env.cname.get(idv, "unknown")
            vals = boundary_values(rng, b[0], b[1], env.cdefault(name), nrand) if idv in env.cids else [0, 1, INT_MIN, INT_MAX]
            for v in vals:
                ops = ["new"]
                if dirty:
                    ops += ["pset %d %d" % (i, cheap_value(rng, env.cname[i], False)) for i in env.cids if rng.random() < 0.6]
                ops += ["pvec", "pset %d %d" % (idv, v), "pget %d" % idv, "pvec"]
                cases.append((ops, ("P", dirty, name, vclass(v, b[0], b[1]))))
        for probe in ["preset"] + ["pinit %d" % l for l in (0, 3, 22, 23, -131072, -131073, 1000, INT_MIN, INT_MAX)]:
            ops = ["new"]
            if dirty:
                ops += ["pset %d %d" % (i, cheap_value(rng, env.cname[i], False)) for i in env.cids if rng.random() < 0.6]
            ops += ["pvec", probe, "pvec"]
            cases.append((ops, ("P", dirty, probe.split()[0], "-")))
    # --- DCtx
    sizes = [0, 1, 1023, 1024, 1025, 5000, 1 << 27, (1 << 27) + 1, (1 << 31) - 1, 1 << 31, (1 << 31) + 1, 1 << 32, (1 << 32) + 5, 1 << 40,
             (1 << 62) - 1]
    for o in (0, 1):
        for sname, sfun in D_STAGES.items():
            for idv in env.dids + unknown_ids(env.dids)[:(6 if tier == "quick" else 20)]:
                b = env.db.get(idv) or (0, 1)
                name = env.dname.get(idv, "unknown")
                dflt = env.wl_default_d if name == "windowLogMax" else 0
                vals = boundary_values(rng, b[0], b[1], dflt, nrand * 2) if idv in env.dids else [0, 1, INT_MIN, INT_MAX]
                for v in vals:
                    setup = sfun(o)
                    ops = ["new"]
                    if setup is not None:
                        ops += dirty_d(rng, env, o) + setup
                    ops += ["dvec %d" % o, "dset %d %d %d" % (o, idv, v), "dget %d %d" % (o, idv), "dvec %d" % o]
                    cases.append((ops, ("D", o, sname, name, vclass(v, b[0], b[1]))))
            for probe in (["dreset %d %d" % (o, d) for d in (0, 1, 2, 3, 4, -1)] + ["dmaxwin %d %d" % (o, s) for s in sizes]
                          + ["drefddict %d 1" % o, "drefddict %d 0" % o, "dbegin %d" % o, "dbad %d" % o, "dbadcall %d" % o, "dframe %d" % o]
                          + ["dfx %d %d" % (o, k) for k in range(5)]):
                setup = sfun(o)
                ops = ["new"]
                if setup is not None:
                    ops += dirty_d(rng, env, o) + setup
                ops += ["dvec %d" % o, probe, "dvec %d" % o]
                pt = probe.split()
                cases.append((ops, ("D", o, sname, pt[0] + (pt[2] if pt[0] in ("dreset", "dfx") else ""), "-")))
    return cases


def rand_value(rng, lo, hi):
    c = rng.random()
    if c < 0.45:
        return rng.randint(lo, hi)
    if c < 0.75:
        return rng.choice([lo - 1, lo, lo + 1, 0, hi - 1, hi, hi + 1, 1, -1])
    if c < 0.9:
        return rng.randint(lo - 100, hi + 100)
    return rng.choice([INT_MIN, INT_MAX, rng.randint(INT_MIN, INT_MAX)])


def gen_history(rng, env, n):
    """random history of n calls over all five objects; every call is followed by the vector of its object."""
    ops = ["new", "cvec 0", "cvec 1", "pvec", "dvec 0", "dvec 1"]
    sig = []
    for _ in range(n):
        c = rng.random()
        if c < 0.55:
            o = rng.randint(0, 1)
            k = rng.random()
            if k < 0.45:
                idv = rng.choice(env.cids) if rng.random() < 0.93 else rng.choice(unknown_ids(env.cids))
                b = env.cb.get(idv) or (0, 1)
                v = cheap_value(rng, env.cname.get(idv, ""), o == 1) if rng.random() < 0.5 else clip(rand_value(rng, b[0], b[1]))
                op = "cset %d %d %d" % (o, idv, v)
            elif k < 0.5:
                op = "cget %d %d" % (o, rng.choice(env.cids + unknown_ids(env.cids)[:3]))
            elif k < 0.6:
                op = "creset %d %d" % (o, rng.choice([1, 1, 2, 3, 0, 4]))
            elif k < 0.9:
                op = rng.choice(["cbegin", "cbegin", "cend", "cend", "cframe", "cframe", "cfail", "cbad", "csimple", "cfxwin"]) + " %d" % o
            elif k < 0.97:
                op = rng.choice(["cload", "crefcdict", "crefprefix"]) + " %d %d" % (o, rng.randint(0, 1))
            else:
                op = "capply %d" % o
            ops += [op, "cvec %d" % o]
        elif c < 0.7:
            k = rng.random()
            if k < 0.8:
                idv = rng.choice(env.cids) if rng.random() < 0.93 else rng.choice(unknown_ids(env.cids))
                b = env.cb.get(idv) or (0, 1)
                v = cheap_value(rng, env.cname.get(idv, ""), False) if rng.random() < 0.6 else clip(rand_value(rng, b[0], b[1]))
                op = "pset %d %d" % (idv, v)
            elif k < 0.9:
                op = "preset"
            else:
                op = "pinit %d" % rng.choice([1, 3, -3, 0, 19, 22])
            ops += [op, "pvec"]
        else:
            o = rng.randint(0, 1)
            k = rng.random()
            if k < 0.45:
                idv = rng.choice(env.dids) if rng.random() < 0.9 else rng.choice(unknown_ids(env.dids))
                b = env.db.get(idv) or (0, 1)
                op = "dset %d %d %d" % (o, idv, clip(rand_value(rng, b[0], b[1])))
            elif k < 0.5:
                op = "dget %d %d" % (o, rng.choice(env.dids + unknown_ids(env.dids)[:3]))
            elif k < 0.58:
                op = "dmaxwin %d %d" % (o, rng.choice([1023, 1024, 4096, 1 << 20, (1 << 27) + 1, 1 << 31, (1 << 31) + 1, rng.randint(0, 1 << 33)]))
            elif k < 0.68:
                op = "dreset %d %d" % (o, rng.choice([1, 1, 2, 3, 0]))
            elif k < 0.9:
                op = rng.choice(["dbegin", "dend", "dbad", "dbadcall", "dframe", "dfx", "dfxb"]) + " %d" % o
                if op.startswith("dfx"):
                    op += " %d" % rng.randint(0, 4)
            else:
                op = "drefddict %d %d" % (o, rng.randint(0, 1))
            ops += [op, "dvec %d" % o]
        sig.append(op.split()[0])
    return ops, ("H", tuple(sorted(set(sig))))


# --------------------------------------------------------------------------- comparing

def first_mismatch(ops, real, model):
    for i, (o, r, m) in enumerate(zip(ops, real, model)):
        if r == "skip":
            continue
        if canon(o, r, m) != m:
            return i
    return None


NONTRIVIAL = []     # (signature, non-trivial?) of every evaluated case; list.append is atomic


def evaluate(env, oracle, cases):
    """cases: list of (ops, sig).  Returns list of dict(kind, ops, index, real, model, oracle)."""
    res_r, res_m, errm = run_cases(env, [c[0] for c in cases])
    problems = []
    if errm:
        # find the crashing case by bisection (the harness died: that is itself a finding of the run)
        if len(cases) == 1:
            return [dict(kind="crash", ops=cases[0][0], index=None, real=errm, model=None, oracle=[errm])], 0
        h = len(cases) // 2
        a, na = evaluate(env, oracle, cases[:h])
        if a:
            return a, na
        b, nb = evaluate(env, oracle, cases[h:])
        return b, na + nb
    executed = 0
    for (ops, sig), real, model in zip(cases, res_r, res_m):
        i = first_mismatch(ops, real, model)
        bad = oracle.check(ops, real)
        nex = sum(1 for r in real if r != "skip")
        executed += nex
        if sig is not None:
            # non-trivial: a grid cell whose probe ran on the real library / a history with >= 80% of its calls executed
            probe_ran = (real[-2] != "skip" and real[-3] != "skip") if sig[0] in ("C", "P", "D") else nex * 5 >= len(ops) * 4
            NONTRIVIAL.append((sig, probe_ran))
        if i is not None or bad:
            problems.append(dict(kind="tie" if i is not None else "oracle", ops=ops, index=i,
                                 real=real[i] if i is not None else None, model=model[i] if i is not None else None,
                                 oracle=bad, sig=sig))
    return problems, executed


def shrink(env, oracle, prob):
    """drop ops before the failing one while the same kind of failure persists (budgeted)."""
    ops = list(prob["ops"])
    budget = 60

    def still(cand):
        p, _ = evaluate(env, oracle, [(cand, None)])
        return p and (bool(p[0]["oracle"]) == bool(prob["oracle"])) and ((p[0]["index"] is None) == (prob["index"] is None))

    i = 1
    while i < len(ops) - 1 and budget > 0:
        if ops[i].split()[0] in S2.OBSERVERS:
            i += 1
            continue
        cand = ops[:i] + ops[i + 1:]
        budget -= 1
        if still(cand):
            ops = cand
        else:
            i += 1
    p, _ = evaluate(env, oracle, [(ops, None)])
    res = p[0] if p else prob
    res["sig"] = prob.get("sig")
    return res


def report(ctx, prob, limit_state):
    key = (prob["kind"], str(prob.get("sig"))[:80])
    if key in limit_state or len(limit_state) >= 6:
        return
    limit_state.add(key)
    what = []
    if prob["kind"] == "crash":
        what.append("the harness crashed / was killed while executing this case on the real library")
    if prob["oracle"]:
        what.append("property statement fails on the real library: " + "; ".join(prob["oracle"][:3]))
    if prob["index"] is not None:
        what.append("model/code disagreement at op %d `%s`: code `%s`, model `%s`" % (
            prob["index"], prob["ops"][prob["index"]], prob["real"], prob["model"]))
    replay = dict(kind="c16-case", ops=prob["ops"], index=prob["index"], real=prob["real"], model=prob["model"], oracle=prob["oracle"])
    sig = prob.get("sig")
    key = None
    if isinstance(sig, tuple) and sig and sig[0] == "SC":      # scenario of a repaired finding: it is back
        key = S2.KEYS[sig[1]][0]
        what.insert(0, "in the scenario of repaired finding %s (%s) - the finding is back if the call below is the scenario's critical one" % (sig[1], S2.KEYS[sig[1]][1]))
    ctx.violation(replay, what=" | ".join(what)[:900], no_input=not (prob["oracle"] or key), key=key)


def direct_pledge_check(ctx, env):
    """validated per run (no model): a single-call compression must not leave a pledged size behind for the next
    streamed frame (zstd.h: 'pledgedSrcSize is only valid once ... ZSTD_CONTENTSIZE_UNKNOWN is default value for any new frame')."""
    script = []
    for o in (0, 1):
        for b in (0, 1, 2):
            script += ["new", "cpledge %d %d" % (o, b)]
    rc, out, err = core.sh([env.cx], inp=(env.header + "\n".join(script) + "\n").encode(), timeout=120)
    lines = out.strip().split("\n")
    for k in range(0, len(script), 2):
        r = lines[k + 1] if k + 1 < len(lines) else "missing"
        ctx.count(("pledge", script[k + 1]))
        t = r.split()
        if t[0] != "ok" or t[2] != "0":
            ctx.violation(dict(kind="c16-pledge", ops=script[k:k + 2], real=r),
                          what="a one-shot compression leaves its source size pledged for the next streamed frame on the same context: "
                               "`%s` then 100 streamed bytes + end gives `%s` (expected success with unknown content size)" % (script[k + 1], r),
                          )
            return


# --------------------------------------------------------------------------- adjust / getCParams tie (optional part)

def run_adjust_tie(ctx, env, rng, found):
    from . import c16_adjust
    return c16_adjust.run(ctx, env, rng, found) or []


# --------------------------------------------------------------------------- entry

def my_gen_current():
    """coq/Gen is shared by every ./check process; a concurrent run on ANOTHER tree (ZV_REPO) can rewrite it between
    this run's regeneration and its proof / extraction steps.  True when the two files C16 depends on still hold what
    the dumper built from THIS run's tree prints."""
    c = core.build_harness("dump_c", ["dump_c.c"], variant="o1", extra_flags=["-w"])
    for fn, arg in (("Gen_Bounds.v", "b"), ("Gen_Levels.v", "l")):
        rc, out, err = core.sh([c, arg], timeout=60)
        try:
            if rc != 0 or open(os.path.join(core.COQ, "Gen", fn)).read() != out:
                return False
        except OSError:
            return False
    return True


def with_my_gen(fn, what):
    """run fn() with coq/Gen holding this tree's tables before and after; retry when another process interfered."""
    from .. import gen
    for attempt in range(4):
        if not my_gen_current():
            core.log("coq/Gen was rewritten by another run: regenerating before " + what)
            gen.regen_all(force=True)
        r = fn()
        if my_gen_current():
            return r
    return r


def run(ctx):
    rng = random.Random(ctx.seed * 7919 + 16)
    variant = "o1"
    cx = core.build_harness("c16_params", HARNESS_SRC, variant=variant, extra_flags=["-w"])
    ml = with_my_gen(lambda: core.build_extracted("c16model", "Extract/Extract_C16.v", "c16_driver.ml"), "extraction")
    env = Env(ml, cx)
    oracle = Oracle(env)

    if ctx.replay_file:
        obj = json.load(open(ctx.replay_file))
        rp = obj.get("replay", obj)
        ctx.cov["rule"] = "replay of one recorded case"
        if rp.get("kind") == "c16-adjust":
            from . import c16_adjust
            c16_adjust.replay(ctx, env, rp)
            ctx.count(("replay",))
            ctx.sample(rp["line"])
            ctx.prove()
            ctx.proof_verdict(None)
            return
        if rp.get("kind") == "c16-pledge":
            direct_pledge_check(ctx, env)
            ctx.sample(rp["ops"])
            ctx.prove()
            ctx.proof_verdict(None)
            return
        if rp.get("kind") != "c16-case":
            core.log("replay: nothing executable in this file (kind=%s): re-running the proof step only" % rp.get("kind"))
            ctx.prove()
            ctx.proof_verdict(None)
            return
        probs, _ = evaluate(env, oracle, [(rp["ops"], None)])
        for o in rp["ops"]:
            core.log("replay op:", o)
        if probs:
            core.log("replay: reproduced:", json.dumps({k: probs[0][k] for k in ("index", "real", "model", "oracle")})[:1500])
            report(ctx, probs[0], set())
        else:
            core.log("replay: not reproduced on the current tree (model and code agree, property statement holds)")
        ctx.cov["rule"] = "replay of one recorded case"
        ctx.count(("replay",))
        ctx.sample(rp["ops"][-6:])
        ctx.prove()
        ctx.proof_verdict(None)
        return

    found = []          # concrete failing inputs (oracle failures)
    ties = []           # disagreements where the property statement still holds on the input
    # ---- grid
    import sys
    me = sys.modules[__name__]
    grid = gen_grid(rng, env, ctx.tier)
    nhist = 250 if ctx.quick else 20000
    hist = [gen_history(rng, env, 50) for _ in range(nhist)]
    # round 2: composite setters, pledge, applied parameters, dictionaries, decoder-side dictionaries
    grid2 = S2.gen_grid2(rng, env, ctx.tier, me)
    hist2 = [S2.gen_history2(rng, env, 40, me) for _ in range(400 if ctx.quick else 20000)]
    scen = [(ops, ("SC", tag, n)) for n, (tag, ops) in enumerate(S2.scenarios(env))]
    allc = scen + grid + hist + grid2 + hist2
    nchunks = max(1, min(core.NCPU, len(allc) // 200))
    chunks = [allc[i::nchunks] for i in range(nchunks)]
    executed = 0
    with concurrent.futures.ThreadPoolExecutor(max_workers=nchunks) as ex:
        for probs, n in ex.map(lambda ch: evaluate(env, oracle, ch), chunks):
            executed += n
            for p in probs:
                (found if p["oracle"] else ties).append(p)
    for sig, ok in NONTRIVIAL:
        ctx.count(sig, nontrivial=ok)
    ctx.notes["trivial_cases"] = sum(1 for _, ok in NONTRIVIAL if not ok)
    ctx.cov["evaluations"] = executed          # API calls executed on the real library and compared with the model
    ctx.cov["traces_validated_against_impl"] = len(allc)
    ctx.notes["cases"] = dict(grid=len(grid), histories=len(hist), grid_round2=len(grid2), histories_round2=len(hist2),
                              scenarios_of_repaired_findings=len(scen), calls_executed=executed)
    for ops, sig in (grid[:2] + grid[len(grid) // 2:len(grid) // 2 + 1] + hist[:1] + grid2[:1] + grid2[len(grid2) // 2:len(grid2) // 2 + 1] + hist2[:1] + scen[:1]):
        ctx.sample(dict(sig=str(sig), ops=ops[-8:] if len(ops) > 8 else ops))

    # ---- thorough: sanitizer build of the harness on a subset
    if not ctx.quick:
        try:
            cxa = core.build_harness("c16_params", HARNESS_SRC, variant="asan", extra_flags=["-w"])
            enva = Env(ml, cxa)
            sub = allc[::3]
            probs, n = evaluate(enva, oracle, sub)
            ctx.notes["asan_cases"] = len(sub)
            for p in probs:
                p["sig"] = ("asan", p.get("sig"))
                if p["kind"] == "crash" and "zstd_decompress_block.c" in str(p["real"]) and "pointer index expression" in str(p["real"]):
                    # UB in the block decoder on a frame decoded with the wrong dictionary: outside the parameter contract, reported under its own key
                    ctx.violation(dict(kind="c16-case", ops=p["ops"], index=None, real=p["real"], model=None, oracle=p["oracle"]),
                                  what="UBSan (supporting test): ZSTD_prefetchMatch computes match+CACHELINE_SIZE on a wrapped pointer when a frame is decoded "
                                       "with the wrong dictionary: " + str(p["real"])[-300:], key="C16-asan-prefetch-pointer-overflow")
                    continue
                (found if p["oracle"] else ties).append(p)
        except Exception as e:
            core.log("asan variant failed:", repr(e))
            ctx.violation(dict(kind="asan-build", error=repr(e)), what="ASan/UBSan run of the C16 harness failed: %r" % (e,), no_input=True)

    direct_pledge_check(ctx, env)
    adjust_found = run_adjust_tie(ctx, env, rng, found)

    ctx.cov["rule"] = (
        "grid: object {CCtx, static CCtx, CCtxParams, DCtx, static DCtx} x stage setup (fresh, dirty-init, mid-frame, after failed "
        "compress2, after bad call, after streamed / one-shot frame, after each reset kind, refused reset) x every parameter id of the "
        "regenerated tables + unknown ids x values {lo-1,lo,lo+1,0,default,hi-1,hi,hi+1,INT_MIN,INT_MAX,1,-1,2} + seeded random values, "
        "plus reset/dictionary/apply/frame probes and 50-call random histories over all objects; after every call the full get-vector "
        "(+ stage, dictionary kind) of the object is compared with the extracted model and the property statement is evaluated on the "
        "real outputs. Round 2 adds: composite setters (every cParam field at lo-1 / lo / hi / hi+1 / 0 / extremes x stage), "
        "ZSTD_CCtx_setPledgedSrcSize x stage x pledged value x following calls, ZSTD_CCtxParams_init_advanced, dictionary calls of both "
        "sides x what was attached before x stage x following frames (the frame header and the decodability with each candidate "
        "dictionary / prefix show what was used), mid-frame updates of the seven authorised parameters in single-thread and "
        "multithreaded frames, ZSTD_d_refMultipleDDicts orders, the scenarios of the repaired findings F27 / F29-F33, and 40-call "
        "histories over all of these; after every call cctx->pledgedSrcSizePlusOne, cParamsChanged, the attached dictionary, "
        "cctx->appliedParams and mtctx->params (resp. dictUses / ddict / ddictSet) are compared with the model. "
        "A case is non-trivial when its probe was executed on the real library (round 2: >= 80% of its calls); distinct = distinct "
        "(object, stage, parameter-or-call, value class) / distinct call-kind sets of a history.")

    # ---- shrink + report (scenarios of repaired findings first: they carry their key)
    found.sort(key=lambda p: 0 if isinstance(p.get("sig"), tuple) and p["sig"][0] == "SC" else 1)
    ties.sort(key=lambda p: 0 if isinstance(p.get("sig"), tuple) and p["sig"][0] == "SC" else 1)
    lim = set()
    for p in found[:4]:
        report(ctx, shrink(env, oracle, p), lim)
    for p in ties[:4]:
        report(ctx, shrink(env, oracle, p), lim)

    # ---- proof
    with_my_gen(ctx.prove, "the proof step")
    if not ctx.quick and getattr(ctx, "proof", None) and not ctx.proof["broken"]:
        # independent re-check of the compiled theory by coqchk (thorough tier)
        with core.Lock("coq"):
            rc, o, e = core.sh(["timeout", "1200", "coqchk", "-silent", "-o", "-Q", ".", "ZV", "ZV.Props.Properties_C16"], cwd=core.COQ)
        txt = o + e
        ok = rc == 0 and "Axioms: <none>" in " ".join(txt.split())
        ctx.notes["coqchk"] = "ok: axioms <none>" if ok else (" ".join(txt.split())[-600:])
        ctx.cov["trusted_base"].append("coqchk -o ZV.Props.Properties_C16: " + ctx.notes["coqchk"][:300])
        if not ok and my_gen_current():
            ctx.violation(dict(kind="coqchk", output=txt[-1500:]), what="coqchk does not accept the compiled C16 theory (or reports axioms): " + txt[-300:], no_input=True)

    def search(broken):
        # a broken obligation: the grid above already ran the property statement on the implementation
        return [(dict(kind="c16-case", ops=p["ops"], index=p["index"], real=p["real"], model=p["model"], oracle=p["oracle"]),
                 "proof obligation broken and the property statement fails on the real library: " + "; ".join(p["oracle"][:2]))
                for p in found[:2]]
    if found or adjust_found:
        # already reported with concrete inputs; do not add a second no-input line unless the proof is what broke alone
        pr = getattr(ctx, "proof", None)
        if pr and (pr["broken"] or len(pr["discharged"]) != len(pr["obligations"])):
            core.log("proof obligations broken as well:", [b[0] for b in pr["broken"]][:5])
    else:
        ctx.proof_verdict(search)
