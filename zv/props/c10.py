"""C10 - streaming calls always progress, a completed flush is decodable, decoder size hints stay inside the frame.

Decided by: Coq theorems on the streaming state machines (coq/Props/Properties_C10.v; models coq/Stream/CStreamModel.v,
DStreamModel.v, C10Hints.v) + the lock-step correspondence shared with C02 (zv/props/c02_common.py: the same call history is
executed by the real ZSTD_compressStream2 / ZSTD_decompressStream rebuilt from the working tree and by the extracted models)
+ the direct oracles of this property, evaluated on the observed behaviour of the real code:
  (a) every successful call that was offered input and output room consumed or produced; a flush/end call that does not
      report completion has filled the output buffer it was given; every history driven with ZSTD_e_end finishes;
  (b) at every point where compressStream2(flush) returned 0 the bytes emitted so far regenerate exactly the input consumed
      so far - through libzstd's streaming decoder and through the extracted reference decoder (DStreamModel over R);
      single- and multi-threaded (nbWorkers >= 1: exercised per run only, the Gallina model is single-threaded);
  (c) hint-following readers (harness/c10_hints.c) over streams with data following every frame: ZSTD_decompressStream fed
      exactly its return value, ZSTD_decompressContinue fed exactly ZSTD_nextSrcSizeToDecompress: no request crosses the end
      of the current frame, the frame ends with exactly its bytes consumed; and, for every decoding history at all, the
      position reached plus the returned hint never passes the end of the current frame."""
import json
import random
import struct
import time

from .. import codec, core
from .. import streamtie as st
from . import c02_common as cc

BLOCKSIZE_MAX = 131072
KEY_SKIP = "C10-skippable-hint-overshoot"          # hint passes the end of a skippable frame whose magic was already seen
KEY_EARLY = "C10-hint-overshoot-before-magic"      # hint passes the end of a tiny skippable frame before 4 bytes of it were seen
# API-level compression histories (harness/c10_api.c)
KEY_W1 = "C10-stablein-deferred-flushstream-drops-input"     # wrapper presents {NULL,0,0} although stable input is deferred
KEY_W2 = "C10-reset-keeps-deferred-stable-input"             # ZSTD_CCtx_reset leaves stableIn_notConsumed set
KEY_W3 = "C10-stablein-wrapper-partial-consumption-lost"     # a wrapper consumed the deferred input partially and recorded its private position
KEY_W4 = "C10-stablein-wrapper-pins-null-buffer"             # (repaired by 9a6b24a) a frame started by a wrapper expected the fabricated null input as the stable buffer
KEY_W5 = "C10-stablein-param-change-drops-deferred-input"    # the input mode was changed while stable input was deferred
KEY_L1 = "C10-legacy-stableout-dstbuffer-wrong"              # legacy frame + ZSTD_d_stableOutBuffer: expectedOutBuffer not updated


# ---------------------------------------------------------------------------------------------
# part (c): hint-following readers

def special_streams(rng):
    """boundary layouts for the size hints: tiny skippable frames, empty frames, every header form, empty last blocks"""
    out = []

    def add(frame, content, desc, magicless=False):
        out.append(dict(frame=frame, content=content, parts=[(len(frame), len(content))], magicless=magicless, desc=desc))
    for pl in (0, 1, 2, 3, 4, 5, 9):
        add(st.skippable(bytes(rng.randrange(256) for _ in range(pl)), rng.randrange(16)), b"", "skippable-%d" % pl)
    for ml in (False, True):
        for ck in (False, True):
            # empty frame (one empty last raw block), window descriptor / single segment / explicit FCS widths
            for form in ("win", "single", "fcs2", "fcs4", "fcs8", "single8"):
                n = 0 if form != "fcs2" else 256
                data = rng.randbytes(n)
                if form == "win":
                    h = st.frame_header(window_log=10, magicless=ml, checksum=ck)
                elif form == "single":
                    h = st.frame_header(fcs=n, single=True, magicless=ml, checksum=ck)
                elif form == "single8":
                    h = st.frame_header(fcs=n, single=True, fcs_bytes=8, magicless=ml, checksum=ck)
                elif form == "fcs2":
                    h = st.frame_header(window_log=10, fcs=n, magicless=ml, checksum=ck)
                else:
                    h = st.frame_header(window_log=10, fcs=n, fcs_bytes=int(form[3:]), magicless=ml, checksum=ck)
                body = (st.block(0, data, False) if n else b"") + st.block(0, b"", True)
                tail = struct.pack("<I", st.xxh64(data) & 0xFFFFFFFF) if ck else b""
                add(h + body + tail, data, "empty-%s%s%s" % (form, "-ck" if ck else "", "-ml" if ml else ""), ml)
            # one-byte raw / RLE last blocks, RLE of length 0, raw followed by an empty last block
            for kind in ("raw1", "rle1", "rle0", "raw+empty", "rle+raw"):
                if kind == "raw1":
                    data, body = b"Z", st.block(0, b"Z", True)
                elif kind == "rle1":
                    data, body = b"Q", st.block(1, b"Q", True, rle_len=1)
                elif kind == "rle0":
                    data, body = b"", st.block(1, b"Q", True, rle_len=0)
                elif kind == "raw+empty":
                    data, body = b"abc", st.block(0, b"abc", False) + st.block(0, b"", True)
                else:
                    data, body = b"k" * 700 + b"xy", st.block(1, b"k", False, rle_len=700) + st.block(0, b"xy", True)
                h = st.frame_header(window_log=10, magicless=ml, checksum=ck)
                tail = struct.pack("<I", st.xxh64(data) & 0xFFFFFFFF) if ck else b""
                add(h + body + tail, data, "tiny-%s%s%s" % (kind, "-ck" if ck else "", "-ml" if ml else ""), ml)
    return out


def legacy_streams():
    """the v0.5 / v0.6 / v0.7 frames of /repo/tests/legacy.c (the library is built with ZSTD_LEGACY_SUPPORT=5): decoded by
    lib/legacy through ZSTD_decompressStream only; real decoder only (no model of the legacy formats)"""
    import os
    import re
    try:
        src = open(os.path.join(core.REPO, "tests", "legacy.c")).read()
    except OSError:
        return []
    m = re.search(r'const char\* const COMPRESSED =\s*((?:\s*"(?:\\x[0-9A-Fa-f]{2})+"\s*)+);', src)
    e = re.search(r'const char\* const EXPECTED =\s*((?:\s*"(?:[^"\\]|\\.)*"\s*)+);', src)
    if not m or not e:
        return []
    data = bytes(int(h, 16) for h in re.findall(r"\\x([0-9A-Fa-f]{2})", m.group(1)))
    idx = [i for i in range(len(data) - 3) if data[i + 1:i + 4] == b"\xb5\x2f\xfd" and data[i] in (0x24, 0x25, 0x26, 0x27, 0x28)]
    frames = [data[a:b] for a, b in zip(idx, idx[1:] + [len(data)])]
    text = "".join(re.findall(r'"((?:[^"\\]|\\.)*)"', e.group(1)))
    text = text.replace("\\n", "\n").encode("utf-8")
    one = text[: len(text) // 5] if len(text) % 5 == 0 else None
    out = []
    for f in frames:
        if f[0] in (0x25, 0x26, 0x27) and one is not None:
            out.append(dict(frame=f, content=one, parts=[(len(f), len(one))], magicless=False, desc="legacy-v0.%d" % (f[0] - 0x20), legacy=True))
    if len(out) == 3:
        sk = st.skippable(b"ab", 3)
        fr = out[2]["frame"] + sk + out[0]["frame"]
        out.append(dict(frame=fr, content=one + one, parts=[(len(out[2]["frame"]), len(one)), (len(sk), 0), (len(out[0]["frame"]), len(one))],
                        magicless=False, desc="legacy-v0.7+skip2+v0.5", legacy=True))
    return out


def legacy_handmade(rng, n):
    """round 3: hand-made v0.5 / v0.6 / v0.7 frames of raw blocks (the only block type of those formats that needs no entropy
    coder): 0..6 blocks of 1 byte .. one window, the smallest legal frames (header + end mark), v0.7 with its 22-bit checksum
    in the end mark, single-segment v0.7 headers; alone and glued to modern / skippable frames.  Real decoder only."""
    def blk(bt, size, payload=b""):
        return bytes([(bt << 6) | ((size >> 16) & 7), (size >> 8) & 255, size & 255]) + payload
    out = []
    for i in range(n):
        ver = rng.choice([5, 6, 7])
        nb = rng.choice([0, 0, 1, 1, 2, 3, 6])
        sizes = [rng.choice([1, 1, 2, 3, 4, 5, 100, 1000, 4095, 4096, 4097, 20000]) for _ in range(nb)]
        if i % 17 == 5:
            sizes = [131072]
        content = b"".join(rng.randbytes(z) for z in sizes)
        body, pos = b"", 0
        for z in sizes:
            body += blk(1, z, content[pos:pos + z])
            pos += z
        end = blk(3, 0)
        if ver == 5:
            h = bytes([0x25, 0xb5, 0x2f, 0xfd, rng.choice([6, 7])])                    # windowLog 17 / 18
        elif ver == 6:
            h = bytes([0x26, 0xb5, 0x2f, 0xfd, rng.choice([5, 6])])                    # no content size, windowLog 17 / 18
        else:
            form = rng.choice(["win", "win-ck", "single"])
            if form == "single" and len(content) < 256:
                h = bytes([0x27, 0xb5, 0x2f, 0xfd, 0x20, len(content)])                # single segment, 1-byte content size
            else:
                ck = form == "win-ck"
                h = bytes([0x27, 0xb5, 0x2f, 0xfd, 0x04 if ck else 0x00, rng.choice([0x38, 0x40, 0x41])])
                if ck:
                    h32 = (st.xxh64(content) >> 11) & ((1 << 22) - 1)
                    end = bytes([0xC0 | (h32 >> 16), (h32 >> 8) & 255, h32 & 255])
        f = h + body + end
        out.append(dict(frame=f, content=content, parts=[(len(f), len(content))], magicless=False,
                        desc="legacy-handmade-v0.%d-%s" % (ver, "+".join(map(str, sizes)) or "empty"), legacy=True))
    # glued to other frames: the legacy decoder hands over at its frame end
    if len(out) >= 3:
        sk = st.skippable(b"", 1)
        a, b, c = out[0], out[1], out[2]
        fr = a["frame"] + sk + b["frame"] + c["frame"]
        out.append(dict(frame=fr, content=a["content"] + b["content"] + c["content"],
                        parts=[(len(a["frame"]), len(a["content"])), (len(sk), 0), (len(b["frame"]), len(b["content"])), (len(c["frame"]), len(c["content"]))],
                        magicless=False, desc="legacy-handmade-multi", legacy=True))
    return out


def multi_streams(rng, pool, n):
    """concatenations of frames / skippable frames (zstd1 format), biased to tiny skippable frames"""
    out = []
    pool = [f for f in pool if not f["magicless"] and len(f["frame"]) < 6000 and len(f["parts"]) == 1 and not f["desc"].startswith("skippable")]
    for _ in range(n):
        parts, frame, content, names = [], b"", b"", []
        for _ in range(rng.randint(2, 5)):
            if rng.random() < 0.4 or not pool:
                sk = st.skippable(rng.randbytes(rng.choice([0, 1, 2, 3, 4, 5, 8, 100, 2000])), rng.randrange(16))
                frame += sk
                parts.append((len(sk), 0))
                names.append("skip%d" % (len(sk) - 8))
            else:
                f = rng.choice(pool)
                frame += f["frame"]
                content += f["content"]
                parts.append((len(f["frame"]), len(f["content"])))
                names.append("z%d" % len(f["content"]))
        out.append(dict(frame=frame, content=content, parts=parts, magicless=False, desc="multi-" + "+".join(names)))
    return out


def follow_bytes(rng, streams):
    """what comes after the last frame: nothing, garbage, the beginning of another frame"""
    r = rng.random()
    if r < 0.15:
        return b""
    if r < 0.6:
        return rng.randbytes(rng.choice([1, 2, 3, 4, 5, 8, 9, 30]))
    f = rng.choice(streams)["frame"]
    return f[:rng.choice([1, 4, 5, 6, 9, 12])] if not rng.random() < 0.3 else struct.pack("<I", st.MAGIC) + rng.randbytes(6)


def hint_cases(rng, streams, quick):
    cases = []
    for s in streams:
        n, nc = len(s["frame"]), len(s["content"])
        modes = [("s", 1 << 20), ("c", 0)]
        if s.get("legacy"):
            modes = [("s", 1 << 20), ("s", 7), ("s", 100)]
        if nc <= 1200 and rng.random() < 0.5:
            modes.append(("s", rng.choice([1, 2, 3, 7, 100])))
        elif rng.random() < 0.3:
            modes.append(("s", rng.choice([1000, 1024, 4096, 65536])))
        for mode, cap in modes:
            fl = {}
            if s["magicless"]:
                fl["ml"] = True
            if rng.random() < 0.1:
                fl["nock"] = True
            if mode == "s" and cap == 1 << 20 and (s.get("legacy") or rng.random() < 0.15):
                fl["so"] = True           # ZSTD_d_stableOutBuffer: same hints, no zdss_flush stage (real decoder only)
            if mode == "s" and rng.random() < 0.2 and n > 1:
                # the context first sees a part of the stream and is reset: the run itself must be what a fresh context does
                fl["ab"] = rng.choice([1, 2, 4, 5, 6, 9, n // 2, n - 1, max(1, n - 4)])
            cases.append(dict(id="h%d" % len(cases), stream=s, mode=mode, cap=cap, flags=fl, follow=follow_bytes(rng, streams)))
            if s.get("legacy") and fl.get("so"):
                cases.append(dict(id="h%d" % len(cases), stream=s, mode=mode, cap=cap, flags={}, follow=follow_bytes(rng, streams)))
    return cases


def mflags(fl):
    """the flags the models know (an abandoned frame before the run is invisible to a model that starts fresh)"""
    return dict((k, v) for k, v in fl.items() if k not in ("ab", "so"))


def parse_hrecords(s, mode):
    recs = []
    if s == "-":
        return recs
    for r in s.split(";"):
        if not r:
            continue
        v = r.split(":")
        d = dict(req=int(v[0]), pos=int(v[1]), offered=int(v[2]), consumed=int(v[3]), produced=int(v[4]), ret=v[5], newframe=int(v[6]))
        if mode == "c" and len(v) > 7:
            d["nit"] = int(v[7])
        recs.append(d)
    return recs


def is_small_skippable(s, a, b):
    return (not s["magicless"] and b - a < 11 and len(s["frame"]) >= a + 4
            and (int.from_bytes(s["frame"][a:a + 4], "little") & 0xFFFFFFF0) == 0x184D2A50)


def overshoot_key(s, a, b, seen):
    """stable finding key of a hint that passes the end of the frame [a, b) after [seen] bytes of it were presented"""
    if not is_small_skippable(s, a, b):
        return None
    return KEY_SKIP if seen >= 4 else KEY_EARLY


def check_hint_oracle(recs, out, s, mode):
    """part (c) of the statement on the observed calls of the real decoder.  -> None | (key, call index, text)"""
    ends = [e[0] for e in st.frame_ends(s["parts"])]
    starts = [0] + ends[:-1]
    fi = -1
    done = True
    for i, r in enumerate(recs):
        ret = st.norm_ret(r["ret"])
        if r["newframe"]:
            if not done:
                return (None, i, "call %d starts a frame although the previous frame did not report completion" % i)
            fi += 1
            if fi >= len(starts) or r["pos"] != starts[fi]:
                return (None, i, "call %d: frame %d is started at stream offset %d, the frame starts at %s"
                        % (i, fi, r["pos"], starts[fi] if fi < len(starts) else "(no such frame)"))
            done = False
        if fi < 0:
            return (None, i, "first call does not start a frame")
        end = ends[fi]
        small = is_small_skippable(s, starts[fi], end)
        if r["req"] > 0 and r["pos"] + r["req"] > end:
            return (overshoot_key(s, starts[fi], end, r["pos"] - starts[fi]), i,
                    "call %d: the decoder asked for %d bytes at stream offset %d, i.e. %d byte(s) beyond the end (%d) of the current %sframe"
                    % (i, r["req"], r["pos"], r["pos"] + r["req"] - end, end, "skippable " if small else ""))
        if isinstance(ret, tuple):
            return (None, i, "call %d: error %s on a valid stream read by hint" % (i, ret[1]))
        if mode == "c" and r["consumed"] != r["offered"]:
            return (None, i, "call %d: buffer-less call did not take the bytes it asked for" % i)
        if r["consumed"] == 0 and r["produced"] == 0 and r["offered"] > 0:
            return (None, i, "call %d: no progress with %d byte(s) of input and output room offered" % (i, r["offered"]))
        after = r["pos"] + r["consumed"]
        if ret == 0:
            if after != end:
                return (None, i, "call %d: the frame reported completion having consumed up to offset %d, the frame ends at %d" % (i, after, end))
            done = True
        elif after + ret > end:
            return (overshoot_key(s, starts[fi], end, after - starts[fi]), i,
                    "call %d: position %d + hint %d passes the end (%d) of the current %sframe" % (i, after, ret, end, "skippable " if small else ""))
    if not done or fi != len(starts) - 1:
        return (None, len(recs), "the hint-following reader stopped before the last frame was complete (frame %d of %d)" % (fi + 1, len(starts)))
    if out != s["content"]:
        return (None, len(recs), "regenerated data (%d bytes) differs from the content (%d bytes)" % (len(out), len(s["content"])))
    return None


def hsignature(recs, mode, s):
    sig = set()
    for r in recs:
        ret = st.norm_ret(r["ret"])
        cls = "E" if isinstance(ret, tuple) else ("0" if ret == 0 else "1" if ret == 1 else "3" if ret == 3 else "4" if ret == 4 else "h")
        sig.add((mode, r["newframe"], cls, r["req"] == 0, r["consumed"] < r["offered"], r["produced"] == 0, r.get("nit", -1),
                 min(r["req"], 9)))
    return (tuple(sorted(sig)), len(s["parts"]) > 1)


def run_hints(ctx, tie, hexe, cases, rexe=None):
    lines = []
    for c in cases:
        s = c["stream"]
        lines.append("H %s %s %s %d %s %d 300000" % (c["id"], st.dflags_str(c["flags"]), codec.hx(s["frame"] + c["follow"]), len(s["frame"]), c["mode"], c["cap"]))
    t0 = time.time()
    iout, ierrs = st.run_lines(hexe, lines, timeout=240)
    t1 = time.time()
    if ierrs:
        ctx.violation(dict(kind="harness-crash", detail=ierrs[:2]), what="c10_hints crashed or did not terminate: %r" % (ierrs[0],))
    mlines = []
    for c in cases:
        s = c["stream"]
        r = iout.get(c["id"])
        c["recs"] = None
        if r is None or not r.startswith("OK "):
            ctx.violation(dict(kind="hint-history", frame_hex=s["frame"].hex(), follow_hex=c["follow"].hex(), mode=c["mode"], cap=c["cap"], flags=c["flags"],
                               result=str(r)[:300]), what="hint-following reader gave no result (%s)" % (str(r)[:100],), no_input=True)
            continue
        t = r.split(" ")
        c["out"] = codec.unhx(t[1])
        c["recs"] = parse_hrecords(t[2] if len(t) > 2 else "-", c["mode"])
        c["nomodel"] = bool(s.get("legacy") or c["flags"].get("so"))
        if c["nomodel"]:
            continue
        # model side: the same presentation of bytes replayed on the extracted decoder model
        if c["mode"] == "s":
            calls = ";".join("%d:%d" % (x["offered"], c["cap"]) for x in c["recs"])
            mlines.append("X %s %s %s %s" % (c["id"], st.model_dflags(mflags(c["flags"])), codec.hx(s["frame"] + c["follow"]), calls or "-"))
        else:
            mlines.append("B %s %s %s" % (c["id"], st.model_dflags(mflags(c["flags"])), codec.hx(s["frame"])))
    tie.m
    t2 = time.time()
    mout, merrs = tie.model(mlines)
    t3 = time.time()
    if merrs:
        ctx.violation(dict(kind="model-crash", detail=merrs[:2]), what="the extracted streaming model crashed: %r" % (merrs[0],), no_input=True)
    # the Gallina readers of the theorems (C10Hints.v: frame_extent, hread, sread over R), frame by frame
    rlines = []
    if rexe is not None:
        cand = []
        for c in cases:
            if c["recs"] is None or (c["mode"] == "s" and c["cap"] < BLOCKSIZE_MAX) or c.get("nomodel"):
                continue
            s = c["stream"]
            ends = [e[0] for e in st.frame_ends(s["parts"])]
            for fi, (a, b) in enumerate(zip([0] + ends[:-1], ends)):
                cand.append((b - a, len(cand), c, fi, a, b))
        cand.sort()
        budget = 1500000 if ctx.quick else 8000000      # bytes of frames decoded by the extracted readers (R costs ~0.5 s / 100 kB)
        done_cases = set()
        for size, _, c, fi, a, b in cand:
            if size > budget:
                break
            budget -= size
            s = c["stream"]
            tail = codec.hx(s["frame"][a:b] + (s["frame"][b:b + 16] + c["follow"])[:16])
            rlines.append("E %s.e%d %d %s" % (c["id"], fi, 1 if s["magicless"] else 0, tail))
            rlines.append("R %s.r%d %s %s %s %d %d" % (c["id"], fi, st.model_dflags(mflags(c["flags"])), tail, c["mode"], max(c["cap"], 1), b - a))
    rout, rerrs = st.run_lines(rexe, rlines, big_stack=True) if rlines else ({}, [])
    core.log("hint phase: real decoder %.0fs, model build/lock %.0fs, lock-step model %.0fs, Gallina readers %.0fs (%d lines)"
             % (t1 - t0, t2 - t1, t3 - t2, time.time() - t3, len(rlines)))
    if rerrs:
        ctx.violation(dict(kind="model-crash", detail=rerrs[:2]), what="the extracted C10 readers crashed: %r" % (rerrs[0],), no_input=True)
    hist = {}
    nviol = 0
    nrd = 0
    for c in cases:
        if c["recs"] is None:
            continue
        s, recs = c["stream"], c["recs"]
        rep = dict(kind="hint-history", frame_hex=s["frame"].hex(), follow_hex=c["follow"].hex(), mode=c["mode"], cap=c["cap"], flags=c["flags"],
                   parts=s["parts"], desc=s["desc"], content_hex=s["content"].hex()[:100000],
                   calls=["%(req)d@%(pos)d:%(offered)d->%(consumed)d:%(produced)d:%(ret)s" % x for x in recs][:300])
        v = check_hint_oracle(recs, c["out"], s, c["mode"])
        if v and v[0] is None and s.get("legacy") and c["flags"].get("so") and "dstBuffer_wrong" in v[2]:
            v = (KEY_L1,) + tuple(v[1:])
        if v:
            nviol += 1
            api = "ZSTD_decompressStream" if c["mode"] == "s" else "ZSTD_decompressContinue"
            ctx.violation(rep, what="%s read by hint (%s, output room %d, %d byte(s) follow the stream): %s" % (api, s["desc"], c["cap"], len(c["follow"]), v[2]), key=v[0])
        # correspondence with the model on the same presentation
        m = mout.get(c["id"])
        if c.get("nomodel"):
            pass
        elif m is None or not (m.startswith("OK ") or m.startswith("ERR ")):
            ctx.violation(dict(rep, model=str(m)[:300]), what="streaming decoder model gave no result for a hint-following history (%s)" % (str(m)[:120],), no_input=True)
        elif c["mode"] == "s":
            t = m.split(" ")
            mrecs = st.parse_mrecords(t[2] if len(t) > 2 else "-", st.DFIELDS)
            irecs = [dict(consumed=x["consumed"], produced=x["produced"], ret=x["ret"]) for x in recs]
            d = st.first_diff(irecs, mrecs, ["consumed", "produced", "ret"], private=False)
            if d is None and m.startswith("OK ") and codec.unhx(t[1]) != c["out"]:
                d = (len(mrecs), "output-bytes", len(c["out"]), len(codec.unhx(t[1])))
            if d is not None:
                ctx.violation(dict(rep, first_difference=dict(call=d[0], field=d[1], implementation=d[2], model=d[3])),
                              what="ZSTD_decompressStream and DStreamModel disagree on a hint-following history at call %d on %s: implementation %s, model %s (%s)"
                                   % (d[0], d[1], d[2], d[3], s["desc"]), no_input=(v is None))
                nviol += 1
        else:
            t = m.split(" ")
            msizes = [int(x) for x in (t[2] if len(t) > 2 else "").split(",") if x] if m.startswith("OK ") else None
            isizes = [x["offered"] for x in recs]
            if msizes is None or msizes != isizes or codec.unhx(t[1]) != c["out"]:
                ctx.violation(dict(rep, model=str(m)[:2000], implementation_sizes=isizes[:300]),
                              what="ZSTD_nextSrcSizeToDecompress sequence differs from the buffer-less model (%s): implementation %s..., model %s"
                                   % (s["desc"], isizes[:12], (msizes[:12] if msizes is not None else m[:80])), no_input=(v is None))
                nviol += 1
        # the theorems' readers: layout size and request sequence per frame
        if any(k.startswith(c["id"] + ".") for k in rout) or True:
            ends = [e[0] for e in st.frame_ends(s["parts"])]
            fidx, per_frame = -1, []
            for x in recs:
                if x["newframe"]:
                    fidx += 1
                    per_frame.append([])
                if x["req"] > 0 and per_frame:
                    per_frame[-1].append(x["req"])
            for fi, (a, b) in enumerate(zip([0] + ends[:-1], ends)):
                if ("%s.e%d" % (c["id"], fi)) not in rout and ("%s.r%d" % (c["id"], fi)) not in rout:
                    continue            # outside this run's budget for the extracted readers
                nrd += 1
                e = rout.get("%s.e%d" % (c["id"], fi), "missing")
                r = rout.get("%s.r%d" % (c["id"], fi), "missing")
                want = "DONE %d %s" % (b - a, ",".join(str(k) for k in (per_frame[fi] if fi < len(per_frame) else [])))
                if e != "OK %d" % (b - a):
                    ctx.violation(dict(rep, frame_index=fi, model=e, expected=b - a),
                                  what="frame_extent (Gallina layout size) of frame %d of %s is %s, the frame has %d bytes" % (fi, s["desc"], e, b - a), no_input=True)
                    nviol += 1
                    break
                if r != want and v is None:
                    ctx.violation(dict(rep, frame_index=fi, model=r, implementation=want),
                                  what="%s of C10Hints.v and the real %s disagree on the requests for frame %d of %s: model '%s', implementation '%s'"
                                       % ("sread" if c["mode"] == "s" else "hread", "ZSTD_decompressStream" if c["mode"] == "s" else "ZSTD_decompressContinue",
                                          fi, s["desc"], r[:100], want[:100]), no_input=True)
                    nviol += 1
                    break
        ctx.count(("H",) + hsignature(recs, c["mode"], s), nontrivial=len(recs) > 1)
        ctx.cov["traces_validated_against_impl"] += 1
        k = "hint-%s" % ("stream" if c["mode"] == "s" else "bufferless")
        hist[k] = hist.get(k, 0) + len(recs)
        if len(s["frame"]) < 40 and len(recs) < 10:
            ctx.sample(dict(kind="hint-history", frame_hex=s["frame"].hex(), follow_hex=c["follow"].hex(), mode=c["mode"],
                            calls=["%(req)d@%(pos)d->%(consumed)d:%(produced)d:%(ret)s" % x for x in recs]))
    hist["frames-through-gallina-readers"] = nrd
    ctx.cov["traces_validated_against_impl"] += nrd
    return hist, nviol


# ---------------------------------------------------------------------------------------------
# C10 oracles on the decoding histories of the C02 lock-step (any segmentation, not only hint-following)

def decoder_post(ctx, cases):
    n = 0
    for c in cases:
        recs = c.get("irecs")
        if not recs:
            continue
        s = c["stream"]
        ends = [e[0] for e in st.frame_ends(s["parts"])]
        starts = [0] + ends[:-1]
        cin = 0
        for i, r in enumerate(recs):
            ret = st.norm_ret(r["ret"])
            if isinstance(ret, tuple):
                break
            cin += r["consumed"]
            if ret == 0:
                continue
            fi = next((k for k in range(len(ends)) if starts[k] <= cin < ends[k]), None)
            if fi is None:
                continue
            if cin + ret > ends[fi]:
                small = is_small_skippable(s, starts[fi], ends[fi])
                ctx.violation(dict(kind="decoder-history", frame_hex=s["frame"].hex(), ops=c["ops"], flags=c["flags"], desc=s["desc"], call=i,
                                   calls=[(x["offered"], x["cap"]) for x in recs][:400]),
                              what="ZSTD_decompressStream (%s, ops %s): after call %d the position %d + returned hint %d passes the end (%d) of the current %sframe"
                                   % (s["desc"], c["ops"][:60], i, cin, ret, ends[fi], "skippable " if small else ""),
                              key=overshoot_key(s, starts[fi], ends[fi], cin - starts[fi]))
                n += 1
                break
    return n


# ---------------------------------------------------------------------------------------------
# parts (a), (b): compressor histories

def c10_chistory(rng):
    """histories aimed at flush / end at particular fill levels of inBuff / outBuff"""
    style = rng.choice(["flushfill", "flushtiny", "endtiny", "flusheach", "siframes", "common", "common"])
    ops = []
    if style == "flushfill":          # fill to just below / at / above the block target, then flush with various room
        for _ in range(rng.randint(2, 6)):
            ops.append("%s:%s:0" % (rng.choice(["h-1", "h", "h+1", "b-1", "b", "b+1", "1", "100"]), rng.choice(["r", "r", "0", "1", "100"])))
            ops.append("%s:%s:1" % (rng.choice(["0", "0", "1", "h-1", "h"]), rng.choice(["r", "r", "1", "3", "100", "1000"])))
    elif style == "flushtiny":        # drain a flush through a tiny output buffer
        for _ in range(rng.randint(1, 3)):
            ops.append("%s:r:0" % rng.choice(["100", "1000", "h-1", "b", "5000"]))
            for _ in range(rng.randint(3, 40)):
                ops.append("0:%s:1" % rng.choice(["1", "1", "2", "3", "5", "100"]))
            ops.append("0:r:1")
    elif style == "endtiny":
        ops.append("%s:r:%d" % (rng.choice(["100", "1000", "b-1", "a"]), rng.choice([0, 1])))
        for _ in range(rng.randint(3, 40)):
            ops.append("a:%s:2" % rng.choice(["1", "1", "2", "3", "5", "100"]))
    elif style == "flusheach":        # flush after every small piece
        for _ in range(rng.randint(3, 25)):
            ops.append("%s:r:1" % rng.choice(["1", "2", "3", "7", "100", "1000"]))
    elif style == "siframes":         # several frames, small first (stable-input bookkeeping across frames)
        for _ in range(rng.randint(2, 4)):
            ops.append("%s:r:2" % rng.choice(["1", "3", "100", "1000"]))
            for _ in range(rng.randint(0, 3)):
                ops.append("%s:r:%d" % (rng.choice(["100", "1000", "5000", "h", "h+1"]), rng.choice([0, 0, 1])))
    else:
        return cc.gen_chistory(rng)
    return ";".join(ops)


def c10_compressor_cases(ctx, rng, n, mt=False):
    cases = cc.compressor_cases(ctx, rng, n, mt=mt, big=1)
    for c in cases:
        if rng.random() < 0.6:
            c["ops"] = c10_chistory(rng)
            if c["ops"].count(":2") > 1:          # several frames: no pledge; often stable input (bookkeeping across frames)
                c["pledged"] = None
                if not mt and rng.random() < 0.6:
                    c["params"].pop("stableOut", None)
                    c["params"]["stableIn"] = 1
        if mt:
            # whether the pledge is right depends on how much the job ring takes per call (a first frame that ends before the
            # whole input went in makes it wrong; before /repo 0be3b02 a wrong pledge was not even refused with nbWorkers >= 1
            # but gave an undecodable frame, docs/C10.md section 4): multithreaded histories carry no pledge
            c["pledged"] = None
        c["id"] = ("m" if mt else "k") + c["id"][1:]
    return cases


def compressor_post(ctx, tie, cases, rng, max_model_prefix=40000):
    """C10 oracles on the observed calls of the real compressor + flush prefixes through the extracted reference decoder"""
    mlines = []
    nviol = 0
    for c in cases:
        recs = c.get("irecs")
        if not recs:
            continue
        rep = c.get("rep") or dict(kind="compress-history", params=c["params"], ops=c["ops"], pledged=c["pledged"], input_hex=c["x"].hex()[:200000],
                                   calls=[(x["offered"], x["cap"], x["dir"]) for x in recs][:400])
        mtag = "nbWorkers=%d" % c["params"]["nbWorkers"] if c["mt"] else "single-threaded"
        bad = None
        for i, r in enumerate(recs):
            ret = st.norm_ret(r["ret"])
            if isinstance(ret, tuple):
                break
            if r["offered"] > 0 and r["cap"] > 0 and r["consumed"] <= 0 and r["produced"] == 0:
                bad = (i, "call %d (directive %d) was offered %d byte(s) and %d byte(s) of output room but neither consumed nor produced" % (i, r["dir"], r["offered"], r["cap"]))
                break
            if r["dir"] in (1, 2) and ret != 0 and r["produced"] != r["cap"]:
                bad = (i, "call %d (directive %d) returned %d (not complete) although it left %d of %d byte(s) of output room unused"
                       % (i, r["dir"], ret, r["cap"] - r["produced"], r["cap"]))
                break
            if not c["mt"] and r.get("hint", 0) > BLOCKSIZE_MAX + 1:      # + 1: inBuffTarget = blockSize + 1 when the pledged size is exactly one block
                bad = (i, "after call %d the input size hint (what ZSTD_compressStream returns) is %d: larger than a block (%d), i.e. wrapped around / an error code for a successful call"
                       % (i, r["hint"], BLOCKSIZE_MAX))
                break
        if bad is None:
            last = recs[-1]
            lret = st.norm_ret(last["ret"])
            if not isinstance(lret, tuple) and not (last["dir"] == 2 and lret == 0) and len(recs) >= 100000:
                bad = (len(recs) - 1, "the history did not finish within 100000 calls")
        if bad is not None:
            nviol += 1
            ctx.violation(dict(rep, call=bad[0]), what="ZSTD_compressStream2 (%s, params %s, ops %s): %s" % (mtag, c["params"], c["ops"][:80], bad[1]))
        # flush prefixes through the extracted reference decoder (DStreamModel over R's block decoder)
        fps = c.get("flushpoints", [])
        pick = [fp for fp in fps if fp[3] <= max_model_prefix]
        if len(pick) > 3:
            pick = [pick[0], pick[-1], rng.choice(pick[1:-1])]
        for fid, i, cin, cout in pick:
            nfr = 2 + sum(1 for x in recs[:i] if x["dir"] == 2 and st.norm_ret(x["ret"]) == 0)      # the decoder stops at every frame end
            mlines.append(("X %s %s %s %s" % (fid, "ml" if c.get("ml") else "-", codec.hx(c["out"][:cout]), ";".join(["%d:%d" % (cout, cin + 64)] * nfr)),
                           c, i, cin, cout))
    mout, merrs = tie.model([m[0] for m in mlines])
    if merrs:
        ctx.violation(dict(kind="model-crash", detail=merrs[:2]), what="the extracted streaming model crashed on a flushed prefix: %r" % (merrs[0],), no_input=True)
    nfl = 0
    for line, c, i, cin, cout in mlines:
        fid = line.split(" ")[1]
        m = mout.get(fid)
        ok = m is not None and m.startswith("OK ") and codec.unhx(m.split(" ")[1]) == c["x"][:cin]
        nfl += 1
        if not ok:
            nviol += 1
            got = len(codec.unhx(m.split(" ")[1])) if (m and m.startswith("OK ")) else str(m)[:80]
            ctx.violation(dict(c.get("rep", {}), flush_call=i, consumed_so_far=cin, produced_so_far=cout, prefix_hex=c["out"][:cout].hex()[:200000], model=str(m)[:300]),
                          what="compressStream2(flush) returned 0 at call %d but the reference decoder regenerates %s instead of the %d bytes consumed so far from the %d bytes emitted so far (params %s, ops %s)"
                               % (i, got, cin, cout, c["params"], c["ops"][:80]))
    return nfl, nviol



# ---------------------------------------------------------------------------------------------
# API-level compression histories (harness/c10_api.c): ZSTD_compressStream2 / ZSTD_compressStream / ZSTD_flushStream /
# ZSTD_endStream, parameter changes between frames, abandoned frames (ZSTD_CCtx_reset), single- and multi-threaded

AFIELDS = ["kind", "offered", "cap", "dir", "consumed", "produced", "ret", "streamStage", "inBuffPos", "inToCompress", "inBuffTarget",
           "outBuffContentSize", "outBuffFlushedSize", "frameEnded", "notConsumed", "blockSize", "inBuffSize", "outBuffSize", "hint",
           "windowLog", "maxBlockSize", "view", "appliedSI", "appliedNbWorkers", "fin", "fout", "ipos", "opos", "toFlushNow",
           "fp_ingested", "fp_consumed", "fp_produced", "fp_flushed", "dec", "declen", "checksum", "expPos", "expSize"]
A_IN = ["0", "1", "2", "3", "100", "1000", "5000", "h", "h-1", "h+1", "b", "b-1", "b+1", "a"]
A_CAP = ["r", "r", "r", "0", "1", "2", "3", "5", "100", "1000", "c", "c-1", "C", "C-1", "C+1"]
PID = codec.P


def parse_arecords(s):
    recs = []
    if s == "-":
        return recs
    for r in s.split(";"):
        if not r:
            continue
        d = {}
        for k, x in zip(AFIELDS, r.split(":")):
            d[k] = x if k in ("kind", "ret") else int(x)
        recs.append(d)
    return recs


def api_ops(rng, stable_start):
    """a history of 1..3 frames mixing the four entry points; [stable_start]: the context is in stable-input mode when the
    history starts.  Since fix 9a6b24a a frame may be started by a wrapper in stable-input mode too (round 3: half of the
    stable-input frames start with whatever op comes first, the other half with a ZSTD_compressStream2 call as before)"""
    ops = []
    si = stable_start
    for f in range(rng.choice([1, 1, 2, 3])):
        if rng.random() < 0.25:
            si = rng.choice([0, 1])
            ops.append("p%d=%d" % (PID["stableIn"], si))
        if rng.random() < 0.15:
            ops.append("p%d=%d" % (PID["nbWorkers"], rng.choice([0, 1, 2])))
        if rng.random() < 0.1:
            ops.append("p%d=%d" % (PID["checksum"], rng.choice([0, 1])))
        started = False
        cfirst = rng.random() < 0.5
        for _ in range(rng.randint(0, 8)):
            r = rng.random()
            if r < 0.35 or (si and cfirst and not started and r < 0.8):
                ops.append("c%s:%s:%d" % (rng.choice(A_IN), rng.choice(A_CAP), rng.choice([0, 0, 0, 1])))
                started = True
            elif r < 0.5:
                ops.append("s%s:%s" % (rng.choice(A_IN), rng.choice(A_CAP)))
                started = True
            elif r < 0.75:
                ops.append("f%s" % rng.choice(A_CAP))
                started = True
            elif r < 0.8:
                ops.append("t")
            elif r < 0.84:
                ops.append("R")
                started = False
            elif r < 0.9:
                ops.append("p%d=%d" % (PID["level"], rng.choice([1, 3, 5])))
            else:
                ops.append("c%s:%s:2" % (rng.choice(A_IN), rng.choice(A_CAP)))
                started = True
        if si and cfirst and not started:
            ops.append("c%s:%s:0" % (rng.choice(A_IN), rng.choice(A_CAP)))
        style = rng.random()
        if style < 0.4:
            for _ in range(rng.randint(1, 12)):
                ops.append("e%s" % rng.choice(["1", "2", "3", "5", "100", "r"]))
            ops.append("er")
        elif style < 0.7:
            ops.append("c%s:%s:2" % (rng.choice(A_IN), rng.choice(A_CAP)))
            for _ in range(rng.randint(0, 6)):
                ops.append(rng.choice(["e1", "e3", "e100", "ca:1:2", "ca:3:2", "ca:100:2"]))
            ops.append(rng.choice(["er", "ca:r:2"]))
    return ";".join(ops) or "t"


def api_targeted():
    """the histories of the findings of this check, on a fresh context / after a buffered frame / after a stable-input frame"""
    x = bytes(((i * 7) ^ (i >> 5)) & 255 for i in range(8000))
    si = PID["stableIn"]
    out = []
    warm = [("fresh", {"stableIn": 1}, ""), ("after-buffered", {}, "c10:r:2;p%d=1;" % si), ("after-stable", {"stableIn": 1}, "c10:r:2;")]
    for name, p0, pre in warm:
        for tail, what in (("c1000:r:0;fr;er", "flushStream+endStream after a deferred call"), ("c1000:r:0;er", "endStream after a deferred call"),
                           ("c1000:r:0;c500:r:0;f5;f5;fr;c200:r:0;e3;e3;er", "tiny flushStream / endStream calls around deferred calls"),
                           ("c1000:r:0;R;c10:r:2", "reset while stable input is deferred, then a frame"),
                           ("c1000:r:0;R;c10:r:0;fr;er", "reset while stable input is deferred, then wrappers"),
                           ("c5000:r:0;f3;fr;er", "flushStream through a tiny buffer after a deferred call"),
                           ("c5000:r:0;f3;c100:r:0;f1;fr;e3;er", "direct call after a partial flushStream"),
                           ("c5000:r:0;e3;e3;er", "endStream through a tiny buffer after a deferred call")):
            for extra in ({}, {"windowLog": 10}, {"maxBlockSize": 1024, "checksum": 1}):
                out.append(dict(x=x, params=dict(p0, **extra), ops=pre + tail, extra="", mt=False, kind="targeted", desc="%s, %s" % (what, name)))
    for tail, what in (("c1000:r:0;p%d=0;c0:r:1;er" % si, "stable input switched off while input is deferred, then flush"),
                       ("c1000:r:0;p%d=0;c500:r:1;c0:r:2" % si, "stable input switched off while input is deferred, then more input"),
                       ("c1000:r:0;p%d=0;fr;er" % si, "stable input switched off while input is deferred, then the wrappers"),
                       ("c1000:r:0;p%d=1;p%d=5;fr;er" % (PID["checksum"], PID["level"]), "other parameters changed while input is deferred")):
        out.append(dict(x=x, params={"stableIn": 1}, ops=tail, extra="", mt=False, kind="targeted", desc=what))
    for tail in ("c5000:r:0;f3;fr;er", "c1000:r:0;fr;er", "c1000:r:0;R;c10:r:2", "c5000:r:0;f3;c100:r:0;fr;er"):
        for nb in (1, 2):
            out.append(dict(x=x, params={"stableIn": 1, "nbWorkers": nb, "jobSize": 1, "windowLog": 10}, ops=tail, extra="", mt=True, kind="targeted",
                            desc="multithreaded: " + tail))
    # KEY_W4 (repaired by 9a6b24a): a frame started by a wrapper in stable-input mode, then the caller's real buffer
    out.append(dict(x=x, params={"stableIn": 1}, ops="fr;c1000:r:0;er", extra="", mt=False, kind="targeted", desc="flushStream before the first input (stable input)"))
    out.append(dict(x=x, params={"stableIn": 1}, ops="e1;e1;c1000:r:2", extra="", mt=False, kind="targeted", desc="endStream in pieces, then compressStream2 (stable input)"))
    # round 3: second doors of 9a6b24a - the wrapper-started frame continues with every entry point, tiny rooms, several frames, workers
    for tail in ("s0:r;fr;s1:r;er", "fr;s1000:r;f3;fr;er", "f0;c5000:r:0;f3;fr;er", "fr;c5000:3:0;f3;c100:r:0;f1;fr;e3;er",
                 "fr;c1000:r:1;er;fr;c1000:r:0;er", "c10:r:2;fr;s100:r;fr;s100:r;e3;e3;er", "e1;er;fr;c1000:r:0;fr;er",
                 "fr;R;fr;c1000:r:0;er", "f0;f0;e0;s1000:r;er"):
        for extra in ({}, {"windowLog": 10}, {"windowLog": 10, "nbWorkers": 1, "jobSize": 1}, {"nbWorkers": 2, "jobSize": 1}):
            out.append(dict(x=x, params=dict({"stableIn": 1}, **extra), ops=tail, extra="", mt=bool(extra.get("nbWorkers")), kind="targeted",
                            desc="frame started by a wrapper in stable-input mode: " + tail))
    return out


def api_cases(rng, n, mt):
    cases = []
    sizes = [0, 1, 2, 100, 1000, 1023, 1024, 1025, 2048, 3000, 5000, 9000, 20000, 40000]
    for i in range(n):
        size = rng.choice(sizes) if i >= 3 else rng.choice([131072, 140000, 300000])
        kind = rng.choice(codec.KINDS)
        x = codec.gen_input(rng, kind, size)
        p = {"level": rng.choice([1, 1, 2, 3, 4, 5, -1])}
        if rng.random() < 0.6:
            p["windowLog"] = rng.choice([10, 10, 11, 12, 14, 17])
        if rng.random() < 0.4:
            p["checksum"] = 1
        if rng.random() < 0.2:
            p["contentSize"] = 0
        if rng.random() < 0.15:
            p["maxBlockSize"] = rng.choice([1024, 1025, 2000, 4096])
        if rng.random() < 0.1:
            p["format"] = 1
        if rng.random() < 0.1:
            p["targetCBlockSize"] = rng.choice([1340, 2000])
        r = rng.random()
        if r < 0.35:
            p["stableIn"] = 1
        elif r < 0.45:
            p["stableOut"] = 1
        elif r < 0.5:
            p["stableIn"] = 1
            p["stableOut"] = 1
        if mt:
            p["nbWorkers"] = rng.choice([1, 2, 3])
            if rng.random() < 0.7:
                p["jobSize"] = 1
            if rng.random() < 0.3:
                p["rsyncable"] = 1
            if rng.random() < 0.3:
                p["ldm"] = 1
            if rng.random() < 0.3:
                p["overlapLog"] = rng.choice([1, 5, 9])
        elif rng.random() < 0.1:
            p["ldm"] = 1
        extra = ""
        if rng.random() < 0.12:
            extra = " dict=%s" % codec.hx(codec.gen_input(rng, kind, rng.choice([8, 100, 3000])))
        cases.append(dict(x=x, params=p, ops=api_ops(rng, bool(p.get("stableIn"))), extra=extra, mt=mt, kind=kind, desc=""))
    return cases


def api_frame_init(recs, i):
    """index of the call that initialised the frame record i belongs to (first record after the previous frame end / reset)"""
    j = i
    while j > 0 and not (recs[j - 1]["kind"] == "R" or (recs[j - 1]["dir"] == 2 and st.norm_ret(recs[j - 1]["ret"]) == 0 and recs[j - 1]["kind"] in "ce")):
        j -= 1
    return j


def api_key(recs, i):
    """stable key of the finding a violation at record i belongs to (None: unclassified)"""
    if any(r["kind"] == "R" and r["notConsumed"] > 0 for r in recs[:i + 1]):
        return KEY_W2
    if any(r["kind"] in "csfe" and r["streamStage"] != 0 and r["appliedSI"] == 0 and not r["appliedNbWorkers"] and r["notConsumed"] > 0
           for r in recs[:i + 1]) or (recs[i]["kind"] in "csfe" and isinstance(st.norm_ret(recs[i]["ret"]), tuple)
                                      and recs[i]["appliedSI"] == 0 and recs[i]["notConsumed"] > 0 and recs[i]["streamStage"] != 0):
        return KEY_W5      # a frame initialised in buffered mode while stable-input bytes were still owed
    f0 = api_frame_init(recs, i)
    for j in range(f0, i + 1):
        r = recs[j]
        if r["kind"] in "fe" and r["view"] == 0 and j > 0 and recs[j - 1]["notConsumed"] > 0:
            return KEY_W1
    for j in range(f0, i + 1):
        r = recs[j]
        if (r["kind"] in "fe" and r["view"] == 1 and not isinstance(st.norm_ret(r["ret"]), tuple) and r["streamStage"] != 0
                and r["appliedSI"] and r["expPos"] + r["notConsumed"] < r["ipos"]):
            return KEY_W3
    # a frame initialised by a wrapper that presented the null input, in stable-input mode
    for k in range(f0, i + 1):
        r = recs[k]
        if r["kind"] not in "csfe" or isinstance(st.norm_ret(r["ret"]), tuple):
            continue
        if r["streamStage"] != 0 or (r["dir"] == 2 and st.norm_ret(r["ret"]) == 0):      # this call initialised the frame
            if r["kind"] in "fe" and r["view"] == 0 and r["appliedSI"] == 1:
                return KEY_W4
            break
    return None


def api_oracles(c, recs):
    """part (a) and (b) of the statement on the observed calls -> [(record index, text)]"""
    bad = []
    p = c["params"]
    for i, r in enumerate(recs):
        ret = st.norm_ret(r["ret"])
        name = {"c": "ZSTD_compressStream2", "s": "ZSTD_compressStream", "f": "ZSTD_flushStream", "e": "ZSTD_endStream", "p": "ZSTD_CCtx_setParameter",
                "R": "ZSTD_CCtx_reset", "t": "ZSTD_toFlushNow"}.get(r["kind"], r["kind"])
        if isinstance(ret, tuple):
            if r["kind"] == "p":
                continue
            legit = (any(x["kind"] != "p" and x.get("so") for x in ()) or False)
            so = bool(p.get("stableOut"))
            if not (so and ret[1] == "dstSize_tooSmall"):
                bad.append((i, "%s failed with %s in a legal history" % (name, ret[1])))
            break
        held0 = recs[i - 1]["notConsumed"] if i > 0 else 0
        if (r["kind"] in "cs" and r["offered"] > 0 and r["cap"] > 0 and r["consumed"] <= 0 and r["produced"] == 0
                and r["consumed"] + held0 - r["notConsumed"] <= 0):
            bad.append((i, "%s (directive %d) was offered %d byte(s) and %d byte(s) of output room but neither consumed nor produced"
                        % (name, r["dir"], r["offered"], r["cap"])))
        if r["kind"] in "cfe" and r["dir"] in (1, 2) and ret != 0 and r["produced"] != r["cap"]:
            bad.append((i, "%s (directive %d) returned %d (not complete) although it left %d of %d byte(s) of output room unused"
                        % (name, r["dir"], ret, r["cap"] - r["produced"], r["cap"])))
        if r["dec"] == 0:
            bad.append((i, "%s reported %s complete at call %d, but libzstd regenerates %d byte(s) from the %d byte(s) emitted for this frame while %d byte(s) were consumed in it"
                        % (name, "the flush" if r["dir"] == 1 else "the frame", i, r["declen"], r["opos"] - r["fout"], r["ipos"] - r["fin"])))
        if r["kind"] == "s" and not r["appliedNbWorkers"] and ret > BLOCKSIZE_MAX + 1:
            bad.append((i, "ZSTD_compressStream returned the input size hint %d: larger than a block" % ret))
        if i + 1 < len(recs) and r["toFlushNow"] > 0 and r["streamStage"] != 0 and r["kind"] != "R":
            n = recs[i + 1]
            if n["kind"] in "csfe" and not isinstance(st.norm_ret(n["ret"]), tuple) and n["produced"] < min(r["toFlushNow"], n["cap"]):
                bad.append((i + 1, "ZSTD_toFlushNow announced %d byte(s) ready to be flushed, the next call (%d byte(s) of room) produced %d"
                            % (r["toFlushNow"], n["cap"], n["produced"])))
    return bad


def run_api(ctx, exe, cases, tag, maxcalls=30000):
    for i, c in enumerate(cases):
        c["id"] = "%s%d" % (tag, i)
    lines = ["A %s %s %s %s%s" % (c["id"], codec.params_str(c["params"]), codec.hx(c["x"]), c["ops"], c["extra"]) for c in cases]
    out, errs = st.run_lines(exe, lines, timeout=240)
    if errs:
        for e in errs[:3]:
            ctx.violation(dict(kind="api-history", line=e.get("first_unanswered", "")[:200000], rc=e.get("rc"), stderr=e.get("stderr", "")[-600:]),
                          what="c10_api crashed or did not terminate within 240 s (rc %s) - first unanswered history: %s"
                               % (e.get("rc"), e.get("first_unanswered", "")[:160]))
    nviol = nflush = 0
    hist = {}
    prog_notes = 0
    for c in cases:
        r = out.get(c["id"])
        c["arecs"] = None
        if r is None:
            continue
        rep = dict(kind="api-history", params=c["params"], ops=c["ops"], extra=c["extra"].strip(), input_hex=c["x"].hex()[:200000], desc=c.get("desc", ""),
                   smalljob=bool(c.get("smalljob")))
        if not r.startswith("OK "):
            ctx.violation(dict(rep, result=r[:300]), what="API history: parameter setup failed: %s (%s)" % (r[:100], c["params"]))
            nviol += 1
            continue
        t = r.split(" ")
        c["aout"] = codec.unhx(t[1])
        recs = c["arecs"] = parse_arecords(t[2] if len(t) > 2 else "-")
        rep["calls"] = ["%(kind)s:%(offered)d:%(cap)d:%(dir)d->%(consumed)d:%(produced)d:%(ret)s" % x for x in recs][:400]
        bad = api_oracles(c, recs)
        if len(recs) >= maxcalls:
            bad.append((len(recs) - 1, "the history did not finish within %d calls" % maxcalls))
        seen = set()
        for i, text in bad:
            key = api_key(recs, min(i, len(recs) - 1))
            if key in seen:
                continue
            seen.add(key)
            nviol += 1
            mtag = "nbWorkers=%d%s" % (c["params"]["nbWorkers"], ", 4 KiB jobs" if c.get("smalljob") else "") if c["params"].get("nbWorkers") else "single-threaded"
            ctx.violation(dict(rep, call=i), what="streaming API history (%s, params %s, ops %s%s): %s"
                          % (mtag, c["params"], c["ops"][:100], (" - " + c["desc"]) if c.get("desc") else "", text), key=key)
        nflush += sum(1 for x in recs if x["dec"] == 1)
        for x in recs:
            if x["fp_consumed"] > x["fp_ingested"] or x["fp_flushed"] > x["fp_produced"]:
                prog_notes += 1
            k = "%s/dir%d/%s" % (x["kind"], x["dir"], "mt" if x["appliedNbWorkers"] else "st")
            hist[k] = hist.get(k, 0) + 1
        sig = set()
        for x in recs:
            ret = st.norm_ret(x["ret"])
            sig.add((x["kind"], x["dir"], "E" if isinstance(ret, tuple) else str(min(ret, 1)), x["streamStage"], x["view"], x["appliedSI"], x["appliedNbWorkers"] > 0,
                     x["notConsumed"] > 0, x["consumed"] < 0, x["produced"] == 0, x["dec"]))
        ctx.count(("A", tag, tuple(sorted(sig))), nontrivial=len(recs) > 1)
        ctx.cov["traces_validated_against_impl"] += 1
        if len(c["x"]) <= 100 and len(recs) < 10:
            ctx.sample(dict(kind="api-history", params=c["params"], ops=c["ops"], input_hex=c["x"].hex(), calls=rep["calls"]))
    if prog_notes:
        ctx.notes["frame_progression_inconsistent_records"] = ctx.notes.get("frame_progression_inconsistent_records", 0) + prog_notes
    return hist, nflush, nviol


MFIELDS_A = ["view", "consumed", "produced", "ret", "streamStage", "inBuffPos", "inToCompress", "inBuffTarget", "outBuffContentSize",
             "outBuffFlushedSize", "frameEnded", "notConsumed", "blockSize", "inBuffSize", "outBuffSize", "hint", "apos", "asize", "anull", "epos"]
PFLAGS = {codec.P["stableIn"]: "si", codec.P["stableOut"]: "so", codec.P["format"]: "ml"}


def api_lockstep(ctx, cd, rexe, cases, budget_bytes):
    """the same API-level history on the extracted model of the entry points (coq/Stream/C10Api.v: a_call / a_stream /
    a_flushStream / a_endStream / a_reset around the tape block compressor) - single-threaded histories whose output is a
    sequence of complete frames.  Compared per call: what inBuffer_forEndFlush decides (view), consumed, produced, return value,
    the private buffering fields, stableIn_notConsumed, the input size hint, and expectedInBuffer.pos / .size.
    Round 3: the calls of the model go through the stability layer (coq/Stream/C10Stab.v): the model's own record of
    expectedInBuffer.pos is compared too, and a call the model of ZSTD_checkBufferStability refuses shows as a difference on ret"""
    elig, rcases = [], []
    for c in cases:
        recs = c.get("arecs")
        if not recs or any(r["appliedNbWorkers"] for r in recs) or c["params"].get("nbWorkers"):
            continue
        if any(r["kind"] == "R" and j > 0 and recs[j - 1]["streamStage"] != 0 for j, r in enumerate(recs)):
            continue        # a frame abandoned after its initialisation leaves the block-size tape of the real output unaligned
        last = recs[-1]
        if isinstance(st.norm_ret(last["ret"]), tuple) or not (last["dir"] == 2 and st.norm_ret(last["ret"]) == 0):
            continue
        if len(c["aout"]) > 60000 or len(c["aout"]) > budget_bytes or "dict=" in c["extra"]:
            continue
        budget_bytes -= len(c["aout"])
        elig.append(c)
        ml = bool(c["params"].get("format"))
        rcases.append((c["id"], ",".join((["magicless"] if ml else []) + ["nostrict"]), None, c["aout"]))
    if not elig:
        return 0, 0
    mres = cd.model(rcases)
    lines = []
    for c in elig:
        m = mres.get(c["id"], ("ERR", "missing", -1))
        if m[0] != "OK":
            ctx.violation(dict(kind="api-history", params=c["params"], ops=c["ops"], extra=c["extra"].strip(), input_hex=c["x"].hex()[:200000],
                               decoder="R", result=str(m[:2])[:200]),
                          what="reference decoder R rejects the output of a completed API history (%s; params %s, ops %s)" % (m[1], c["params"], c["ops"][:100]))
            continue
        tape = cc.tape_of_trace(codec.parse_trace(m[2]))
        if tape is None:
            continue
        # the requested parameters at every call (ZSTD_CCtx_setParameter ops that were accepted change them)
        req = dict((codec.P[k] if isinstance(k, str) else k, v) for k, v in c["params"].items())
        pops = [o for o in c["ops"].split(";") if o]
        calls, krecs = [], []
        opi = 0
        for r in c["arecs"]:
            if r["kind"] == "p":
                # find the matching op text: p ops appear in order
                while opi < len(pops) and not pops[opi].startswith("p"):
                    opi += 1
                if opi < len(pops):
                    pid, v = pops[opi][1:].split("=")
                    opi += 1
                    if not isinstance(st.norm_ret(r["ret"]), tuple):
                        req[int(pid)] = int(v)
                continue
            if r["kind"] == "t":
                continue
            fl = "+".join(f for pid, f in PFLAGS.items() if req.get(pid)) or "-"
            calls.append("%s:%d:%d:%d:%d:%d:%s:%d" % (r["kind"], r["offered"], r["cap"], max(r["dir"], 0), r["windowLog"], r["maxBlockSize"], fl, r["checksum"]))
            krecs.append(r)
        c["krecs"] = krecs
        lines.append("W %s %s %s %s %s" % (c["id"], codec.hx(c["x"]), ";".join(calls) or "-", codec.hx(c["aout"]), tape))
    out, errs = st.run_lines(rexe, lines, big_stack=True) if lines else ({}, [])
    if errs:
        ctx.violation(dict(kind="model-crash", detail=errs[:2]), what="the extracted API model crashed: %r" % (errs[0],), no_input=True)
    nok = ndiff = 0
    for c in elig:
        if "krecs" not in c:
            continue
        m = out.get(c["id"])
        rep = dict(kind="api-history", params=c["params"], ops=c["ops"], extra=c["extra"].strip(), input_hex=c["x"].hex()[:200000], desc=c.get("desc", ""))
        if m is None or not m.startswith("OK "):
            ctx.violation(dict(rep, model=str(m)[:300]), what="the extracted API model gave no result (%s)" % (str(m)[:120],), no_input=True)
            ndiff += 1
            continue
        t = m.split(" ")
        mrecs = []
        for x in t[1].split(";"):
            if x:
                d = {}
                for k, v in zip(MFIELDS_A, x.split(":")):
                    d[k] = v if k == "ret" else int(v)
                mrecs.append(d)
        diff = None
        for i, (r, mr) in enumerate(zip(c["krecs"], mrecs)):
            fields = ["view", "produced", "ret", "streamStage", "inBuffPos", "inToCompress", "inBuffTarget", "outBuffContentSize",
                      "outBuffFlushedSize", "frameEnded", "notConsumed", "blockSize", "inBuffSize", "outBuffSize", "hint"]
            if r["kind"] in "cs":
                fields.append("consumed")
            prev_null = mrecs[i - 1]["anull"] if i > 0 else 1
            for f in fields:
                a, b = r[f], mr[f]
                if f == "view" and prev_null:
                    b = 0       # the harness cannot tell the recorded all-zero buffer from {NULL,0,0}
                if f == "ret":
                    a, b = st.norm_ret(a), st.norm_ret(b)
                    if isinstance(a, tuple) and isinstance(b, tuple):
                        a, b = a[1], b[1]
                if a != b:
                    diff = (i, f, r[f], mr[f])
                    break
            if diff is None and not mr["anull"] and not isinstance(st.norm_ret(r["ret"]), tuple) and (
                    (r["appliedSI"] and r["streamStage"] != 0) or r["notConsumed"] > 0):
                if r["expPos"] != mr["apos"]:
                    diff = (i, "expectedInBuffer.pos", r["expPos"], mr["apos"])
                elif r["expPos"] != mr.get("epos", r["expPos"]):       # round 3: the position the model of C10Stab.v records
                    diff = (i, "expectedInBuffer.pos (recorded by the model)", r["expPos"], mr["epos"])
                elif r["expSize"] != mr["asize"]:
                    diff = (i, "expectedInBuffer.size", r["expSize"], mr["asize"])
            if diff is None and mr["anull"] and "epos" in mr and not isinstance(st.norm_ret(r["ret"]), tuple) and r["appliedSI"] and r["streamStage"] != 0 \
                    and r["kind"] in "fe" and r["expPos"] != mr["epos"]:
                diff = (i, "expectedInBuffer.pos (frame started by a wrapper)", r["expPos"], mr["epos"])
            if diff is not None:
                break
        if diff is None and len(mrecs) != len(c["krecs"]):
            diff = (min(len(mrecs), len(c["krecs"])), "number-of-calls", len(c["krecs"]), len(mrecs))
        if diff is None and "bad=1" in m:
            diff = (len(mrecs), "chunk-alignment", "blocks of the real output", "do not regenerate the chunks the model hands to the block compressor")
        if diff is not None:
            ndiff += 1
            i = diff[0]
            if ndiff <= 5:
                core.log("API lock-step difference: call %d field %s implementation %s model %s (params %s, ops %s)" % (i, diff[1], diff[2], diff[3], c["params"], c["ops"][:160]))
            ctx.violation(dict(rep, first_difference=dict(call=i, field=diff[1], implementation=diff[2], model=diff[3]),
                               impl_call=c["krecs"][i] if i < len(c["krecs"]) else None, model_call=mrecs[i] if i < len(mrecs) else None),
                          what="the streaming entry points and their model (C10Api.v) disagree at call %d (%s) on %s: implementation %s, model %s (params %s, ops %s)"
                               % (i, c["krecs"][i]["kind"] if i < len(c["krecs"]) else "-", diff[1], diff[2], diff[3], c["params"], c["ops"][:100]),
                          no_input=True, key=api_key(c["arecs"], min(c["arecs"].index(c["krecs"][i]) if i < len(c["krecs"]) else len(c["arecs"]) - 1, len(c["arecs"]) - 1)))
        else:
            nok += 1
            ctx.cov["traces_validated_against_impl"] += 1
    return nok, ndiff

# ---------------------------------------------------------------------------------------------

def sanitizer_pass(ctx, hint_cases_, comp_cases, api_cases_=()):
    """thorough tier, supporting test: the same histories on ASan+UBSan builds of the three harnesses; a trap is reported"""
    hs = core.build_harness("c10_hints", ["c10_hints.c"], variant="asan", extra_flags=["-w"])
    ks = core.build_harness("c02_stream", ["c02_stream.c"], variant="asan", extra_flags=["-w"])
    as_ = core.build_harness("c10_api", ["c10_api.c"], variant="asan", extra_flags=["-w"])
    al = ["A %s %s %s %s%s" % (c["id"], codec.params_str(c["params"]), codec.hx(c["x"]), c["ops"], c["extra"]) for c in api_cases_]
    hl = ["H %s %s %s %d %s %d 300000" % (c["id"], st.dflags_str(c["flags"]), codec.hx(c["stream"]["frame"] + c["follow"]), len(c["stream"]["frame"]),
                                         c["mode"], c["cap"]) for c in hint_cases_]
    kl = []
    for c in comp_cases:
        l = "Y %s %s %s %s" % (c["id"], codec.params_str(c["params"]), codec.hx(c["x"]), c["ops"])
        if c["pledged"] is not None:
            l += " %d" % c["pledged"]
        kl.append(l)
    n = 0
    for exe, lines, what in ((hs, hl, "c10_hints"), (ks, kl, "c02_stream"), (as_, al, "c10_api")):
        out, errs = st.run_lines(exe, lines, timeout=900)
        for e in errs:
            n += 1
            ctx.violation(dict(kind="sanitizer", harness=what, detail=e), what="ASan/UBSan build of %s trapped or crashed: %s" % (what, str(e.get("stderr", ""))[-300:]))
    ctx.notes["sanitizer_histories"] = len(hl) + len(kl) + len(al)
    return n


def api_exes():
    return (core.build_harness("c10_api", ["c10_api.c"], variant="o1", extra_flags=["-w"]),
            core.build_harness("c10_api_smalljob", ["c10_api.c"], variant="o1", extra_defs=["-DZSTDMT_JOBSIZE_MIN=4096"], extra_flags=["-w"]))


def replay(ctx, tie, cd, hexe):
    obj = json.load(open(ctx.replay_file))
    rp = obj.get("replay", {})
    kind = rp.get("kind")
    core.log("replaying %s (%s)" % (ctx.replay_file, kind))
    if kind == "hint-history":
        s = dict(frame=bytes.fromhex(rp["frame_hex"]), content=bytes.fromhex(rp.get("content_hex", "")), parts=[tuple(p) for p in rp["parts"]],
                 magicless=bool(rp["flags"].get("ml")), desc=rp.get("desc", "replay"))
        run_hints(ctx, tie, hexe, [dict(id="h0", stream=s, mode=rp["mode"], cap=rp["cap"], flags=rp["flags"], follow=bytes.fromhex(rp.get("follow_hex", "")))])
    elif kind == "decoder-history":
        f = bytes.fromhex(rp["frame_hex"])
        out, _ = cd.impl(["D r oneshot - - %s %d" % (codec.hx(f), 1 << 24)])
        r = codec.parse_ok(out.get("r", "ERR missing"))
        content = r[1] if r[0] == "OK" else b""
        s = dict(frame=f, content=content, parts=rp.get("parts") or [(len(f), len(content))], magicless=bool(rp["flags"].get("ml")), desc=rp.get("desc", "replay"))
        cases = [dict(id="d0", stream=s, ops=rp["ops"], flags=rp["flags"], maxcalls=60000)]
        cc.run_decoder_lockstep(ctx, tie, cases, prop="C10")
        decoder_post(ctx, cases)
    elif kind == "api-history" and "params" in rp:
        aexe, aexe_sj = api_exes()
        c = dict(x=bytes.fromhex(rp["input_hex"]), params=rp["params"], ops=rp["ops"], extra=(" " + rp["extra"]) if rp.get("extra") else "",
                 mt=bool(rp["params"].get("nbWorkers")), kind="replay", desc=rp.get("desc", ""), smalljob=bool(rp.get("smalljob")))
        run_api(ctx, aexe_sj if c["smalljob"] else aexe, [c], "r")
    elif kind == "compress-history":
        c = dict(id="k0", x=bytes.fromhex(rp["input_hex"]), params=rp["params"], ops=rp["ops"], pledged=rp.get("pledged"), kind="replay",
                 mt=bool(rp["params"].get("nbWorkers")))
        cc.run_compressor_lockstep(ctx, tie, cd, [c])
        compressor_post(ctx, tie, [c], random.Random(1))
    else:
        core.log("nothing to re-execute for this replay kind; running the whole check")
        return False
    return True


class C10Tie(st.Tie):
    """a livelocked / deadlocked library call must not stall the check: harness batches are killed after 4 minutes and the
    first unanswered command line is reported.  [smalljob]: the library is built with -DZSTDMT_JOBSIZE_MIN=4096 (the header
    says "a different value can be selected at compile time"), so that multithreaded histories of a few kB keep several
    jobs in flight; the default build (512 KB jobs) sees one job per flush"""

    def __init__(self, ctx, smalljob=False):
        st.Tie.__init__(self, ctx)
        if smalljob:
            self.h = core.build_harness("c02_stream_smalljob", ["c02_stream.c"], variant="o1", extra_defs=["-DZSTDMT_JOBSIZE_MIN=4096"],
                                        extra_flags=["-w"])

    def impl(self, lines, **kw):
        kw.setdefault("timeout", 240)
        return st.run_lines(self.h, lines, **kw)


MAX_LISTED = 60


def limit_violations(ctx):
    """a broken tree can make hundreds of histories fail for one reason: list the first MAX_LISTED, count the rest"""
    orig = ctx.violation

    def limited(replay, what="", no_input=False, key=None):
        if len(ctx.violations) >= MAX_LISTED:
            ctx.notes["violations_not_listed"] = ctx.notes.get("violations_not_listed", 0) + 1
            return False
        return orig(replay, what=what, no_input=no_input, key=key)
    ctx.violation = limited


def run(ctx):
    rng = random.Random(ctx.seed)
    quick = ctx.quick
    limit_violations(ctx)
    ctx.prove()
    core.log("proof step done at %.0fs" % (time.time() - ctx.t0))
    cd = codec.Codec(ctx)
    tie = C10Tie(ctx)
    hexe = core.build_harness("c10_hints", ["c10_hints.c"], variant="o1", extra_flags=["-w"])
    if ctx.replay_file and replay(ctx, tie, cd, hexe):
        return
    ctx.cov["rule"] = (
        "cases = call histories executed on the real library rebuilt from the working tree and on the extracted models. "
        "H: hint-following readers (decompressStream by return value with large and tiny output room, decompressContinue by nextSrcSizeToDecompress) "
        "over library-made frames (levels -5..6, window logs 10..12, checksum, magicless, maxBlockSize, targetCBlockSize), hand-made frames (raw/RLE/empty blocks, "
        "every header form, empty last block) and multi-frame streams with skippable frames of payload 0..2000, always with bytes following the last frame; "
        "D: decoding histories of the C02 lock-step with the hint bound evaluated after every call; K/KMT: compression histories (flush at chosen buffer fill "
        "levels, tiny output room, several frames, stable buffers; KMT = nbWorkers 1..3, jobSize minimal) with per-call progress, fills-output-or-completes, "
        "flush prefixes decoded by libzstd and by the reference decoder; A: API-level histories (ZSTD_compressStream2 / ZSTD_compressStream / ZSTD_flushStream / "
        "ZSTD_endStream mixed, parameter changes between frames, ZSTD_CCtx_reset inside a frame, stable buffers, dictionary, nbWorkers 0..3 with rsyncable / LDM / "
        "overlapLog, default and 4 KiB-job builds) with per-call progress, fills-output-or-completes, every completed flush / end decoded by libzstd. Signature = set of (stage, directive, return class, progress pattern) tuples; "
        "non-trivial = more than one call")
    # ---- part (c)
    n_lib, n_hand, n_multi = (40, 40, 10) if quick else (200, 200, 40)
    streams = cc.build_streams(ctx, rng, cd, n_lib, n_hand, n_multi)
    streams = [s for s in streams if len(s["frame"]) > 0]
    sp = special_streams(rng)
    mult = multi_streams(rng, streams + sp, 25 if quick else 150)
    hstreams = sp + mult + streams + legacy_streams() + legacy_handmade(random.Random(ctx.seed * 7919 + 3), 24 if quick else 150)
    hc = hint_cases(rng, hstreams, quick)
    rexe = core.build_extracted("c10model", "Extract/Extract_C10.v", "c10_driver.ml")
    hhist, hv = run_hints(ctx, tie, hexe, hc, rexe)
    core.log("hint-following histories: %d, violations %d (%.0fs)" % (len(hc), hv, time.time() - ctx.t0))
    # ---- decoder progress / hint bound on arbitrary segmentations (C02 lock-step + C10 oracles)
    dstreams = sp[:7] + mult + streams[: (40 if quick else 400)]
    dcases = cc.decoder_cases(ctx, rng, dstreams, 2 if quick else 4)
    dhist, dv = cc.run_decoder_lockstep(ctx, tie, dcases, prop="C10")
    dv += decoder_post(ctx, dcases)
    core.log("decoder histories: %d, violations %d (%.0fs)" % (len(dcases), dv, time.time() - ctx.t0))
    ctx.notes["decoder_stage_histogram"] = dict(dhist, **hhist)
    # ---- parts (a), (b)
    kc = c10_compressor_cases(ctx, rng, 90 if quick else 600)
    khist = cc.run_compressor_lockstep(ctx, tie, cd, kc)
    nfl, kv = compressor_post(ctx, tie, kc, rng)
    mc = c10_compressor_cases(ctx, rng, 40 if quick else 300, mt=True)
    cc.run_compressor_lockstep(ctx, tie, cd, mc)
    nfl2, kv2 = compressor_post(ctx, tie, mc, rng)
    # the same kind of histories on the small-job build: several jobs in flight at every flush
    tie_sj = C10Tie(ctx, smalljob=True)
    tie_sj._m = tie._m
    ms = c10_compressor_cases(ctx, rng, 40 if quick else 300, mt=True)
    for c in ms:
        c["id"] = "s" + c["id"][1:]
        c["params"]["jobSize"] = 1
        c["params"].setdefault("windowLog", 10)
        if len(c["x"]) < 9000:
            c["x"] = c["x"] + codec.gen_input(rng, c["kind"], rng.choice([9000, 20000, 40000]))
            c["pledged"] = None       # the pledge was the old size: a wrong pledge is not a legal history
    cc.run_compressor_lockstep(ctx, tie_sj, cd, ms)
    nfl3, kv3 = compressor_post(ctx, tie, ms, rng)
    nfl2, kv2 = nfl2 + nfl3, kv2 + kv3
    mc = mc + ms
    nflush = sum(len(c.get("flushpoints", [])) for c in kc + mc)
    ctx.notes["compressor_histogram"] = khist
    ctx.notes["flush_points"] = dict(decoded_by_libzstd=nflush, decoded_by_reference_decoder=nfl + nfl2,
                                     multithreaded=sum(len(c.get("flushpoints", [])) for c in mc))
    core.log("compressor histories: %d single-threaded + %d multithreaded, flush points %d, violations %d (%.0fs)" % (len(kc), len(mc), nflush, kv + kv2, time.time() - ctx.t0))

    # ---- parts (a), (b) at the level of the public entry points (wrappers, parameter changes, abandoned frames)
    aexe, aexe_sj = api_exes()
    ta = api_targeted()
    a_st = ta + api_cases(rng, 120 if quick else 900, False)
    a_mt = api_cases(rng, 60 if quick else 450, True)
    a_sj = [dict(c, smalljob=True) for c in ta if c["mt"]] + [dict(c, smalljob=True) for c in api_cases(rng, 60 if quick else 450, True)]
    ahist, afl, av = run_api(ctx, aexe, a_st, "a")
    h2, f2, v2 = run_api(ctx, aexe, a_mt, "am")
    h3, f3, v3 = run_api(ctx, aexe_sj, a_sj, "as")
    for h in (h2, h3):
        for k, v in h.items():
            ahist[k] = ahist.get(k, 0) + v
    lk_ok, lk_diff = api_lockstep(ctx, cd, rexe, a_st, 1200000 if quick else 8000000)
    ctx.notes["api_lockstep"] = dict(histories_in_lockstep_with_C10Api_model=lk_ok, differences=lk_diff)
    ctx.notes["api_histogram"] = ahist
    ctx.notes["flush_points"]["api_flush_and_end_points_decoded_by_libzstd"] = afl + f2 + f3
    core.log("API histories: %d single-threaded + %d multithreaded + %d multithreaded with 4 KiB jobs, %d completed flush/end points decoded, violations %d; "
             "%d histories in lock-step with the C10Api model, %d differences (%.0fs)"
             % (len(a_st), len(a_mt), len(a_sj), afl + f2 + f3, av + v2 + v3, lk_ok, lk_diff, time.time() - ctx.t0))

    if not quick:
        sv = sanitizer_pass(ctx, hc, kc + mc[: len(mc) - len(ms)], a_st + a_mt)
        core.log("sanitizer pass: %d traps (%.0fs)" % (sv, time.time() - ctx.t0))

    def search(broken):
        # every direct oracle of the property has just been evaluated on the real code; its hits are already reported
        return []
    ctx.proof_verdict(search)
