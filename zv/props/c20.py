"""C20 - seekable format (contrib/seekable_format): any byte range reads back exactly.

Decision: Coq theorems on the Gallina models coq/Seek/{SeekTable,SeekReader,SeekWriter}.v (Properties_C20.v),
tied to the current /repo on every run by
  (T) constants regenerated into coq/Gen/Gen_Seek.v (harness/c20_dump.c),
  (C) lock-step differential runs: the real zstdseek_*.c (harness/c20_seek.c, which records every inner
      libzstd streaming call) against the extracted model driven by those recorded results as its oracle,
and by the property's direct oracle executed on the real code (every read == slice of x, a plain libzstd
multi-frame decode regenerates x, archive = frames || seek table, accessors consistent with the frame log,
corruptions: no sanitizer report, error-or-right-data where a checksum covers the read).
Differential testing / sanitizers support the tie and the search; they do not replace the theorems.
"""
import os
import random
import resource
import struct
import zlib

from .. import core, gen

PID = "C20"
M64 = 1 << 64
M32 = 1 << 32
MAX_VIOL = 6


# ----------------------------------------------------------------------------- small helpers
def kv(line):
    """'cmd a b k=v k2=v2' -> (cmd, [positional], {k: v})"""
    toks = line.split()
    pos, d = [], {}
    for t in toks[1:]:
        if "=" in t:
            k, v = t.split("=", 1)
            d[k] = v
        else:
            pos.append(t)
    return (toks[0] if toks else ""), pos, d


def norm_ret(v):
    """model prints raw size_t values; C prints E<code> for errors"""
    if isinstance(v, str) and v.startswith("E"):
        return v
    v = int(v)
    if v > M64 - 121:
        return "E%d" % (M64 - v)
    return str(v)


def gen_content(rng, n, kind):
    if kind == "zero":
        return bytes(n)
    if kind == "rand":
        return bytes(rng.getrandbits(8) for _ in range(n))
    if kind == "count":
        return bytes((i * 7 + 3) & 0xFF for i in range(n))
    # text-like: compressible, with repeats
    words = [bytes(rng.choice(b"abcdefghijklmnopqrstuvwxyz ") for _ in range(rng.randint(2, 9))) for _ in range(40)]
    out = bytearray()
    while len(out) < n:
        out += rng.choice(words)
    return bytes(out[:n])


def cum(log):
    c = d = 0
    cs, ds = [0], [0]
    for (a, b, _k) in log:
        c += a
        d += b
        cs.append(c)
        ds.append(d)
    return cs, ds


def seek_table_bytes_py(cf, log):
    """independent python serialisation (third opinion next to the model and the code)"""
    out = struct.pack("<II", 0x184D2A5E, (12 if cf else 8) * len(log) + 9)
    for (c, d, k) in log:
        out += struct.pack("<II", c, d)
        if cf:
            out += struct.pack("<I", k)
    out += struct.pack("<IB", len(log), 0x80 if cf else 0) + struct.pack("<I", 0x8F92EAB1)
    return out


class Fail(Exception):
    pass


# ----------------------------------------------------------------------------- the tie
class Tie:
    def __init__(self, ctx, rng):
        self.ctx = ctx
        self.rng = rng
        self.inc = [os.path.join(core.REPO, "contrib", "seekable_format")]
        self.hx = core.build_harness("c20_seek", ["c20_seek.c"], variant="o1", extra_inc=self.inc)
        self.mx = core.build_extracted("c20model", "Extract/Extract_C20.v", "c20_driver.ml")
        self._asan = None
        import threading
        self._lock = threading.Lock()
        self.nfile = 0
        self.nviol = 0
        self.keys_seen = set()
        self.hist = {"mfs": {}, "size": {}, "mode": {}, "reads": 0, "corruptions": 0, "archives": 0}

    # -- plumbing
    def asan(self):
        if self._asan is None:
            self._asan = core.build_harness("c20_seek", ["c20_seek.c"], variant="asan", extra_inc=self.inc)
        return self._asan

    def path(self, name):
        return os.path.join(self.ctx.scratch, name)

    def blob(self, data, suffix="bin"):
        with self._lock:
            self.nfile += 1
            n = self.nfile
        p = self.path("b%05d.%s" % (n, suffix))
        with open(p, "wb") as f:
            f.write(data)
        return p

    def run_c(self, text, exe=None, timeout=600, linebuf=False):
        p = self.blob(text.encode(), "case")
        env = dict(os.environ)
        env["ASAN_OPTIONS"] = "detect_leaks=1:abort_on_error=0:exitcode=99:allocator_may_return_null=1"
        env["UBSAN_OPTIONS"] = "halt_on_error=1:exitcode=98:print_stacktrace=1"
        if linebuf:
            env["ZV_LINEBUF"] = "1"
        rc, out, err = core.sh([exe or self.hx, p], timeout=timeout, env=env)
        return rc, out.split("\n"), err

    def run_m(self, text, timeout=900):
        p = self.blob(text.encode(), "mcase")

        def big_stack():
            try:
                resource.setrlimit(resource.RLIMIT_STACK, (resource.RLIM_INFINITY, resource.RLIM_INFINITY))
            except (ValueError, OSError):
                pass
        import subprocess
        try:
            pr = subprocess.run([self.mx, p], stdout=subprocess.PIPE, stderr=subprocess.PIPE, timeout=timeout, preexec_fn=big_stack)
            rc, out, err = pr.returncode, pr.stdout.decode(), pr.stderr.decode()
        except subprocess.TimeoutExpired:
            rc, out, err = 124, "", "timeout"
        if rc != 0:
            raise RuntimeError("model driver failed rc=%d: %s" % (rc, err[-600:]))
        return out.split("\n")

    def run_m_cases(self, cases, workers=6):
        """cases: [(weight, [lines])], each starting with its '# case id' line; runs them in a few model processes
        (largest first, greedy balancing) and returns all output lines (sections are keyed by id, order is irrelevant)."""
        from concurrent.futures import ThreadPoolExecutor
        bins = [[0, []] for _ in range(max(1, min(workers, len(cases))))]
        for w, lines in sorted(cases, key=lambda c: -c[0]):
            b = min(bins, key=lambda b: b[0])
            b[0] += w + 1
            b[1] += lines
        texts = ["\n".join(b[1]) + "\n" for b in bins if b[1]]
        if not texts:
            return []
        with ThreadPoolExecutor(max_workers=len(texts)) as ex:
            outs = list(ex.map(self.run_m, texts))
        return [ln for o in outs for ln in o]

    def report(self, replay, what, no_input=False, key=None):
        if key is None:
            key = getattr(self, "_force_key", None)
            if key == self.K_ENDFRAME:
                what = ("ZSTD_seekable_endFrame called once with too little output room (returns > 0: the end of the frame is still inside the inner "
                        "ZSTD_CStream), then ZSTD_seekable_compressStream with more input (ops %s, maxFrameSize %s, checksumFlag %s): no call reports an "
                        "error, but ZSTD_compressStream finishes the pending frame and starts a new zstd frame while frameCSize/frameDSize/XXH64 keep "
                        "accumulating - one seek-table entry covers two zstd frames and the seekable reader cannot read across the inner boundary. "
                        % (replay.get("ops"), replay.get("mfs"), replay.get("cf"))) + what
        if key is not None:
            if key in self.keys_seen:      # one report per finding key
                return
            self.keys_seen.add(key)
        elif self.nviol >= MAX_VIOL:       # the cap bounds unkeyed reports only: a keyed finding is reported once whatever came before it
            return
        if key is None:
            self.nviol += 1
        self.ctx.violation(replay, what=what, no_input=no_input, key=key)

    @staticmethod
    def sections(lines):
        """split output on '# case <id>' echo lines -> {id: [lines]}"""
        res, cur = {}, None
        for ln in lines:
            if ln.startswith("# case "):
                cur = ln.split()[2]
                res[cur] = []
            elif cur is not None and ln.strip():
                res[cur].append(ln)
        return res

    # ------------------------------------------------------------------ phase A: raw seek table API
    def phase_rawtable(self):
        """ZSTD_seekable_logFrame / ZSTD_seekable_writeSeekTable with arbitrary logs and output-room histories
        against the model's write_history and the specification bytes seek_table_bytes."""
        ctx, rng = self.ctx, self.rng
        cases = []
        ncases = 40 if ctx.quick else 400
        for i in range(ncases):
            cf = rng.choice([0, 1])
            n = rng.choice([0, 1, 2, 3, 5, 16, 17, 33]) if i % 4 else rng.randint(0, 70)
            def val():
                return rng.choice([0, 1, 2, 255, 256, 65535, 65536, M32 - 1, rng.getrandbits(32), rng.getrandbits(12)])
            log = [(val(), val(), val()) for _ in range(n)]
            total = 17 + (12 if cf else 8) * n
            style = rng.choice(["one", "tiny", "mixed", "zero-mixed", "word-split"])
            avs, left = [], total
            guard = 0
            while left > 0 and guard < 4000:
                guard += 1
                if style == "one":
                    a = rng.choice([total, total + 5, total - 1, 1 << 20])
                elif style == "tiny":
                    a = rng.choice([1, 1, 2, 3])
                elif style == "mixed":
                    a = rng.choice([1, 2, 3, 4, 5, 7, 8, 9, 12, 13, 100])
                elif style == "zero-mixed":
                    a = rng.choice([0, 0, 1, 4, 6, 11])
                else:
                    a = rng.choice([3, 5, 6, 7])
                a = max(a, 0)
                avs.append(a)
                # conservative: a call writes at most a bytes; the C run tells the truth, extra calls are harmless
                left -= min(a, left) if a else 0
            avs += [rng.choice([0, 1, 64])] * 2 + [1 << 16] * 3      # make sure the table completes; calls after completion
            cases.append(dict(id="w%d" % i, cf=cf, log=log, avs=avs))
        # MAXFRAMES boundary is exercised separately (big): only the logFrame refusal, no serialisation
        ctext, mtext = [], []
        for c in cases:
            ctext.append("# case %s" % c["id"])
            ctext.append("aclear")
            ctext.append("rawlog %d %s" % (c["cf"], " ".join("%d:%d:%d" % e for e in c["log"])))
            for a in c["avs"]:
                ctext.append("w %d" % a)
            ctext.append("save %s" % self.path(c["id"] + ".tbl"))
            mtext.append("# case %s" % c["id"])
            mtext.append("log %d %s" % (c["cf"], " ".join("%d:%d:%d" % e for e in c["log"])))
            mtext.append("ser")
            mtext.append("whist " + " ".join(str(a) for a in c["avs"]))
        rc, clines, cerr = self.run_c("\n".join(ctext) + "\n")
        if rc != 0:
            self.report(dict(kind="rawtable", rc=rc, stderr=cerr[-2000:]), "harness crashed in the raw seek-table phase (rc=%d)" % rc, no_input=True)
            return
        mlines = self.run_m("\n".join(mtext) + "\n")
        cs, ms = self.sections(clines), self.sections(mlines)
        for c in cases:
            cl, ml = cs.get(c["id"], []), ms.get(c["id"], [])
            self.compare_rawtable(c, cl, ml)

    def compare_rawtable(self, c, cl, ml):
        ctx = self.ctx
        replay = dict(kind="rawtable", cf=c["cf"], log=c["log"], avails=c["avs"])
        spec = seek_table_bytes_py(c["cf"], c["log"])
        try:
            ser = [l for l in ml if l.startswith("ser ")][0].split()[1]
            ser = b"" if ser == "-" else bytes.fromhex(ser)
            wh = [l for l in ml if l.startswith("whist ")][0].split()[1:]
            ws = [l for l in cl if l.startswith("w ")]
            if ser != spec:
                raise Fail("model serialisation differs from the format specification (python) for this log")
            real = b""
            done_at = None
            for i, (wl, m) in enumerate(zip(ws, wh)):
                _, _, d = kv(wl)
                if m.startswith("T"):
                    raise Fail("model trapped (site %s) at writeSeekTable call %d" % (m, i))
                mret, mout = m.split(":")
                mout = b"" if mout == "-" else bytes.fromhex(mout)
                cout = d["out"]
                if cout.startswith("#"):
                    ln, crc = cout[1:].split(":")
                    same_out = (len(mout) == int(ln) and "%08x" % (zlib.crc32(mout) & 0xFFFFFFFF) == crc)
                else:
                    cb = b"" if cout == "-" else bytes.fromhex(cout)
                    same_out = cb == mout
                real += mout
                if norm_ret(mret) != d["ret"] or not same_out:
                    raise Fail("ZSTD_seekable_writeSeekTable call %d (room %s): code returned %s / wrote %s, model %s / %s"
                               % (i, d["cap"], d["ret"], cout[:40], norm_ret(mret), mout.hex()[:40]))
                if d["ret"] == "0" and done_at is None:
                    done_at = i
                if done_at is not None:
                    break
            # direct oracle: the bytes the real writer emitted (file saved by the harness) are the specification bytes
            emitted = open(self.path(c["id"] + ".tbl"), "rb").read()
            if done_at is None:
                raise Fail("the seek table never completed (return value never 0) for this room history")
            if emitted[:len(spec)] != spec:
                raise Fail("bytes emitted by ZSTD_seekable_writeSeekTable differ from the seek table format for this frame log")
            sig = ("raw", c["cf"], min(len(c["log"]), 3), len(set(min(a, 13) for a in c["avs"][:done_at + 1])) > 1, done_at > 0)
            ctx.count(sig)
            ctx.cov["traces_validated_against_impl"] += 1
            ctx.sample(dict(kind="rawtable", cf=c["cf"], log=c["log"][:4], avails=c["avs"][:12], calls_until_done=done_at + 1))
        except Fail as e:
            self.report(replay, "seek table writer: " + str(e))
        except (IndexError, KeyError, ValueError) as e:
            self.report(replay, "seek table writer: unparsable harness/model output (%r)" % (e,), no_input=True)

    # ------------------------------------------------------------------ phase B/C: archives and reads
    def gen_archive_specs(self):
        ctx, rng = self.ctx, self.rng
        specs = []

        def add(n, kind, mfs, cf, level=None, ops=None, ccap=None, scap=None, tag=""):
            x = gen_content(rng, n, kind)
            level = level if level is not None else rng.choice([1, 3, 3, 5])
            specs.append(dict(id="a%d" % len(specs), x=x, kind=kind, mfs=mfs, cf=cf, level=level,
                              ops=ops or [], ccap=ccap or (1 << 17), scap=scap or (1 << 17), tag=tag))

        # boundary corpus first
        for cf in (0, 1):
            add(0, "zero", 0, cf, tag="empty")
            add(1, "rand", 1, cf, tag="one")
            add(5, "count", 1, cf, tag="tiny-mfs1")
            add(5, "count", 2, cf, tag="tiny-mfs2")
            add(6, "count", 3, cf, tag="tiny-exact")          # |x| multiple of mfs: trailing empty frame
            add(4, "count", 7, cf, tag="tiny-oneframe")
        add(5, "count", 2, 1, ops=["e 64", "c 1 64", "e 64", "e 64", "c 3 64"], tag="tiny-explicit-end")   # empty frames in the middle
        add(40, "text", 7, 1, ops=["c 3 9", "c 100 1", "e 1", "e 1", "e 1", "c 5 0", "c 5 2"], ccap=3, scap=2, tag="small-rooms")
        add(300, "text", 64, 0, ops=["c 10 1000", "e 3", "e 1000", "c 200 5"], ccap=50, scap=7, tag="small-mixed")
        add(3000, "text", 1 << 30, 1, tag="one-big-frame")
        add(3000, "text", 0, 0, ops=["c 1000 100000", "e 100000", "c 1000 100000", "e 100000"], tag="default-mfs-explicit")
        add(10, "rand", (1 << 30) + 1, 1, tag="mfs-too-large")
        # one frame larger than SEEKABLE_BUFF_SIZE / ZSTD_BLOCKSIZE_MAX, offered in one piece with little output room: the inner
        # ZSTD_compressStream consumes less than it is offered (checksum must cover the consumed bytes only); reads skip > BUFF bytes
        add(200000 if ctx.quick else 450000, "text", 0, 1, level=1, ccap=1500, scap=40, tag="long-frame-partial-consumption")
        nrand = 14 if ctx.quick else 120
        for i in range(nrand):
            cls = rng.choice(["tiny", "tiny", "small", "small", "medium", "large"])
            n = {"tiny": rng.randint(0, 9), "small": rng.randint(10, 400), "medium": rng.randint(401, 20000),
                 "large": rng.randint(20001, 150000 if ctx.quick else 3000000)}[cls]
            kind = rng.choice(["text", "text", "rand", "zero", "count"])
            mfs = rng.choice([1, 2, 3, rng.randint(4, 64), max(1, n - 1), max(1, n), n + 1, max(1, n // 3), rng.randint(1, max(2, n)),
                              1 << 20, 1 << 30, 0])
            if n > 60000 and mfs != 0 and mfs < n // 40000 + 1:
                mfs = rng.randint(n // 3000 + 1, n)       # keep the number of frames manageable
            if cls == "large" and mfs in (1, 2, 3):
                mfs = rng.randint(200, 5000)
            cf = rng.choice([0, 1])
            ops = []
            if rng.random() < 0.6:
                budget = n
                for _ in range(rng.randint(1, 12)):
                    r = rng.random()
                    if r < 0.6:
                        k = rng.choice([0, 1, 2, 3, rng.randint(0, max(1, n)), mfs if mfs else 7, (mfs or 7) - 1])
                        ops.append("c %d %d" % (max(k, 0), rng.choice([0, 1, 2, 5, 64, 1 << 17])))
                        budget -= k
                    else:
                        ops.append("e %d" % rng.choice([0, 1, 3, 64, 1 << 17]))
            ccap = rng.choice([1 << 17, 1 << 17, 4096, 100, 13]) if n < 5000 else 1 << 17
            scap = rng.choice([1 << 17, 64, 7, 5, 1]) if n // max(mfs, 1) < 2000 or mfs == 0 else 1 << 17
            add(n, kind, mfs, cf, ops=ops, ccap=ccap, scap=scap, tag=cls)
        # one table that needs the chunked loader (more than SEEKABLE_BUFF_SIZE bytes of entries)
        # 21846 frames with checksums = 262169 table bytes: the entry loop refills inBuff twice and one entry straddles a refill
        add(22000 if ctx.quick else 33500, "text", 1, 1, level=1, tag="long-table-cf")
        if not ctx.quick:
            add(17000, "zero", 1, 0, level=1, tag="long-table-nocf")
        return specs

    def phase_archives(self, specs=None, key_of=None):
        """key_of: optional function spec -> finding key for reports about that spec (round-2 scenarios)"""
        ctx = self.ctx
        if specs is None:
            specs = self.gen_archive_specs()
        # ---- stage 1: compress with the real code
        ctext = []
        for s in specs:
            s["xpath"] = self.blob(s["x"], "x")
            s["apath"] = self.path(s["id"] + ".zst")
            ctext += ["# case %s" % s["id"], "content_file %s" % s["xpath"], "cinit %d %d %d" % (s["level"], s["cf"], s["mfs"])]
            if s["mfs"] <= (1 << 30):
                ctext += s["ops"] + ["finish %d %d" % (s["ccap"], s["scap"]), "log", "save %s" % s["apath"], "frames", "regular"]
        import time as _t
        t0 = _t.time()
        rc, clines, cerr = self.run_c("\n".join(ctext) + "\n")
        core.log("C20   compress (real code): %.1fs" % (_t.time() - t0))
        if rc != 0:
            self.report(dict(kind="compress", rc=rc, stderr=cerr[-2000:]), "harness crashed while compressing (rc=%d)" % rc, no_input=True)
            return
        cs = self.sections(clines)
        # ---- model replay of the same call histories
        mcases = []
        for s in specs:
            cl = cs.get(s["id"], [])
            mtext = ["# case %s" % s["id"], "xfile %s" % s["xpath"], "cinit %d %d" % (s["cf"], s["mfs"])]
            for ln in cl:
                cmd, pos, d = kv(ln)
                if cmd == "c":
                    mtext.append("c %s %s" % (d["offered"], d["tr"]))
                elif cmd == "e":
                    mtext.append("e %s" % d["tr"])
                elif cmd == "s":
                    mtext.append("s %s %s" % (d["cap"], d["tr"]))
            mtext.append("clog")
            mcases.append((len(s["x"]) * (2 if s["cf"] else 1) + 50 * len(cl), mtext))
        t0 = _t.time()
        mlines = self.run_m_cases(mcases)
        core.log("C20   compress (model replay): %.1fs" % (_t.time() - t0))
        ms = self.sections(mlines)
        good = []
        for s in specs:
            self._force_key = key_of(s) if key_of else None
            try:
                if self.compare_compress(s, cs.get(s["id"], []), ms.get(s["id"], [])):
                    good.append(s)
            finally:
                self._force_key = None
        # ---- stage 2: reads
        self.phase_reads(good)
        self.good_archives = good

    def compress_replay(self, s):
        return dict(kind="compress", content_hex=s["x"].hex() if len(s["x"]) <= 4096 else None, content_len=len(s["x"]),
                    content_kind=s["kind"], level=s["level"], cf=s["cf"], mfs=s["mfs"], ops=s["ops"], ccap=s["ccap"], scap=s["scap"],
                    seed=self.ctx.seed, case=s["id"])

    def compare_compress(self, s, cl, ml):
        """returns True when the archive is usable for the read phase"""
        ctx = self.ctx
        x = s["x"]
        replay = self.compress_replay(s)
        try:
            _, _, d0 = kv([l for l in cl if l.startswith("cinit")][0])
            _, _, m0 = kv([l for l in ml if l.startswith("cinit")][0])
            if d0["ret"] != m0["ret"]:
                raise Fail("ZSTD_seekable_initCStream(maxFrameSize=%d) returned %s, model %s" % (s["mfs"], d0["ret"], m0["ret"]))
            if d0["ret"].startswith("E"):
                if s["mfs"] <= (1 << 30):
                    raise Fail("ZSTD_seekable_initCStream refused maxFrameSize=%d" % s["mfs"])
                ctx.count(("cinit-refused",))
                return False
            if s["mfs"] > (1 << 30):
                raise Fail("ZSTD_seekable_initCStream accepted maxFrameSize=%d > ZSTD_SEEKABLE_MAX_FRAME_DECOMPRESSED_SIZE" % s["mfs"])
            if d0["mfs"] != m0["mfs"]:
                raise Fail("effective maxFrameSize %s, model %s" % (d0["mfs"], m0["mfs"]))
            mfs = int(d0["mfs"])
            calls = [l for l in cl if l.split()[0] in ("c", "e", "s")]
            mcalls = [l for l in ml if l.split()[0] in ("c", "e", "s")]
            if len(calls) != len(mcalls):
                raise Fail("model replay produced %d call results for %d calls" % (len(mcalls), len(calls)))
            table_real = b""
            for i, (a, b) in enumerate(zip(calls, mcalls)):
                ca, _, da = kv(a)
                cb, pb, db = kv(b)
                if pb and pb[0] == "mismatch":
                    raise Fail("call %d (%s): the inner libzstd calls made by the code (%s) are not the ones the model makes" % (i, ca, da["tr"]))
                for k in ("consumed", "fc", "fd", "nlog", "wst", "pend", "stpos", "stidx"):
                    if da[k] != db[k]:
                        raise Fail("call %d (%s cap=%s): %s = %s in the code, %s in the model (inner calls %s)" % (i, ca, da["cap"], k, da[k], db[k], da["tr"]))
                if da["ret"] != norm_ret(db["ret"]):
                    raise Fail("call %d (%s cap=%s): returned %s, model %s (inner calls %s)" % (i, ca, da["cap"], da["ret"], norm_ret(db["ret"]), da["tr"]))
                if db["left"] != "0":
                    raise Fail("call %d (%s): the code made inner libzstd calls the model does not make (%s)" % (i, ca, da["tr"]))
                if ca == "s" and "out" in da:
                    mo = b"" if db["out"] == "-" else bytes.fromhex(db["out"])
                    co = b"" if da["out"] == "-" else bytes.fromhex(da["out"])
                    inner_e = sum(int(t.split(":")[1]) for t in da["tr"].split(";") if t.startswith("e:"))
                    if co[inner_e:] != mo:
                        raise Fail("call %d (endStream, room %s): seek table bytes written %s, model %s" % (i, da["cap"], co[inner_e:].hex()[:60], mo.hex()[:60]))
                    table_real += co[inner_e:]
            fin = kv([l for l in cl if l.startswith("finish")][0])[2]
            if fin["ret"] != "0" or fin["xpos"] != fin["n"]:
                raise Fail("compression did not complete: %s" % fin)
            # ---- frame log: code vs model
            logl = [l for l in cl if l.startswith("log ")][0]
            head, _, tail = logl.partition(" :")
            log = [tuple(int(v) for v in e.split(":")) for e in tail.split()]
            clog = [l for l in ml if l.startswith("clog ")][0]
            mlog_s = clog.split(" : ", 1)[1].split(" | ")[0].split()
            mlog = [tuple(int(v) for v in e.split(":")) for e in mlog_s]
            if log != mlog:
                bad = next((i for i in range(min(len(log), len(mlog))) if log[i] != mlog[i]), min(len(log), len(mlog)))
                raise Fail("frame log differs from the model at entry %d: code %s, model %s (checksum = low 32 bits of XXH64 of the frame content)"
                           % (bad, log[bad:bad + 1], mlog[bad:bad + 1]))
            s["log"] = log
            # ---- direct oracle (archive_is_frames_then_table on the real bytes)
            arch = open(s["apath"], "rb").read()
            s["arch"] = arch
            cs_, ds_ = cum(log)
            if ds_[-1] != len(x):
                raise Fail("decompressed sizes in the frame log sum to %d, content has %d bytes" % (ds_[-1], len(x)))
            if any(d > mfs for (_c, d, _k) in log):
                raise Fail("a frame holds more than maxFrameSize=%d bytes" % mfs)
            spec = seek_table_bytes_py(s["cf"], log)
            if arch[cs_[-1]:] != spec or len(arch) != cs_[-1] + len(spec):
                raise Fail("archive is not <frames of the logged sizes> followed by the seek table of the frame log")
            if table_real != spec:
                raise Fail("bytes emitted in the seek-table phase differ from the format")
            fr = [l for l in cl if l.startswith("frames")][0].split()[1:]
            exp = []
            for i, (c, d, k) in enumerate(log):
                exp.append("Z:%d:%d:%08x" % (c, d, zlib.crc32(x[ds_[i]:ds_[i + 1]]) & 0xFFFFFFFF))
            exp.append("S:%d:14" % len(spec))
            if fr != exp:
                bad = next((i for i in range(min(len(fr), len(exp))) if fr[i] != exp[i]), min(len(fr), len(exp)))
                raise Fail("walking the archive with ZSTD_findFrameCompressedSize/ZSTD_decompress: item %d is %s, expected %s (frame i must decode to its slice of the content; last item is the skippable seek table)"
                           % (bad, fr[bad:bad + 1], exp[bad:bad + 1]))
            reg = kv([l for l in cl if l.startswith("regular")][0])[2]
            if reg["err"] != "0" or reg["same"] != "1":
                raise Fail("a regular libzstd streaming decoder does not regenerate the content from the archive: %s" % reg)
            nframes = len(log)
            sig = ("compress", s["cf"], min(mfs, 4) if mfs < 4 else ("=n" if mfs == len(x) else "<n" if mfs < len(x) else ">n"),
                   min(nframes, 3), any(d == 0 for (_c, d, _k) in log[:-1]), log[-1][1] == 0 if log else None,
                   any(o.startswith("e") for o in s["ops"]), s["scap"] < 17 + 12 * nframes, len(calls) > nframes + 2)
            ctx.count(sig)
            ctx.cov["traces_validated_against_impl"] += 1
            self.hist["archives"] += 1
            b = "1" if mfs == 1 else "2" if mfs == 2 else "3-64" if mfs <= 64 else "65-2^20" if mfs <= (1 << 20) else ">2^20"
            self.hist["mfs"][b] = self.hist["mfs"].get(b, 0) + 1
            b = "0-9" if len(x) < 10 else "10-400" if len(x) <= 400 else "401-20000" if len(x) <= 20000 else ">20000"
            self.hist["size"][b] = self.hist["size"].get(b, 0) + 1
            ctx.sample(dict(kind="archive", content_len=len(x), content_kind=s["kind"], maxFrameSize=s["mfs"], checksumFlag=s["cf"],
                            ops=s["ops"][:8], frames=nframes, log_head=log[:3], api_calls=len(calls)))
            return True
        except Fail as e:
            self.report(replay, "seekable compressor: " + str(e))
        except (IndexError, KeyError, ValueError) as e:
            self.report(replay, "seekable compressor: unparsable harness/model output (%r)" % (e,), no_input=True)
        return False

    # -- read histories
    def gen_reads(self, s):
        rng, ctx = self.rng, self.ctx
        n = len(s["x"])
        log = s["log"]
        _, D = cum(log)
        reads = []
        if n <= (5 if ctx.quick else 7):
            # all ordered pairs of ranges, walked as one history: a1 b1 a2 b2 ... (also gives the pairs (b_i, a_i+1))
            ranges = [(o, l) for o in range(n + 1) for l in range(n - o + 1)]
            pairs = [(a, b) for a in ranges for b in ranges]
            rng.shuffle(pairs)
            for a, b in pairs:
                reads += [("r",) + a, ("r",) + b]
            s["exhaustive"] = "all ordered pairs of (offset,len) ranges"
        elif n <= 40:
            ranges = [(o, l) for o in range(n + 1) for l in range(n - o + 1)]
            rng.shuffle(ranges)
            reads += [("r",) + r for r in ranges]
            s["exhaustive"] = "all (offset,len) ranges, shuffled"
        else:
            bnd = set(D)
            for i in range(len(log)):               # skip-buffer boundaries inside long frames (dummy decoding in chunks of BUFF)
                for k in (1, 2):
                    if log[i][1] > k * 131072:
                        bnd.update([D[i] + k * 131072, D[i] + k * 131072 + 1])
            bnd = sorted(bnd)
            def near(p):
                return min(max(p + rng.choice([-2, -1, 0, 0, 1, 2]), 0), n)
            def pick_pos():
                r = rng.random()
                if r < 0.55:
                    return near(rng.choice(bnd))
                if r < 0.65:
                    return rng.choice([0, n, n - 1, 1])
                return rng.randint(0, n)
            cnt = (60 if ctx.quick else 400) if n <= 20000 else (25 if ctx.quick else 120)
            last_end = 0
            for _ in range(cnt):
                r = rng.random()
                if r < 0.25:                       # continue where the previous read ended (cache continuation)
                    o = last_end
                elif r < 0.32:
                    o = max(0, last_end - rng.choice([1, 2, 3]))    # just before the cached position
                elif r < 0.40:
                    o = min(n, last_end + rng.choice([1, 2, 5]))    # just after: same frame, skip forward
                else:
                    o = pick_pos()
                r2 = rng.random()
                if r2 < 0.5:
                    e = pick_pos()
                    e = max(e, o)
                elif r2 < 0.6:
                    e = o
                elif r2 < 0.7:
                    e = n
                else:
                    e = min(n, o + rng.choice([1, 2, 3, 17, 1000, 131072, 131073, 300000]))
                if len(log) > 2000:
                    e = min(e, o + 64)             # long tables: the list-based model pays O(frames) per frame crossed
                reads.append(("r", o, e - o))
                last_end = e
            for i in range(len(log)):               # skip-buffer boundaries: dummy decoding of exactly BUFF / BUFF+1 / 2*BUFF+5 bytes after a restart
                if log[i][1] > 131072 + 8:
                    reads += [("r", D[i] + 3, 2), ("r", D[i], 0), ("r", D[i] + 131072 + 9, 2),     # restart, then skip BUFF+9: two dummy calls
                              ("r", D[i], 1), ("r", D[i] + 131072 + 1, 3),                          # from doff = start+1: skip exactly BUFF
                              ("r", D[i], 1), ("r", D[i] + 131072, 2),                              # skip BUFF-1
                              ("r", D[i], 0), ("r", D[i] + 131072 + 1, 1),                          # from the frame start: skip BUFF+1
                              ("r", D[i] + 1, 0), ("r", D[i] + 131071, 4)]
                    if log[i][1] > 2 * 131072 + 16:
                        reads += [("r", D[i], 1), ("r", D[i] + 2 * 131072 + 5, 1)]
            if len(log) <= 2000:
                reads.append(("r", 0, n))
        # decompressFrame: every frame for short logs, sampled otherwise; with exact, larger and too small dst
        nf = len(log)
        idxs = list(range(nf)) if nf <= 12 else sorted(set([0, 1, nf - 2, nf - 1] + [rng.randrange(nf) for _ in range(8)]))
        for i in idxs:
            d = log[i][1]
            reads.append(("rf", i, d + rng.choice([0, 0, 1, 5])))
            if d > 0 and rng.random() < 0.5:
                reads.append(("rf", i, d - 1))
        reads += [("rf", nf, 4), ("rf", nf + 1, 0), ("rf", M32 - 1, 1)]
        if len(log) > 2000:
            # whole-range and long reads on a long table: real code + direct oracle only (not replayed in the model)
            s["nomodel_from"] = len(reads)
            reads += [("r", 0, n), ("r", n // 3, n // 2), ("r", 1, n - 1)]
        return reads

    def o2f_positions(self, s):
        n = len(s["x"])
        _, D = cum(s["log"])
        ps = set([0, n, n + 1, M64 - 1, 1 << 32, (1 << 32) - 1])
        if n <= 64:
            ps.update(range(n + 1))
        for d in (D if len(D) <= 200 else self.rng.sample(D, 200)):
            ps.update([max(d - 1, 0), d, d + 1])
        for _ in range(20):
            ps.add(self.rng.randint(0, max(n, 1)))
        return sorted(ps)

    def reads_ctext(self, s):
        ctext = ["# case %s" % s["id"], "content_file %s" % s["xpath"], "archive_file %s" % s["apath"],
                 "open %s %s" % (s["mode"], self.path(s["id"] + ".f") if s["mode"] == "file" else ""),
                 "table", "entries", "o2f " + " ".join(str(p) for p in s["o2f"])]
        for r in s["reads"]:
            ctext.append("%s %d %d" % r)
        ctext.append("close")
        return ctext

    def run_reads_c(self, specs):
        """Runs the read histories on the real code.  A call that does not return (or crashes the process) is reported with
        the history that leads to it; the archives after it are re-run in a fresh process.  Returns {id: lines}."""
        ctx = self.ctx
        todo, cs, strikes = list(specs), {}, 0
        tmo = 45 if ctx.quick else 600
        while todo:
            ctext = []
            for s in todo:
                ctext += self.reads_ctext(s)
            rc, clines, cerr = self.run_c("\n".join(ctext) + "\n", timeout=tmo, linebuf=True)
            sec = self.sections(clines)
            if rc == 0:
                cs.update(sec)
                break
            last = [l for l in clines if l.startswith("# case ")]
            bad = next((s for s in todo if last and s["id"] == last[-1].split()[2]), todo[0])
            done = sec.get(bad["id"], [])
            nrd = sum(1 for l in done if l.split()[0] in ("r", "rf"))
            stage_done = any(l.startswith("o2f") for l in done)
            i = todo.index(bad)
            for s in todo[:i]:
                cs[s["id"]] = sec.get(s["id"], [])
            if rc == 124:
                # confirm on this archive alone (a loaded machine must not turn into a false alarm): history up to the suspect call
                keep = bad["reads"]
                bad["reads"] = keep[:nrd + 1]
                rc2, cl2, _ = self.run_c("\n".join(self.reads_ctext(bad)) + "\n", timeout=20 if ctx.quick else 60, linebuf=True)
                bad["reads"] = keep
                if rc2 == 0:
                    core.log("C20: read batch exceeded %d s but the suspect call returns when run alone: machine load, retrying" % tmo)
                    todo = todo[i:]
                    tmo *= 3
                    strikes += 1
                    if strikes >= 3:
                        self.report(dict(kind="reads", rc=rc), "the read batch does not finish although every suspect call returns when run alone", no_input=True)
                        for s in todo:
                            s["dead"] = True
                        break
                    continue
                tmo_txt = "%d s" % (20 if ctx.quick else 60)
            todo = todo[i + 1:]
            how = ("does not return (no result within %s when this history is run alone)" % tmo_txt) if rc == 124 else \
                  "crashes the process (rc=%d): %s" % (rc, (cerr.strip().split("\n") or ["?"])[-1][:200])
            if stage_done and nrd < len(bad["reads"]):
                rd = bad["reads"][nrd]
                what = "%s(%d, %d) after %d earlier calls on a %d-byte content in %d frames (%s access, checksum %d) %s; previous call: %s" % (
                    "ZSTD_seekable_decompress" if rd[0] == "r" else "ZSTD_seekable_decompressFrame", rd[1], rd[2], nrd, len(bad["x"]),
                    len(bad["log"]), bad["mode"], bad["cf"], how, (done[-1][:160] if done else "-"))
                self.report(self.read_replay(bad, upto=nrd, extra=dict(failing_call=list(rd), rc=rc)), what)
            else:
                self.report(self.read_replay(bad, upto=0, extra=dict(rc=rc, completed_lines=done[-3:])),
                            "opening / querying the seek table of an archive the seekable compressor wrote (%s access, %d frames) %s; last completed: %s"
                            % (bad["mode"], len(bad["log"]), how, (done[-1][:160] if done else "-")))
            bad["dead"] = True
            strikes += 1
            if (rc == 124 or strikes >= 2) and todo:
                core.log("C20: %d archives not read after a hang / two crashes" % len(todo))
                for s in todo:
                    s["dead"] = True
                break
        return cs

    def phase_reads(self, specs):
        ctx, rng = self.ctx, self.rng
        modes = ["mem", "file", "cb"]
        for j, s in enumerate(specs):
            s["mode"] = modes[j % 3] if len(s["x"]) > 9 else rng.choice(modes)
            s["reads"] = self.gen_reads(s)
            s["o2f"] = self.o2f_positions(s)
        import time as _t
        t0 = _t.time()
        cs = self.run_reads_c(specs)
        core.log("C20   reads (real code): %.1fs" % (_t.time() - t0))
        specs = [s for s in specs if not s.get("dead")]
        model_max = 260000 if ctx.quick else 500000
        mcases = []
        for s in specs:
            cl = cs.get(s["id"], [])
            s["model_reads"] = len(s["x"]) <= model_max
            nf = len(s["log"])
            idx = list(range(nf + 3)) + [M32 - 1] if nf <= 64 else list(range(9)) + list(range(nf - 8, nf + 3)) + [M32 - 1]
            s["acc_idx"] = idx
            mtext = ["# case %s" % s["id"], "xfile %s" % s["xpath"],
                     "log %d %s" % (s["cf"], " ".join("%d:%d:%d" % e for e in s["log"])),
                     "tableof", "loadfile %s" % s["apath"], "acc " + " ".join(str(i) for i in idx),
                     "o2f " + " ".join(str(p) for p in s["o2f"]), "rinit"]
            if s["model_reads"]:
                nrd = 0
                for ln in cl:
                    cmd, pos, d = kv(ln)
                    if cmd in ("r", "rf"):
                        nrd += 1
                    if cmd in ("r", "rf") and "tr" in d and nrd <= s.get("nomodel_from", 1 << 60):
                        orc = ";".join("%s:%s" % (t.split(":")[3], "1" if t.split(":")[5] == "1" else "0")
                                       for t in d["tr"].split(";") if t[0] in "kd")
                        mtext.append("%s %s %s %s" % (cmd, pos[0], pos[1], orc or "-"))
            mcases.append((len(s["x"]) * (3 if s["model_reads"] else 1) + 200 * nf + 20 * len(mtext), mtext))
        t0 = _t.time()
        mlines = self.run_m_cases(mcases)
        core.log("C20   reads (model replay): %.1fs" % (_t.time() - t0))
        ms = self.sections(mlines)
        for s in specs:
            self.compare_reads(s, cs.get(s["id"], []), ms.get(s["id"], []))

    def read_replay(self, s, upto=None, extra=None):
        r = dict(kind="reads", content_hex=s["x"].hex() if len(s["x"]) <= 4096 else None, content_len=len(s["x"]),
                 content_kind=s["kind"], archive_hex=s["arch"].hex() if len(s["arch"]) <= 8192 else None,
                 level=s["level"], cf=s["cf"], mfs=s["mfs"], ops=s["ops"], ccap=s["ccap"], scap=s["scap"], mode=s["mode"],
                 seed=self.ctx.seed, case=s["id"], history=[list(r) for r in (s["reads"][:upto + 1] if upto is not None else s["reads"][:50])][-60:])
        if extra:
            r.update(extra)
        return r

    def compare_reads(self, s, cl, ml):
        ctx = self.ctx
        x, log = s["x"], s["log"]
        n, nf = len(x), len(log)
        C, D = cum(log)
        try:
            # ---- open / table / accessors / o2f
            op = kv([l for l in cl if l.startswith("open")][0])[2]
            if op["ret"] != "0":
                raise Fail("ZSTD_seekable_init (%s access) failed on an archive the seekable compressor wrote: %s" % (s["mode"], op["ret"]))
            if int(op["n"]) != nf or int(op["cf"]) != s["cf"]:
                raise Fail("loaded table: numFrames=%s checksumFlag=%s, frame log has %d frames, flag %d" % (op["n"], op["cf"], nf, s["cf"]))
            mt = [l for l in ml if l.startswith("tableof")][0].split(" ", 1)[1]
            mload = [l for l in ml if l.startswith("load ")][0]
            if not mload.startswith("load ok "):
                raise Fail("the model's loader rejects the archive the real compressor wrote (%s) - real loader accepted it" % mload)
            if mload[len("load ok "):] != mt:
                raise Fail("model: load(archive bytes) differs from table_of(frame log)")
            ments = [tuple(int(v) for v in e.split(":")) for e in mt.split("ents=")[1].split(",")]
            raw = b"".join(struct.pack("<QQQ", c, d, k) for (c, d, k) in ments)
            ent = kv([l for l in cl if l.startswith("entries")][0])[2]
            if int(ent["n"]) != nf or ent["crc"] != "%08x" % (zlib.crc32(raw) & 0xFFFFFFFF):
                raise Fail("the table ZSTD_seekable_loadSeekTable built (cOffset,dOffset,checksum per entry) differs from the model's table of the frame log")
            if [e[0] for e in ments] != C or [e[1] for e in ments] != D:
                raise Fail("model table offsets are not the cumulative sums of the frame log")
            tl = [l for l in cl if l.startswith("table ")][0]
            titems = {}
            for it in tl.split(" : ", 1)[1].split() if " : " in tl else tl.split(":", 1)[1].split():
                f = it.split(":")
                titems[int(f[0])] = f[1:]
            macc = [l for l in ml if l.startswith("acc ")][0].split()[2:]
            for it in macc:
                f = it.split(":")
                i = int(f[0])
                if any(v.startswith("T") for v in f[1:]):
                    raise Fail("model accessor trapped for frameIndex %d: %s" % (i, it))
                # direct oracle against the frame log
                if i < nf:
                    want = [str(C[i]), str(D[i]), str(log[i][0]), str(log[i][1])]
                else:
                    want = [str(M64 - 2), str(M64 - 2), str(M64 - 100), str(M64 - 100)]
                if i in titems and titems[i][:4] != want:
                    raise Fail("accessors (cOffset,dOffset,cSize,dSize) for frameIndex %d (numFrames %d) return %s, the frame layout says %s "
                               "(2^64-2 = FRAMEINDEX_TOOLARGE, 2^64-100 = ERROR(frameIndex_tooLarge))" % (i, nf, titems[i][:4], want))
                if i in titems:
                    cv = titems[i]
                    if cv[:4] != f[1:5]:
                        raise Fail("accessors for frameIndex %d: code (cOff,dOff,cSize,dSize)=%s, model %s" % (i, cv[:4], f[1:5]))
                    if cv[4] != "1":
                        raise Fail("ZSTD_seekable_get* and ZSTD_seekTable_get* disagree for frameIndex %d" % i)
            co = dict(t.split(":") for t in [l for l in cl if l.startswith("o2f")][0].split()[1:])
            mo = dict(t.split(":") for t in [l for l in ml if l.startswith("o2f")][0].split()[1:])
            for p in s["o2f"]:
                if p >= n:
                    want = nf
                else:
                    want = max(i for i in range(nf) if D[i] <= p)      # last frame starting at or before p ...
                    if not (D[want] <= p < D[want + 1]):
                        raise Fail("internal: frame layout")
                if co[str(p)] != mo[str(p)]:
                    raise Fail("ZSTD_seekable_offsetToFrameIndex(%d) = %s, model %s" % (p, co[str(p)], mo[str(p)]))
                if int(co[str(p)]) != want:
                    raise Fail("ZSTD_seekable_offsetToFrameIndex(%d) = %s but the frame containing that offset is %d" % (p, co[str(p)], want))
            ctx.count(("table", s["mode"], s["cf"], min(nf, 3), nf * (12 if s["cf"] else 8) + 17 > 131072))
            ctx.cov["traces_validated_against_impl"] += 1
        except Fail as e:
            self.report(self.read_replay(s, upto=0), "seek table (%s access): %s" % (s["mode"], e))
            return
        except (IndexError, KeyError, ValueError) as e:
            self.report(self.read_replay(s, upto=0), "seek table: unparsable harness/model output (%r)" % (e,), no_input=True)
            return
        # ---- reads
        rl = [l for l in cl if l.split()[0] in ("r", "rf")]
        mrl = [l for l in ml if l.split()[0] in ("r", "rf")]
        if len(rl) != len(s["reads"]):
            self.report(self.read_replay(s), "harness printed %d read results for %d reads" % (len(rl), len(s["reads"])), no_input=True)
            return
        self.hist["mode"][s["mode"]] = self.hist["mode"].get(s["mode"], 0) + len(rl)
        prev_end = None
        for j, (rd, ln) in enumerate(zip(s["reads"], rl)):
            cmd, pos, d = kv(ln)
            try:
                kind, a, b = rd
                # --- direct oracle: what the property says this call must return
                if kind == "r":
                    off, ln_ = a, b
                    want_ret, want = str(ln_), x[off:off + ln_]
                else:
                    if a >= nf:
                        want_ret, want = "E100", None
                    elif b < log[a][1]:
                        want_ret, want = "E70", None
                    else:
                        off, ln_ = D[a], log[a][1]
                        want_ret, want = str(ln_), x[off:off + ln_]
                if d["ret"] != want_ret:
                    raise Fail("returned %s, expected %s" % (d["ret"], want_ret))
                if want is not None:
                    if d["crc"] != "%08x" % (zlib.crc32(want) & 0xFFFFFFFF) or ("data" in d and d["data"] != (want.hex() or "-")):
                        raise Fail("returned success with bytes that are not content[%d, %d)" % (off, off + ln_))
                    if d.get("tail") != "1":
                        raise Fail("wrote beyond the %d bytes it reported" % ln_)
                # --- model lock-step
                if s["model_reads"] and j < s.get("nomodel_from", 1 << 60):
                    mcmd, mpos, md = kv(mrl[j])
                    if mpos[2] not in ("ok", "err"):
                        raise Fail("model result '%s' (%s) when driven with the decoder results the code observed: the code's sequence of decoder calls is not the model's" % (mpos[2], mrl[j][:200]))
                    if norm_ret(md["ret"]) != d["ret"]:
                        raise Fail("returned %s, model %s" % (d["ret"], norm_ret(md["ret"])))
                    if md["cur"] != d["cur"] or md["doff"] != d["doff"]:
                        raise Fail("cache after the call: curFrame=%s decompressedOffset=%s, model %s / %s" % (d["cur"], d["doff"], md["cur"], md["doff"]))
                    ctr = [(":".join(t.split(":")[:2]) if t[0] == "R" else ":".join(t.split(":")[:3])) for t in d["tr"].split(";")] if d["tr"] != "-" else []
                    mtr = md["tr"].split(";") if md["tr"] != "-" else []
                    if ctr != mtr:
                        k = next((i for i in range(min(len(ctr), len(mtr))) if ctr[i] != mtr[i]), min(len(ctr), len(mtr)))
                        raise Fail("decoder call/restart sequence differs from the model at step %d: code %s, model %s (R:frame = restart at frame, k/d:size:pos = call with skip/dst buffer)"
                                   % (k, ctr[k:k + 2], mtr[k:k + 2]))
                    if want is not None:
                        mdst = b"" if md["dst"] == "-" else bytes.fromhex(md["dst"])
                        if mdst[:len(want)] != want:
                            raise Fail("model returned bytes that are not the content slice (model/extraction problem)")
                    ctx.cov["traces_validated_against_impl"] += 1
                # --- coverage signature
                tr = d["tr"].split(";") if d["tr"] != "-" else []
                nres = sum(1 for t in tr if t[0] == "R")
                sig = (kind, s["mode"], s["cf"], min(nres, 3), bool(tr) and tr[0][0] != "R", any(t[0] == "k" for t in tr),
                       (want is not None and len(want) == 0), (kind == "r" and a in D), (kind == "r" and (a + b) in D), want is None,
                       min(nf, 3))
                ctx.count(sig)
                self.hist["reads"] += 1
                if j < 2 and n > 5:
                    ctx.sample(dict(kind="read", archive=dict(content_len=n, frames=nf, cf=s["cf"], mode=s["mode"]), call=list(rd), ret=d["ret"],
                                    decoder_calls=len(tr), trace_head=tr[:6]))
            except Fail as e:
                what = "%s(%d, %d) after %d earlier calls on a %d-byte content in %d frames (%s access, checksum %d): %s" % (
                    "ZSTD_seekable_decompress" if rd[0] == "r" else "ZSTD_seekable_decompressFrame", rd[1], rd[2], j, n, nf, s["mode"], s["cf"], e)
                self.report(self.read_replay(s, upto=j, extra=dict(failing_call=list(rd), observed=ln[:400])), what)
                return
            except (IndexError, KeyError, ValueError) as e:
                self.report(self.read_replay(s, upto=j), "reads: unparsable harness/model output (%r): %s" % (e, ln[:200]), no_input=True)
                return

    # ------------------------------------------------------------------ phase D: corruptions (supporting test, sanitizers)
    def phase_corrupt(self):
        ctx, rng = self.ctx, self.rng
        pool = [s for s in getattr(self, "good_archives", []) if 0 < len(s["x"]) <= 20000 and len(s["log"]) <= 400]
        if not pool:
            return
        rng.shuffle(pool)
        pool = pool[: (6 if ctx.quick else 40)]
        exe = self.asan()
        variants = []
        for s in pool:
            arch, log, cf = s["arch"], s["log"], s["cf"]
            C, D = cum(log)
            tstart = C[-1]
            spe = 12 if cf else 8
            muts = []
            def setb(pos, data, cls, note):
                if 0 <= pos and pos + len(data) <= len(arch):
                    b = bytearray(arch)
                    b[pos:pos + len(data)] = data
                    if bytes(b) != arch:
                        muts.append((bytes(b), cls, note))
            nfo = len(arch) - 9
            # footer / header fields
            # (a footer claiming 2^29+m (no checksums) / 2^30+m (checksums) frames passes the U32 size check and makes the loader
            #  allocate >= 12 GiB and run 2^29 iterations: DESIGN section 7 non-finding, covered by theorem malformed_table_safe,
            #  deliberately NOT executed here)
            for v in (len(log) + 1, max(len(log) - 1, 0), 0, M32 - 1, 0x184D2A5E, (1 << 29) - 1, rng.getrandbits(32)):
                setb(nfo, struct.pack("<I", v), "T", "numFrames=%d" % v)
            for v in (0x80 if not cf else 0x00, 0x04, 0x7C, 0xFF, 0x01, 0x83 if cf else 0x03):
                setb(nfo + 4, bytes([v]), "T", "descriptor=0x%02x" % v)
            setb(nfo + 5, struct.pack("<I", 0x8F92EAB0), "T", "footer magic")
            setb(tstart, struct.pack("<I", 0x184D2A5F), "T", "skippable magic")
            for v in (0, spe * len(log) + 8, spe * len(log) + 10, M32 - 1, M32 - 8):
                setb(tstart + 4, struct.pack("<I", v), "T", "frame size field=%d" % v)
            # entries
            for _ in range(6 if ctx.quick else 20):
                if not log:
                    break
                i = rng.randrange(len(log))
                fld = rng.choice([0, 4] + ([8] if cf else []))
                v = rng.choice([0, 1, M32 - 1, rng.getrandbits(32), log[i][0 if fld == 0 else 1] + rng.choice([-1, 1, 2])]) & 0xFFFFFFFF
                setb(tstart + 8 + spe * i + fld, struct.pack("<I", v), "T", "entry %d field@%d=%d" % (i, fld, v))
            if len(log) >= 2:      # swap the sizes of two entries (consistent total)
                i = rng.randrange(len(log) - 1)
                e1 = arch[tstart + 8 + spe * i: tstart + 8 + spe * i + 8]
                e2 = arch[tstart + 8 + spe * (i + 1): tstart + 8 + spe * (i + 1) + 8]
                b = bytearray(arch)
                b[tstart + 8 + spe * i: tstart + 8 + spe * i + 8] = e2
                b[tstart + 8 + spe * (i + 1): tstart + 8 + spe * (i + 1) + 8] = e1
                if bytes(b) != arch:
                    muts.append((bytes(b), "T", "entries %d and %d swapped" % (i, i + 1)))
            # truncations / extensions
            for cut in (1, 4, 9, 10, len(arch) - tstart, len(arch) - tstart + 1, len(arch) - 1):
                if 0 < cut <= len(arch):
                    muts.append((arch[:len(arch) - cut], "T", "truncated by %d" % cut))
            muts.append((arch + b"\x00", "T", "one byte appended"))
            muts.append((arch[tstart:], "T", "seek table only"))
            muts.append((arch[-9:], "T", "footer only"))
            # frame bytes
            for _ in range(8 if ctx.quick else 30):
                if tstart == 0:
                    break
                p = rng.randrange(tstart)
                fi = max(i for i in range(len(log)) if C[i] <= p)
                setb(p, bytes([arch[p] ^ (1 << rng.randrange(8))]), "F%d" % fi, "bit flip at %d (frame %d)" % (p, fi))
            rng.shuffle(muts)
            for (b, cls, note) in muts[: (14 if ctx.quick else 60)]:
                variants.append(dict(s=s, arch=b, cls=cls, note=note))
        # syntactically valid tables with arbitrary sizes over junk
        for _ in range(6 if ctx.quick else 60):
            cf = rng.choice([0, 1])
            nfr = rng.choice([0, 1, 2, 3, 9])
            lg = [(rng.choice([0, 1, 9, 13, M32 - 1, rng.getrandbits(32)]), rng.choice([0, 1, 4, M32 - 1, rng.getrandbits(32)]), rng.getrandbits(32)) for _ in range(nfr)]
            junk = bytes(rng.getrandbits(8) for _ in range(rng.choice([0, 5, 40])))
            if pool and rng.random() < 0.5:
                junk = pool[0]["arch"][:pool[0]["arch"].__len__() - len(seek_table_bytes_py(pool[0]["cf"], pool[0]["log"]))]
            variants.append(dict(s=None, arch=junk + seek_table_bytes_py(cf, lg), cls="J", note="valid-syntax table %s over unrelated bytes" % (lg[:3],), log=lg, cf=cf))
        def claimed(v):
            a = v["arch"]
            return struct.unpack("<I", a[-9:-5])[0] if len(a) >= 9 else 0
        variants = [v for v in variants if claimed(v) <= (1 << 22) or len(v["arch"]) < claimed(v) * 8]
        # run: small groups per process so that a sanitizer abort / hang is attributed; the rest of a group is re-run
        vid = 0
        for v in variants:
            v["id"] = "k%d" % vid
            vid += 1
            v["apath"] = self.blob(v["arch"], "cor")
            s = v["s"]
            v["mode"] = rng.choice(["mem", "mem", "file", "cb"])
            rds = []
            if s is not None:
                n = len(s["x"])
                _, D = cum(s["log"])
                rds.append(("r", 0, n))
                for _ in range(5):
                    o = rng.choice(D + [rng.randint(0, n)])
                    o = min(o, n)
                    rds.append(("r", o, rng.choice([0, 1, n - o, rng.randint(0, n - o)])))
                for i in range(min(len(s["log"]) + 1, 6)):
                    rds.append(("rf", i, max(d for (_c, d, _k) in s["log"]) if s["log"] else 1))
            else:
                tot = sum(d for (_c, d, _k) in v["log"])
                rds += [("r", 0, min(tot, 70000)), ("r", rng.randint(0, min(tot, 1 << 20)), 100), ("rf", 0, 70000), ("rf", max(len(v["log"]) - 1, 0), 10)]
            v["reads"] = rds
        todo = list(variants)
        while todo and self.nviol < MAX_VIOL:
            g, todo = todo[:12], todo[12:]
            bad = self.run_corrupt_group(g, exe)
            if bad is not None:
                todo = g[g.index(bad) + 1:] + todo

    def corrupt_ctext(self, v):
        s = v["s"]
        ctext = ["# case %s" % v["id"]]
        if s is not None:
            ctext.append("content_file %s" % s["xpath"])
        ctext += ["archive_file %s" % v["apath"], "open %s %s" % (v["mode"], self.path(v["id"] + ".f") if v["mode"] == "file" else ""), "table", "entries"]
        ctext += ["%s %d %d" % r for r in v["reads"]] + ["close"]
        return ctext

    def run_corrupt_group(self, g, exe, timeout=10):
        """returns the variant on which the process died / hung (after reporting it), or None"""
        ctext, mtext = [], []
        for v in g:
            ctext += self.corrupt_ctext(v)
            mtext += ["# case %s" % v["id"], "loadfile %s" % v["apath"]]
        rc, clines, cerr = self.run_c("\n".join(ctext) + "\n", exe=exe, timeout=timeout, linebuf=True)
        cs = self.sections(clines)
        bad = None
        if rc != 0:
            last = [l for l in clines if l.startswith("# case ")]
            bad = next((v for v in g if last and v["id"] == last[-1].split()[2]), g[0])
            done = cs.get(bad["id"], [])
            opl = [l for l in done if l.startswith("open ")]
            key = None
            first = next((l for l in cerr.split("\n") if "ERROR" in l or "runtime error" in l or "Assertion" in l), (cerr.strip().split("\n") or ["?"])[0])
            self.report(self.corrupt_replay(bad, extra=dict(rc=rc, stderr=cerr[-3000:], completed_lines=done[-4:])),
                        "%s on a corrupted archive (%s, %s access); last completed: %s | %s" % (
                            "HANG (no return within %ds)" % timeout if rc == 124 else "sanitizer report / crash (rc=%d)" % rc,
                            bad["note"], bad["mode"], (done[-1][:120] if done else "-"), first[:300]), key=key)
        mlines = self.run_m("\n".join(mtext) + "\n")
        ms = self.sections(mlines)
        for v in g:
            if v is bad:
                break
            self.compare_corrupt(v, cs.get(v["id"], []), ms.get(v["id"], []))
        return bad

    def phase_overlong_frame(self):
        """Regression corpus case (was finding 'overlong-frame-unchecked', repaired in /repo by 943db3b): two 7-byte frames,
        checksums on; the Raw block header of frame 0 is patched from size 7 to size 14, so the frame regenerates its own 7
        bytes plus the next 7 archive bytes.  Before the repair ZSTD_seekable_decompress(dst, 8, 0) returned 8 with the surplus
        byte 0x28 where content byte 0x37 belongs.  Every read must return an error or exactly the content slice."""
        x = bytes(range(0x30, 0x30 + 14))
        xp = self.blob(x, "x")
        ap = self.path("overlong.zst")
        rc, cl, cerr = self.run_c("content_file %s\ncinit 3 1 7\nfinish 1000 1000\nlog\nsave %s\n" % (xp, ap))
        if rc != 0 or not os.path.exists(ap):
            self.report(dict(kind="overlong-frame", rc=rc), "could not build the overlong-frame corpus archive", no_input=True)
            return
        arch = bytearray(open(ap, "rb").read())
        if arch[:9] != bytes.fromhex("28b52ffd0000390000"):
            core.log("C20: overlong-frame corpus: frame 0 is not a raw block any more (%s); case skipped" % arch[:9].hex())
            return
        arch[6] = 0x71
        for mode in ("mem", "file", "cb"):
            v = dict(s=None, arch=bytes(arch), cls="F0", note="frame 0 block header: Raw size 7 -> 14 (frame regenerates 14 bytes, table entry says 7), checksums on",
                     log=[], cf=1, id="ol_" + mode, mode=mode, reads=[("r", 0, 8), ("r", 0, 14), ("r", 0, 7), ("r", 7, 7), ("r", 3, 9)])
            v["apath"] = self.blob(v["arch"], "cor")
            rc, cl, cerr = self.run_c("\n".join(["content_file %s" % xp] + self.corrupt_ctext(v)) + "\n", timeout=20, linebuf=True)
            rl = [l for l in cl if l.startswith("r ")]
            try:
                if rc != 0 or len(rl) != len(v["reads"]):
                    raise Fail("crash / hang (rc=%d) on the overlong-frame archive: %s" % (rc, cerr[-300:]))
                for rd, ln in zip(v["reads"], rl):
                    d = kv(ln)[2]
                    off, n = rd[1], rd[2]
                    if d["ret"].startswith("E"):
                        continue
                    if d["ret"] != str(n) or d.get("data", "-") != (x[off:off + n].hex() or "-"):
                        self.report(self.corrupt_replay(v, extra=dict(kind="overlong-frame", failing_call=list(rd), observed=ln[:300], content_hex=x.hex())),
                                    "a frame regenerating more than its seek-table entry says (content 30..3d, initCStream(level 3, checksumFlag 1, "
                                    "maxFrameSize 7), archive byte 6 0x39 -> 0x71): ZSTD_seekable_decompress(dst, %d, %d) (%s access) returns %s with "
                                    "bytes %s, content is %s - success with wrong data although checksums are on"
                                    % (n, off, mode, d["ret"], d.get("data"), x[off:off + n].hex()))
                        break
                self.ctx.count(("overlong-frame", mode))
            except Fail as e:
                self.report(self.corrupt_replay(v, extra=dict(kind="overlong-frame")), "overlong-frame archive: " + str(e))
            except (IndexError, KeyError, ValueError) as e:
                self.report(self.corrupt_replay(v), "overlong-frame archive: unparsable output (%r)" % (e,), no_input=True)

    def phase_io_fault(self):
        """Transient I/O errors of a callback source (fault injection in the harness' own read/seek pair) on VALID archives:
        after a call that failed with seekableIO every later call must return an error or exactly the content slice.
        (Regression for finding 'seek-failure-stale-cache', repaired in /repo by c859e4f: a failed seek left the cache claiming the
        new position and the next read of that frame continued from the old decoder position.)"""
        ctx, rng = self.ctx, self.rng
        x = bytes(range(0x30, 0x30 + 21))
        xp = self.blob(x, "x")
        scen = []          # (cf, [commands]) ; reads are ('r', off, len), faults ('cbfail', kind, k)
        base = [("r", 15, 2), ("cbfail", "seek", 1), ("r", 1, 3), ("r", 1, 3), ("r", 1, 3), ("r", 0, 21)]
        for cf in (0, 1):
            scen.append((cf, base))
            scen.append((cf, [("r", 8, 2), ("cbfail", "seek", 1), ("r", 15, 1), ("r", 16, 2), ("r", 14, 7), ("cbfail", "read", 1), ("r", 0, 5), ("r", 0, 5), ("r", 2, 9)]))
        # round 3: a read callback that fails AFTER transferring part of the bytes (its read head has moved: fread() leaves the file position
        # indeterminate after an error, a read(2) loop has consumed what it got).  Key C20-read-failure-keeps-position.
        for cf in (0, 1):
            scen.append((cf, [("cbfail", "readpart", 3), ("r", 0, 7), ("r", 0, 7), ("r", 7, 7), ("r", 0, 7)]))
            scen.append((cf, [("r", 7, 2), ("cbfail", "readpart", 1), ("r", 9, 5), ("r", 9, 5), ("r", 10, 11), ("cbfail", "readpart", 2), ("r", 0, 21), ("r", 3, 4), ("r", 3, 18)]))
        for _ in range(6 if ctx.quick else 60):
            cmds = []
            for _ in range(rng.randint(3, 9)):
                if rng.random() < 0.35:
                    cmds.append(("cbfail", rng.choice(["seek", "seek", "read", "readpart"]), rng.choice([1, 1, 2, 3])))
                o = rng.randint(0, 21)
                cmds.append(("r", o, rng.randint(0, 21 - o)))
            scen.append((rng.choice([0, 1]), cmds))
        for k, (cf, cmds) in enumerate(scen):
            ap = self.path("iof%d.zst" % k)
            text = ["content_file %s" % xp, "cinit 3 %d 7" % cf, "finish 1000 1000", "save %s" % ap, "open cb"]
            text += ["%s %s %s" % c for c in cmds] + ["close"]
            rc, cl, cerr = self.run_c("\n".join(text) + "\n", timeout=30, linebuf=True)
            rl = [l for l in cl if l.startswith("r ")]
            reads = [c for c in cmds if c[0] == "r"]
            replay = dict(kind="io-fault", content_hex=x.hex(), cf=cf, mfs=7, level=3, mode="cb", commands=[list(c) for c in cmds], rc=rc, seed=ctx.seed)
            try:
                if rc != 0 or len(rl) != len(reads):
                    raise Fail("crash / hang (rc=%d) with a callback source that fails transiently: %s" % (rc, cerr[-300:]))
                failed_before = False
                partial = any(c[0] == "cbfail" and c[1] == "readpart" for c in cmds)
                done = " ; ".join("%s %s %s" % c for c in cmds)
                # armed_before[j]: an injected fault is pending when read j starts (so it may legitimately fail)
                armed, armed_before, jj = 0, [], 0
                for c in cmds:
                    if c[0] == "cbfail":
                        armed = 1
                    else:
                        armed_before.append(armed)
                        armed = int(kv(rl[jj])[2].get("armed", "1")) if jj < len(rl) else 1
                        jj += 1
                for j, (rd, ln) in enumerate(zip(reads, rl)):
                    d = kv(ln)[2]
                    off, n = rd[1], rd[2]
                    if d["ret"].startswith("E"):
                        if failed_before and not armed_before[j]:
                            # the faults are transient and none is pending: the archive is valid, the source works - the call must succeed
                            self.report(dict(replay, failing_read=j, observed=ln[:300]),
                                        "a read on a VALID archive fails with %s although no injected fault is pending any more: an earlier call failed with a transient "
                                        "I/O error and the reader goes on from a position it no longer has. Repro: content 30..44, initCStream(level 3, checksumFlag %d, "
                                        "maxFrameSize 7), callback access, commands [%s] (cbfail readpart k = the k-th next read callback transfers half of the bytes, "
                                        "advances and fails once): read #%d decompress(dst, %d, %d)" % (d["ret"], cf, done, j, n, off),
                                        key=(self.K_READFAIL if partial else None))
                            break
                        failed_before = True
                        continue
                    if d["ret"] != str(n) or d.get("data", "-") != (x[off:off + n].hex() or "-"):
                        self.report(dict(replay, failing_read=j, observed=ln[:300]),
                                    "a read after a transient I/O error of the callback source returns success with wrong bytes. Repro: content 30..44, initCStream(level 3, checksumFlag %d, maxFrameSize 7), callback access, "
                                    "commands [%s] (cbfail seek k = the k-th next seek callback fails once; cbfail readpart k = the k-th next read callback transfers half "
                                    "of the bytes, advances and fails once): read #%d decompress(dst, %d, %d) returns %s "
                                    "with bytes %s, content is %s" % (cf, done, j, n, off, d["ret"], d.get("data"), x[off:off + n].hex()),
                                    key=(self.K_READFAIL if partial else None))
                        break
                ctx.count(("io-fault", cf, any(c[0] == "cbfail" and c[1] == "seek" for c in cmds), any(c[0] == "cbfail" and c[1] == "read" for c in cmds)))
            except Fail as e:
                self.report(replay, "I/O fault injection: " + str(e))
            except (IndexError, KeyError, ValueError) as e:
                self.report(replay, "I/O fault injection: unparsable output (%r)" % (e,), no_input=True)

    def phase_reinit(self):
        """one ZSTD_seekable object initialised again and again (valid archive, archive with a damaged seek table, valid again):
        a failed init must leave the object usable and freeable, a later successful init must read back the content"""
        ctx, rng = self.ctx, self.rng
        x = bytes((7 * i + 3) & 255 for i in range(60))
        xp = self.blob(x, "x")
        for k, (cf, dmg) in enumerate(((0, "magic"), (1, "count"), (0, "descr"), (1, "magic"))):
            ap = self.path("rei%d.zst" % k)
            # archive layout: ... seek table = skippable frame whose last 9 bytes are numFrames(4) descriptor(1) magic(4)
            head = ["content_file %s" % xp, "cinit 3 %d 16" % cf, "finish 1000 1000", "save %s" % ap, "open mem", "r 5 20", "xpos"]
            rc0, cl0, _ = self.run_c("\n".join(head) + "\nclose\n", timeout=30, linebuf=True)
            alen = None
            for l in cl0:
                if l.startswith("save"):
                    try:
                        alen = int(kv(l)[2].get("n", "0"))
                    except Exception:
                        alen = None
            if not alen:
                try:
                    alen = os.path.getsize(ap)
                except OSError:
                    continue
            pos = {"magic": alen - 1, "count": alen - 9, "descr": alen - 5}[dmg]
            bad = {"magic": "00", "count": "ff", "descr": "7f"}[dmg]
            text = head + ["setbytes %d %s" % (pos, bad), "reopen", "r 0 5", "archive_file %s" % ap, "reopen", "r 5 20", "r 0 60", "close"]
            rc, cl, cerr = self.run_c("\n".join(text) + "\n", timeout=30, linebuf=True)
            replay = dict(kind="reinit", content_hex=x.hex(), cf=cf, damage=dmg, commands=text, rc=rc, seed=ctx.seed)
            rl = [l for l in cl if l.startswith("r ")]
            ro = [l for l in cl if l.startswith("reopen")]
            try:
                if rc != 0 or len(ro) != 2 or len(rl) != 4:
                    raise Fail("crash / abort (rc=%d) when a ZSTD_seekable object is initialised again after an init that failed on a damaged seek table (%s): %s"
                               % (rc, dmg, (cerr or "")[-300:]))
                if "E" not in kv(ro[0])[2].get("ret", "E"):
                    pass      # the damage happened to leave a loadable table: nothing to say
                if kv(ro[1])[2].get("ret", "E").startswith("E"):
                    raise Fail("a valid archive is refused by an object whose previous init failed (%s)" % dmg)
                for ln, (off, n) in zip(rl[2:], ((5, 20), (0, 60))):
                    d = kv(ln)[2]
                    want = x[off:off + n]
                    okdata = (d["data"] == want.hex()) if "data" in d else (d.get("crc") == "%08x" % (zlib.crc32(want) & 0xFFFFFFFF))
                    if d["ret"] != str(n) or not okdata:
                        raise Fail("after re-initialisation on the valid archive decompress(dst, %d, %d) returns %s / %s" % (n, off, d["ret"], d.get("data", "-")[:60]))
                ctx.count(("reinit", cf, dmg))
            except Fail as e:
                self.report(replay, "re-initialisation: " + str(e))
            except (IndexError, KeyError, ValueError) as e:
                self.report(replay, "re-initialisation: unparsable output (%r)" % (e,), no_input=True)

    # ------------------------------------------------------------------ round 2: call histories / configurations round 1 never generated
    K_ENDFRAME = "C20-endframe-pending-then-compress"
    K_REINIT = "C20-reinit-stale-buffer-size"
    K_CFLAG = "C20-checksumflag-not-boolean"
    K_BEYOND = "C20-offset-beyond-end"
    K_EXACT = "C20-exact-frame-read-unchecked"

    @staticmethod
    def _read_ok(d, want):
        """does an 'r'/'rf' result line report exactly the bytes `want`?"""
        if d.get("ret", "E") != str(len(want)):
            return False
        if "data" in d:
            return d["data"] == (want.hex() or "-")
        return d.get("crc") == "%08x" % (zlib.crc32(want) & 0xFFFFFFFF)

    def phase_r2_endframe_pending(self):
        """ZSTD_seekable_endFrame called ONCE with too little output room (it returns > 0, the frame epilogue is still inside the
        inner ZSTD_CStream) and the caller goes on with ZSTD_seekable_compressStream - 'at any time, call ZSTD_seekable_endFrame()'.
        Run through the whole archive pipeline (model lock-step, archive == frames of the log || table, frame walk, regular decoder,
        then the read phase): one seek-table entry must describe one zstd frame."""
        rng, ctx = self.rng, self.ctx
        specs = []

        def add(x, mfs, cf, ops, tag, ccap=4096, scap=4096, level=3):
            specs.append(dict(id="p%d" % len(specs), x=x, kind="count", mfs=mfs, cf=cf, level=level, ops=ops, ccap=ccap, scap=scap, tag=tag))
        x20 = bytes(range(0x30, 0x30 + 20))
        for cf in (0, 1):
            add(x20, 0, cf, ["c 10 4096", "e1 2", "c 10 4096"], "pending-then-compress")
            add(x20, 7, cf, ["c 3 64", "e1 0", "c 100 64"], "pending-room0-then-compress")
            add(x20, 0, cf, ["c 10 4096", "e1 2", "e 4096", "c 10 4096"], "pending-then-finished")        # the flush is completed first: always fine
            add(x20, 0, cf, ["c 20 4096", "e1 1"], "pending-then-endStream")                               # endStream finishes the frame itself
            add(x20, 5, cf, ["c 5 0", "c 0 1", "e1 3", "c 5 4096"], "auto-end-pending-then-explicit")      # automatic end at maxFrameSize still flushing
            add(x20, 0, cf, ["c 10 4096", "e1 0", "c 5 1", "c 5 0", "c 5 4096"], "pending-through-two-small-rooms")  # still pending after the first compressStream
        for cf in (0, 1):      # ZSTD_seekable_endStream called again and again after it returned 0: returns 0, writes nothing
            add(x20, 7, cf, ["c 7 4096", "c 7 4096", "c 7 4096", "s 4096", "s 4096", "s 0", "s 3"], "endStream-after-completion")
            add(x20, 7, cf, ["c 7 4096", "c 7 4096", "c 7 4096", "s 5", "s 0", "s 1", "s 0", "s 4096", "s 1"], "endStream-rooms-then-again")
        for _ in range(4 if ctx.quick else 40):
            n = rng.randint(2, 600)
            x = gen_content(rng, n, rng.choice(["text", "count", "rand"]))
            ops = []
            for _ in range(rng.randint(1, 5)):
                ops.append("c %d %d" % (rng.randint(1, max(1, n // 2)), rng.choice([0, 1, 5, 64, 4096])))
                if rng.random() < 0.7:
                    ops.append("e1 %d" % rng.choice([0, 1, 2, 3, 5, 8]))
            add(x, rng.choice([0, 0, 7, 64, max(1, n // 3)]), rng.choice([0, 1]), ops, "pending-random", ccap=rng.choice([4096, 64, 9]), scap=rng.choice([4096, 7]))

        def key_of(s):
            ops = s["ops"]
            return self.K_ENDFRAME if any(o.startswith("e1") for o in ops) else None
        self.phase_archives(specs=specs, key_of=key_of)

    def phase_r2_reinit_modes(self):
        """one ZSTD_seekable object bound to a small archive, then initialised again on a larger one through another (or the same)
        access mode: every read of the second archive must return its content slice; the independent ZSTD_seekTable must outlive
        the object.  (The header: the source must stay alive 'until the ZSTD_seekable object is freed or reset'.)"""
        ctx = self.ctx
        x1 = b"012"
        x2 = bytes((11 * i + 5) & 255 for i in range(80))
        p1, p2 = self.blob(x1, "x"), self.blob(x2, "x")
        fpath = self.path("r2reinit.f")
        reads = [("r", 0, 80), ("r", 30, 20), ("r", 41, 3), ("rf", 1, 40), ("r", 39, 2), ("r", 0, 80)]
        first = {"mem": "open mem", "file": "open file %s" % self.path("r2reinit0.f"), "cb": "open cb"}
        second = {"mem": "reopen", "file": "reopenf %s" % fpath, "cb": "reopencb"}
        leak_noted = False
        for m1 in ("mem", "file", "cb"):
            for m2 in ("mem", "file", "cb"):
                for cf in ((0, 1) if m1 == "mem" else (ctx.seed & 1,)):
                    text = ["content_file %s" % p1, "cinit 3 %d 0" % cf, "finish 1000 1000", first[m1], "r 0 3",
                            "content_file %s" % p2, "cinit 3 %d 40" % cf, "finish 1000 1000", second[m2]]
                    text += ["%s %d %d" % r for r in reads] + ["stfree"]
                    rc, cl, cerr = self.run_c("\n".join(text) + "\n", timeout=30, linebuf=True)
                    replay = dict(kind="r2", scenario="reinit-modes", first=m1, second=m2, cf=cf, commands=text, rc=rc, seed=ctx.seed)
                    rl = [l for l in cl if l.split()[:1] and l.split()[0] in ("r", "rf")]
                    try:
                        if rc != 0 or len(rl) != len(reads) + 1 or not any(l.startswith("stfree n=") for l in cl):
                            raise Fail("crash / abort (rc=%d): %s" % (rc, (cerr or "")[-300:]))
                        ro = [l for l in cl if l.startswith("reopen")]
                        if not ro or kv(ro[0])[2].get("ret", "E").startswith("E"):
                            raise Fail("the second init (%s) refuses a valid archive: %s" % (second[m2].split()[0], ro[:1]))
                        for rd, ln in zip(reads, rl[1:]):
                            d = kv(ln)[2]
                            want = x2[rd[1]:rd[1] + rd[2]] if rd[0] == "r" else x2[40 * rd[1]:40 * rd[1] + 40]
                            if not self._read_ok(d, want):
                                self.report(dict(replay, failing_call=list(rd), observed=ln[:300]),
                                            "one ZSTD_seekable object initialised on a 37-byte archive (content '012', %s access) and then initialised again on a valid "
                                            "148-byte archive (80 bytes, maxFrameSize 40, checksumFlag %d, %s access): %s(%d, %d) returns %s instead of the content "
                                            "slice (same calls on a fresh object succeed)"
                                            % (m1, cf, m2, "ZSTD_seekable_decompress" if rd[0] == "r" else "ZSTD_seekable_decompressFrame", rd[1], rd[2], d.get("ret")),
                                            key=self.K_REINIT)
                                break
                        st = [l for l in cl if l.startswith("stfree n=")][0]
                        if not st.startswith("stfree n=3 : 0:0:0:") or " 2:" not in st:
                            raise Fail("the ZSTD_seekTable copied from the object does not describe the archive after the object is freed: %s" % st[:200])
                        ctx.count(("r2-reinit", m1, m2, cf))
                    except Fail as e:
                        self.report(replay, "re-initialisation across access modes: " + str(e))
                    except (IndexError, KeyError, ValueError) as e:
                        self.report(replay, "re-initialisation across access modes: unparsable output (%r)" % (e,), no_input=True)
                    if not leak_noted and m1 == "mem" and m2 == "file":
                        # informational (a leak is not part of the property): does a second successful init release the first table?
                        rc2, _cl2, cerr2 = self.run_c("\n".join(text) + "\nclose\n", exe=self.asan(), timeout=60, linebuf=True)
                        ctx.notes["reinit_leaks_previous_table"] = bool("LeakSanitizer" in (cerr2 or "") and "ZSTD_seekable_loadSeekTable" in (cerr2 or ""))
                        leak_noted = True

    def phase_r2_checksum_flag(self):
        """checksumFlag is documented as 'whether or not the seek table should include frame checksums': every non-zero value must
        give an archive the seekable reader opens and reads back"""
        ctx = self.ctx
        x = bytes(range(0x30, 0x30 + 20))
        xp = self.blob(x, "x")
        for api in ("stream", "raw"):
            for cf in (2, 3, 4, 256, 1):
                build = ["cinit 3 %d 7" % cf, "finish 1000 1000"] if api == "stream" else ["rawarch %d 0 3 7" % cf]
                text = ["content_file %s" % xp] + build + ["frames", "regular", "open mem", "r 0 20", "r 5 9", "rf 2 6", "close"]
                rc, cl, cerr = self.run_c("\n".join(text) + "\n", timeout=30, linebuf=True)
                replay = dict(kind="r2", scenario="checksum-flag", api=api, cf=cf, content_hex=x.hex(), commands=text, rc=rc, seed=ctx.seed)
                try:
                    if rc != 0:
                        raise Fail("crash (rc=%d): %s" % (rc, (cerr or "")[-300:]))
                    reg = kv([l for l in cl if l.startswith("regular")][0])[2]
                    if reg["err"] != "0" or reg["same"] != "1":
                        raise Fail("a regular decoder does not regenerate the content: %s" % reg)
                    op = kv([l for l in cl if l.startswith("open")][0])[2]
                    rl = [l for l in cl if l.split()[:1] and l.split()[0] in ("r", "rf")]
                    bad = None
                    if op.get("ret", "E").startswith("E"):
                        bad = "ZSTD_seekable_initBuff returns %s" % op.get("ret")
                    else:
                        for (want, ln) in zip((x, x[5:14], x[14:20]), rl):
                            if not self._read_ok(kv(ln)[2], want):
                                bad = "read '%s' returns %s" % (" ".join(ln.split()[:3]), kv(ln)[2].get("ret"))
                                break
                    if bad:
                        self.report(replay, "checksumFlag = %d (%s): the archive is written without any error (content 30..43, frames of 7 bytes; 12-byte table "
                                    "entries, descriptor byte (BYTE)(%d << 7) = 0x%02x) but the seekable reader cannot use it: %s"
                                    % (cf, "ZSTD_seekable_initCStream" if api == "stream" else "ZSTD_seekable_createFrameLog", cf, (cf << 7) & 255, bad), key=self.K_CFLAG)
                    ctx.count(("r2-cflag", api, cf))
                except Fail as e:
                    self.report(replay, "checksumFlag %d: %s" % (cf, e))
                except (IndexError, KeyError, ValueError) as e:
                    self.report(replay, "checksumFlag %d: unparsable output (%r)" % (cf, e), no_input=True)

    def phase_r2_beyond_end(self):
        """ZSTD_seekable_decompress with an offset at / beyond the end of the content: 'the return value is the number of bytes
        decompressed, or an error code': it must return, and return an error or a count it has actually written (0)"""
        ctx = self.ctx
        x = bytes(range(0x30, 0x30 + 20))
        xp = self.blob(x, "x")
        reads0 = [(20, 4), (19, 4), (21, 4), (220, 4), (20 + M32, 1), (M64 - 200, 100), (20, 0), (5, 3)]
        for mode in ("mem", "file", "cb"):
            for cf in (0, 1):
                if mode != "mem" and cf != (ctx.seed & 1):
                    continue
                # offset + len wrapping around 2^64 (a call that may not return costs the 10 s limit: one probe per run)
                reads = reads0 + ([(M64 - 1, 2), (6, 2), (M64 - 1, 1), (7, 2)] if (mode == "mem" and cf == (ctx.seed & 1)) else [])
                text = ["content_file %s" % xp, "cinit 3 %d 7" % cf, "finish 1000 1000", "open %s %s" % (mode, self.path("r2be.f") if mode == "file" else "")]
                text += ["r %d %d" % r for r in reads] + ["close"]
                rc, cl, cerr = self.run_c("\n".join(text) + "\n", timeout=10, linebuf=True)
                replay = dict(kind="r2", scenario="beyond-end", mode=mode, cf=cf, content_hex=x.hex(), commands=text, rc=rc, seed=ctx.seed)
                rl = [l for l in cl if l.startswith("r ")]
                try:
                    for (off, n), ln in zip(reads, rl):
                        d = kv(ln)[2]
                        want = x[off:off + n] if off < len(x) else b""
                        if d["ret"].startswith("E") and off >= len(x):
                            continue
                        if not self._read_ok(d, want):
                            self.report(dict(replay, failing_call=[off, n], observed=ln[:200]),
                                        "ZSTD_seekable_decompress(dst, %d, offset %d) on a 20-byte content (%s access) returns %s: neither an error code nor a number "
                                        "of bytes it decompressed (nothing is written; len = eos - offset wraps in U64)" % (n, off, mode, d["ret"]), key=self.K_BEYOND)
                            break
                    if len(rl) < len(reads):
                        off, n = reads[len(rl)]
                        how = "does not return (10 s)" if rc == 124 else "crashes (rc=%d)" % rc
                        self.report(dict(replay, failing_call=[off, n]),
                                    "ZSTD_seekable_decompress(dst, %d, offset %d) on a 20-byte content (%s access) %s: offset + len wraps around 2^64, the length "
                                    "clamp is skipped and the outer do-while never reaches decompressedOffset == offset + len" % (n, off, mode, how), key=self.K_BEYOND)
                    elif rc != 0:
                        raise Fail("crash (rc=%d): %s" % (rc, (cerr or "")[-300:]))
                    ctx.count(("r2-beyond", mode, cf))
                except Fail as e:
                    self.report(replay, "reads beyond the end: " + str(e))
                except (IndexError, KeyError, ValueError) as e:
                    self.report(replay, "reads beyond the end: unparsable output (%r)" % (e,), no_input=True)

    def phase_r2_misc(self):
        """(a) callbacks returning positive values on success (the header: 'a non-negative value in case of success');
        (b) ZSTD_seekable_initCStream on an object whose previous session was abandoned at an awkward point (frame end pending,
        table half written, other flag / frame size): the new session's archive must be byte-identical to the one a fresh object
        writes, and read back."""
        ctx, rng = self.ctx, self.rng
        x = bytes(range(0x30, 0x30 + 21))
        xp = self.blob(x, "x")
        # (a)
        for okv in (1, 7, 2147483647):
            cf = rng.choice([0, 1])
            rds = [(0, 21), (15, 2), (1, 3), (6, 9), (20, 1), (0, 1)]
            text = ["content_file %s" % xp, "cinit 3 %d 7" % cf, "finish 1000 1000", "cbret %d" % okv, "open cb"] + ["r %d %d" % r for r in rds] + ["close", "cbret 0"]
            rc, cl, cerr = self.run_c("\n".join(text) + "\n", timeout=30, linebuf=True)
            replay = dict(kind="r2", scenario="misc", sub="cbret", value=okv, cf=cf, commands=text, rc=rc, seed=ctx.seed)
            rl = [l for l in cl if l.startswith("r ")]
            try:
                if rc != 0 or len(rl) != len(rds):
                    raise Fail("crash / refused (rc=%d): %s %s" % (rc, [l for l in cl if l.startswith("open")][:1], (cerr or "")[-200:]))
                for (off, n), ln in zip(rds, rl):
                    if not self._read_ok(kv(ln)[2], x[off:off + n]):
                        raise Fail("decompress(dst, %d, %d) returns %s" % (n, off, kv(ln)[2].get("ret")))
                ctx.count(("r2-cbret", okv > 1))
            except Fail as e:
                self.report(replay, "callback source whose read/seek return %d (a non-negative value) on success: %s" % (okv, e))
            except (IndexError, KeyError, ValueError) as e:
                self.report(replay, "callback return values: unparsable output (%r)" % (e,), no_input=True)
        # (b)
        sessA = [["cinit 3 1 7", "c 10 64", "e1 1"], ["cinit 3 1 7", "c 21 1000", "s 1000"], ["cinit 3 1 5", "c 21 1000", "s 9", "s 3"],
                 ["cinit 3 0 0", "c 4 0"], ["cinit 3 1 %d" % ((1 << 30) + 1)], ["cinit 3 1 3", "c 2 64", "cinit 3 0 %d" % ((1 << 30) + 7)]]
        for k, pre in enumerate(sessA):
            cfB, mfsB = rng.choice([(1, 7), (0, 7), (1, 4), (1, 0), (0, 21)])
            sess = ["cinit 3 %d %d" % (cfB, mfsB), "finish %d %d" % (rng.choice([1000, 3]), rng.choice([1000, 2]))]
            p0, p1 = self.path("r2ci0_%d.zst" % k), self.path("r2ci1_%d.zst" % k)
            rc0, cl0, _ = self.run_c("\n".join(["content_file %s" % xp] + sess + ["save %s" % p0]) + "\n", timeout=30)
            text = ["content_file %s" % xp] + pre + ["content_file %s" % xp] + sess + ["save %s" % p1, "frames", "regular", "open mem", "r 0 21", "r 6 9", "close"]
            rc, cl, cerr = self.run_c("\n".join(text) + "\n", timeout=30, linebuf=True)
            replay = dict(kind="r2", scenario="misc", sub="cinit-twice", abandoned=pre, session=sess, content_hex=x.hex(), rc=rc, seed=ctx.seed)
            try:
                if rc0 != 0 or rc != 0:
                    raise Fail("crash (rc=%d/%d): %s" % (rc0, rc, (cerr or "")[-300:]))
                a0, a1 = open(p0, "rb").read(), open(p1, "rb").read()
                if a0 != a1:
                    raise Fail("the archive differs from the one a fresh object writes with the same calls (%d vs %d bytes: %s.. / %s..)" % (len(a1), len(a0), a1.hex()[:80], a0.hex()[:80]))
                rl = [l for l in cl if l.startswith("r ")]
                if len(rl) != 2 or not self._read_ok(kv(rl[0])[2], x) or not self._read_ok(kv(rl[1])[2], x[6:15]):
                    raise Fail("the archive does not read back: %s" % [l[:80] for l in rl])
                ctx.count(("r2-cinit-twice", k))
            except Fail as e:
                self.report(replay, "ZSTD_seekable_initCStream on an object whose previous session was abandoned (%s): %s" % (pre, e))
            except (IndexError, KeyError, ValueError, OSError) as e:
                self.report(replay, "initCStream twice: unparsable output (%r)" % (e,), no_input=True)

    # ------------------------------------------------------------------ round 3
    K_NFWRAP = "C20-loader-numframes-wraps-table-size"
    K_READFAIL = "C20-read-failure-keeps-position"

    def phase_r3_numframes_wrap(self):
        """Number_Of_Frames values for which the loader's U32 arithmetic sizePerEntry * numFrames + 17 wraps onto the size of the table the
        file really holds (numFrames = k + m * 2^29 without checksums, k + m * 2^30 with): the table is malformed (it announces more
        entries than the skippable frame has room for) and must be refused like every other inconsistent count, BEFORE the loader asks for
        24 * (numFrames + 1) bytes.  Run under a 3 GiB address-space cap: a loader that passed its checks shows up as memory_allocation
        (or, without the cap, as success with 2^29 + k fabricated entries after touching 12 GiB)."""
        ctx = self.ctx
        x = bytes(range(0x30, 0x30 + 10))
        xp = self.blob(x, "x")
        for cf, mfs in ((0, 5), (1, 5), (0, 10), (1, 3)):
            ap = self.path("r3nf_%d_%d.zst" % (cf, mfs))
            rc0, cl0, _ = self.run_c("\n".join(["content_file %s" % xp, "cinit 3 %d %d" % (cf, mfs), "finish 1000 1000", "save %s" % ap]) + "\n", timeout=30)
            arch = open(ap, "rb").read() if rc0 == 0 and os.path.exists(ap) else b""
            if len(arch) < 17:
                self.report(dict(kind="r3", scenario="numframes-wrap", cf=cf, mfs=mfs, rc=rc0, seed=ctx.seed), "could not build the base archive", no_input=True)
                continue
            k = struct.unpack("<I", arch[-9:-5])[0]
            step = (1 << 30) if cf else (1 << 29)
            # wrapping counts, and - as controls - inconsistent counts that do not wrap onto the real size
            cands = [(k + m * step, True) for m in ((1, 2, 3) if cf else (1, 2, 7))] + [(k + 1, False), (k + step - 1, False), (k + step + 1, False), ((1 << 27) + 1, False), (1 << 27, False), ((1 << 27) - 1, False)]
            for (nf, wraps) in cands:
                for mode in (("mem", "file", "cb") if wraps and nf == k + step else ("mem",)):
                    text = ["archive_file %s" % ap, "setbytes %d %s" % (len(arch) - 9, struct.pack("<I", nf).hex()), "aslimit 3072",
                            "open %s %s" % (mode, self.path("r3nf.f") if mode == "file" else ""), "close"]
                    rc, cl, cerr = self.run_c("\n".join(text) + "\n", timeout=60, linebuf=True)
                    replay = dict(kind="r3", scenario="numframes-wrap", cf=cf, mfs=mfs, numFrames=nf, real_entries=k, mode=mode, archive_hex=arch.hex(),
                                  commands=text, rc=rc, seed=ctx.seed)
                    try:
                        ol = [l for l in cl if l.startswith("open")]
                        if rc != 0 or not ol:
                            raise Fail("crash / no answer (rc=%d): %s" % (rc, (cerr or "")[-300:]))
                        ret = kv(ol[0])[2].get("ret", "?")
                        if not ret.startswith("E") or ret == "E64":
                            self.report(replay, "a %d-byte archive holding %d seek-table entries whose footer says Number_Of_Frames = %d (= %d + %d * 2^%d) passes every "
                                        "check of ZSTD_seekable_loadSeekTable (%s access): U32 tableSize = %d * numFrames wraps onto the size of the real table, so "
                                        "Frame_Size + 8 == frameSize holds; ZSTD_seekable_init* then asks for 24 * (numFrames + 1) = %.1f GiB (under a 3 GiB address-space "
                                        "cap: %s; without the cap it returns 0 with %d entries, all but %d fabricated from stale inBuff content). A malformed table must be "
                                        "an error (any other inconsistent count gives prefix_unknown); the writer refuses more than ZSTD_SEEKABLE_MAXFRAMES = 2^27 frames, "
                                        "the loader never looks at that limit" % (len(arch), k, nf, k, (nf - k) // step, 30 if cf else 29, mode, 12 if cf else 8,
                                                                                  24.0 * (nf + 1) / (1 << 30), "memory_allocation" if ret == "E64" else "ret=" + ret, nf, k),
                                        key=self.K_NFWRAP)
                        elif mode == "mem":
                            # lock-step with the model's loader on the same bytes (fix 56d8861: numFrames > MAXFRAMES -> corruption_detected
                            # before any size arithmetic; the other inconsistent counts fail where the model says)
                            mod = bytearray(arch)
                            mod[len(arch) - 9:len(arch) - 5] = struct.pack("<I", nf)
                            ml = self.run_m("# case k0\nloadfile %s\n" % self.blob(bytes(mod), "nfw"), timeout=120)
                            ml0 = [l for l in ml if l.startswith("load")][0]
                            if not ml0.startswith("load E") or "E" + ml0[len("load E"):] != ret:
                                raise Fail("ZSTD_seekable_initBuff returns %s, the model's loader '%s'" % (ret, ml0))
                        ctx.count(("r3-nfwrap", cf, wraps, mode, ret))
                    except Fail as e:
                        self.report(replay, "footer with Number_Of_Frames = %d over %d real entries: %s" % (nf, k, e))
                    except (IndexError, KeyError, ValueError) as e:
                        self.report(replay, "numFrames wrap: unparsable output (%r)" % (e,), no_input=True)

    def phase_r3_input_side(self):
        """Lock-step of the INPUT side (coq/Seek/SeekInput.v, theorem input_stream_is_the_file) with the real reader, callback access:
        for every ZSTD_seekable_decompress call of a history (with injected seek failures, read failures, and read failures that move the
        read head) the model is given what is outside it - the decoder's (input consumed, size hint) per call, whether the cache test
        restarted, the cOffset of the target frame from the table, which I/O request failed - and must predict the exact sequence of
        src.seek(offset) / src.read(head, n) requests the real code makes, whether the call fails, and whether the object still claims a
        position afterwards (curFrame != (U32)-1)."""
        ctx, rng = self.ctx, self.rng
        specs = [(bytes(range(0x30, 0x30 + 21)), 7, 0, "small"), (bytes(range(0x30, 0x30 + 21)), 7, 1, "small-ck"),
                 (bytes(rng.getrandbits(8) for _ in range(300000)), 0, rng.choice([0, 1]), "raw-300k"),       # 128 KB raw blocks: hint > SEEKABLE_BUFF_SIZE
                 (gen_content(rng, 50000, "text"), 4096, rng.choice([0, 1]), "text-50k")]
        if not ctx.quick:
            specs += [(gen_content(rng, rng.randint(1000, 400000), rng.choice(["text", "rand", "zero"])), rng.choice([0, 1000, 65536, 131072]), rng.choice([0, 1]), "rnd%d" % i) for i in range(8)]
        for (x, mfs, cf, tag) in specs:
            xp, ap = self.blob(x, "x"), self.path("r3in_%s.zst" % tag)
            n = len(x)
            cmds = []
            for _ in range(14 if ctx.quick else 40):
                if rng.random() < 0.4:
                    cmds.append(("cbfail", rng.choice(["seek", "read", "readpart", "readpart"]), rng.choice([1, 1, 2, 3, 5])))
                o = rng.choice([0, rng.randint(0, n), rng.randint(0, n), max(0, n - rng.randint(0, 9))])
                cmds.append(("r", o, rng.choice([0, 1, rng.randint(0, min(n - o, 70000)), n - o])))
            if tag.startswith("small"):
                cmds = [("cbfail", "readpart", 3), ("r", 0, 7), ("r", 0, 7), ("r", 7, 7), ("cbfail", "seek", 1), ("r", 0, 3), ("r", 0, 3), ("r", 3, 2),
                        ("cbfail", "read", 2), ("r", 5, 12), ("r", 5, 12), ("r", 21, 1), ("r", 20, 1)] + cmds
            text = ["content_file %s" % xp, "cinit 3 %d %d" % (cf, mfs), "finish 100000 100000", "save %s" % ap, "log", "open cb"]
            text += ["%s %s %s" % c for c in cmds] + ["close"]
            rc, cl, cerr = self.run_c("\n".join(text) + "\n", timeout=120, linebuf=True)
            replay = dict(kind="r3", scenario="input-side", tag=tag, cf=cf, mfs=mfs, content_hex=(x.hex() if len(x) <= 64 else None), content_len=n,
                          commands=[list(c) for c in cmds], rc=rc, seed=ctx.seed)
            try:
                rl = [l for l in cl if l.startswith("r ")]
                reads = [c for c in cmds if c[0] == "r"]
                if rc != 0 or len(rl) != len(reads):
                    raise Fail("crash / hang (rc=%d): %s" % (rc, (cerr or "")[-300:]))
                logl = [l for l in cl if l.startswith("log ")][0]
                log = [tuple(int(v) for v in e.split(":")) for e in logl.split(" :", 1)[1].split()]
                C, D = cum(log)
                mtext, tied = ["ifile %s" % ap], []
                for j, ln in enumerate(rl):
                    d = kv(ln)[2]
                    tr = [t.split(":") for t in d["tr"].split(";")] if d["tr"] != "-" else []
                    io = [t.split(":") for t in d.get("io", "-").split(";")] if d.get("io", "-") != "-" else []
                    if "OVERFLOW" in d["tr"] or "OVERFLOW" in d.get("io", ""):
                        break                      # overflowing trace
                    rdj = reads[j]
                    herej = "read #%d decompress(dst, %d, %d) [archive %s: %d bytes, maxFrameSize %d, checksumFlag %d; history %s]" % (
                        j, rdj[2], rdj[1], tag, n, mfs, cf, " ; ".join("%s %s %s" % c for c in cmds[:cmds.index(rdj) + 1][-8:]))
                    last_fail = io[-1] if io and io[-1][-2 if io[-1][0] == "I" else -1] == "0" else None
                    # the archive is valid and (input_stream_is_the_file) the decoder is fed the frame's bytes whatever I/O failed before:
                    # the only legitimate error is seekableIO from an injected I/O failure during this very call
                    if any(t[0] in "kd" and t[5] == "2" for t in tr):
                        raise Fail("%s: ZSTD_decompressStream reports an error (%s) on a valid archive" % (herej, d["ret"]))
                    if d["ret"].startswith("E") and (last_fail is None or d["ret"] != "E102"):
                        raise Fail("%s: returns %s on a valid archive although no I/O request of this call failed" % (herej, d["ret"]))
                    segs, cur = [], None
                    for t in tr:
                        if t[0] == "R":
                            cur = ["w", str(C[int(t[1])]), "1", []]
                            segs.append(cur)
                        else:
                            if cur is None:
                                cur = ["n", "0", "1", []]
                                segs.append(cur)
                            cur[3].append([t[4], t[6], "-"])
                    if last_fail is not None and last_fail[0] == "S":
                        segs.append(["w", last_fail[1], "0", []])
                    elif last_fail is not None:
                        if not segs or not segs[-1][3]:
                            raise Fail("read #%d: a failed src.read without a decoder call before it (%s)" % (j, ln[:200]))
                        segs[-1][3][-1][2] = last_fail[4]
                    mtext.append("icall " + " ".join("%s:%s:%s:%s" % (sg[0], sg[1], sg[2], "/".join(",".join(it) for it in sg[3]) or "-") for sg in segs))
                    tied.append((j, ln, io))
                ml = [l for l in self.run_m("\n".join(mtext) + "\n", timeout=300) if l.startswith("icall")]
                for (j, ln, io), mln in zip(tied, ml):
                    d, md = kv(ln)[2], kv(mln)[2]
                    rd = reads[j]
                    real_io = [":".join(t[:2] + [t[2]]) if t[0] == "S" else ":".join(t[:4]) for t in io]
                    mod_io = [e for e in (md["ev"].split(";") if md["ev"] != "-" else []) if e[0] in "SI"]
                    where = "read #%d decompress(dst, %d, %d) [archive %s: %d bytes, maxFrameSize %d, checksumFlag %d; history %s]" % (
                        j, rd[2], rd[1], tag, n, mfs, cf, " ; ".join("%s %s %s" % c for c in cmds[:cmds.index(rd) + 1][-8:]))
                    if real_io != mod_io:
                        k = next((i for i in range(max(len(real_io), len(mod_io))) if i >= len(real_io) or i >= len(mod_io) or real_io[i] != mod_io[i]), 0)
                        raise Fail("%s: I/O request #%d of the call is %s in the code, %s in the model (S:offset:ok = src.seek, I:head:n:ok = src.read of n bytes "
                                   "with the read head at head); code %s, model %s" % (where, k, real_io[k] if k < len(real_io) else "none",
                                                                                        mod_io[k] if k < len(mod_io) else "none", real_io[-6:], mod_io[-6:]))
                    if (md["ok"] == "1") != (not d["ret"].startswith("E")):
                        raise Fail("%s: returns %s, model ok=%s" % (where, d["ret"], md["ok"]))
                    if (md["claim"] == "1") != (d["cur"] != "4294967295"):
                        raise Fail("%s: afterwards curFrame = %s, the model %s a position" % (where, d["cur"], "claims" if md["claim"] == "1" else "has dropped"))
                    if not d["ret"].startswith("E") and not self._read_ok(d, x[rd[1]:rd[1] + rd[2]]):
                        raise Fail("%s: returns %s with wrong bytes" % (where, d["ret"]))
                    ctx.count(("r3-input", tag, len(real_io) > 0, any(e.endswith(":0") for e in mod_io), d["ret"].startswith("E"), min(3, sum(1 for e in mod_io if e[0] == "S"))))
                ctx.cov["traces_validated_against_impl"] += len(tied)
            except Fail as e:
                self.report(replay, "input side (src.seek / src.read requests, zs->in refills): " + str(e))
            except (IndexError, KeyError, ValueError, RuntimeError) as e:
                self.report(replay, "input side: unparsable output / model failure (%r)" % (e,), no_input=True)

    K_STALE = "C20-corruption-return-keeps-position"
    K_SHORTEND = "C20-short-frame-unnoticed-at-read-end"

    def phase_r3_history_independence(self):
        """Malformed archives (a seek-table entry announcing more decompressed bytes than its frame holds; checksums on and off): every
        read of a history is also made on a FRESH reader.  A call the fresh reader answers with an error must not succeed on the reader
        that carries a history (it has no more information - only a stale position), and where both succeed the bytes must be equal."""
        ctx, rng = self.ctx, self.rng
        x = bytes(range(0x30, 0x30 + 48))
        xp = self.blob(x, "x")
        for cf in (1, 0):
            ap = self.path("r3hi_%d.zst" % cf)
            rc0, cl0, _ = self.run_c("\n".join(["content_file %s" % xp, "cinit 3 %d 16" % cf, "finish 1000 1000", "save %s" % ap]) + "\n", timeout=30)
            arch = open(ap, "rb").read() if rc0 == 0 and os.path.exists(ap) else b""
            spe_ = 12 if cf else 8
            ts = len(arch) - (17 + 4 * spe_)
            if len(arch) < 60 or arch[ts:ts + 4] != struct.pack("<I", 0x184D2A5E):
                self.report(dict(kind="r3", scenario="history-independence", cf=cf, rc=rc0, seed=ctx.seed), "could not build the base archive", no_input=True)
                continue
            for (ent, grow, flipck) in ((0, 8, 0), (1, 8, 0), (0, 1, 0), (1, 16, 0), (2, 3, 0)) + (((0, 8, 1), (1, 5, 1)) if cf else ()):
                pos = ts + 8 + ent * spe_ + 4
                newd = struct.unpack("<I", arch[pos:pos + 4])[0] + grow
                hists = [[(0, 16 + grow), (16, 4), (20, 3), (16 + grow, 8)]] if (ent, grow) == (0, 8) else []
                # a read ending exactly where the short frame really ends (a success before fix b63eccc), then "the rest of that frame"
                # (key C20-short-frame-unnoticed-at-read-end)
                hists += [[(16 * ent, 16), (16 * ent + 16, min(grow, 4)), (16 * ent + 16, grow)], [(16 * ent + 15, 1), (16 * ent + 16, 1)]]
                for _ in range(3 if ctx.quick else 12):
                    h = []
                    for _ in range(rng.randint(3, 7)):
                        o = rng.choice([0, 16 * ent, 16 * ent + 15, 16 * ent + 16, 16 * ent + 16 + grow, rng.randint(0, 48 + grow)])
                        h.append((o, rng.choice([1, 3, 4, grow, 16, 16 + grow, rng.randint(0, 48)])))
                    hists.append(h)
                for h in hists:
                    head = ["archive_file %s" % ap, "setbytes %d %s" % (pos, struct.pack("<I", newd).hex())]
                    if flipck:      # the entry's checksum is wrong too: the call ends in the checksum-mismatch return instead of the short-frame one
                        head.append("setbytes %d %s" % (pos + 4, bytes([arch[pos + 4] ^ 1]).hex()))
                    text = head + ["open mem"] + ["r %d %d" % r for r in h] + ["close"]
                    for r in h:
                        text += ["open mem", "r %d %d" % r, "close"]
                    rc, cl, cerr = self.run_c("\n".join(text) + "\n", timeout=60, linebuf=True)
                    replay = dict(kind="r3", scenario="history-independence", cf=cf, entry=ent, grow=grow, checksum_flipped=flipck, archive_hex=arch.hex(), history=[list(r) for r in h],
                                  commands=text, rc=rc, seed=ctx.seed)
                    try:
                        rl = [l for l in cl if l.startswith("r ")]
                        if rc != 0 or len(rl) != 2 * len(h):
                            raise Fail("crash / hang (rc=%d): %s" % (rc, (cerr or "")[-300:]))
                        if h[0] == (16 * ent, 16) and not kv(rl[0])[2]["ret"].startswith("E"):
                            # the read of exactly the bytes the frame really holds drives the decoder to the end of the frame: the frame is
                            # complete before the end its entry gives, which is detectable at that point (fix b63eccc)
                            self.report(dict(replay, failing_read=0),
                                        "malformed archive (content 30..5f, initCStream(3, checksumFlag %d, maxFrameSize 16); seek-table entry %d: decompressed size %d -> %d, "
                                        "the frame holds %d bytes): decompress(dst, 16, %d) - exactly the bytes the frame holds - returns %s: the decoder has reported the end "
                                        "of the frame %d byte(s) before the end its entry gives and the call keeps its position there (cur=%s doff=%s)"
                                        % (cf, ent, newd - grow, newd, newd - grow, 16 * ent, kv(rl[0])[2]["ret"], grow, kv(rl[0])[2].get("cur"), kv(rl[0])[2].get("doff")),
                                        key=self.K_SHORTEND)
                        for j, r in enumerate(h):
                            ds, df = kv(rl[j])[2], kv(rl[len(h) + j])[2]
                            es, ef = ds["ret"].startswith("E"), df["ret"].startswith("E")
                            if (ef and not es) or (not ef and not es and (ds["ret"] != df["ret"] or ds.get("crc") != df.get("crc"))):
                                self.report(dict(replay, failing_read=j),
                                            "malformed archive (content 30..5f, initCStream(3, checksumFlag %d, maxFrameSize 16); seek-table entry %d: decompressed size %d -> %d%s, "
                                            "the frame holds %d bytes): after the history [%s] decompress(dst, %d, %d) returns %s with bytes %s; the same call on a fresh reader "
                                            "returns %s%s. The earlier call that reported the corruption left curFrame / decompressedOffset claimed while the decoder had "
                                            "finished the frame: the continue path decodes the NEXT frame of the file as the rest of this one"
                                            % (cf, ent, newd - grow, newd, " and checksum bit 0 flipped" if flipck else "", newd - grow, " ; ".join("r %d %d" % q for q in h[:j]), r[1], r[0], ds["ret"], ds.get("data", "?"),
                                               df["ret"], "" if ef else " with bytes " + df.get("data", "?")),
                                            key=(self.K_STALE if j > 0 and kv(rl[j - 1])[2]["ret"].startswith("E") else self.K_SHORTEND))
                                break
                            ctx.count(("r3-hist", cf, ent, flipck, es, ef))
                    except Fail as e:
                        self.report(replay, "history independence on a malformed archive: " + str(e))
                    except (IndexError, KeyError, ValueError) as e:
                        self.report(replay, "history independence: unparsable output (%r)" % (e,), no_input=True)

    def phase_r3_history_independence_random(self):
        """the same oracle on randomly malformed archives: an entry's decompressed size changed in either direction (short and overlong
        frames), optionally a compressed size changed (every later frame is looked for at a wrong offset), the entry's checksum flipped,
        a byte of a frame's payload flipped; random read histories, each read repeated on a fresh reader."""
        ctx, rng = self.ctx, self.rng
        x = bytes(range(0x30, 0x30 + 48))
        xp = self.blob(x, "x")
        for cf in (0, 1):
            ap = self.path("r3hr_%d.zst" % cf)
            rc0, cl0, _ = self.run_c("\n".join(["content_file %s" % xp, "cinit 3 %d 16" % cf, "finish 1000 1000", "save %s" % ap]) + "\n", timeout=30)
            arch = open(ap, "rb").read() if rc0 == 0 and os.path.exists(ap) else b""
            spe_ = 12 if cf else 8
            ts = len(arch) - (17 + 4 * spe_)
            if len(arch) < 60 or arch[ts:ts + 4] != struct.pack("<I", 0x184D2A5E):
                self.report(dict(kind="r3", scenario="history-independence-random", cf=cf, rc=rc0, seed=ctx.seed), "could not build the base archive", no_input=True)
                continue
            cases, text = [], ["archive_file %s" % ap]
            for k in range(12 if ctx.quick else 300):
                ent, grow = rng.choice([0, 1, 2]), rng.choice([-16, -15, -8, -1, 1, 8, 40, 100])
                pos = ts + 8 + ent * spe_ + 4
                mods = ["setbytes %d %s" % (pos, struct.pack("<I", max(0, struct.unpack("<I", arch[pos:pos + 4])[0] + grow)).hex())]
                if rng.random() < 0.3:
                    p2 = ts + 8 + rng.choice([0, 1, 2]) * spe_
                    mods.append("setbytes %d %s" % (p2, struct.pack("<I", max(0, struct.unpack("<I", arch[p2:p2 + 4])[0] + rng.choice([-1, 1, 9, -9]))).hex()))
                if cf and rng.random() < 0.3:
                    mods.append("setbytes %d %s" % (pos + 4, bytes([arch[pos + 4] ^ 1]).hex()))
                if rng.random() < 0.3:
                    fp = rng.randint(9, 70)
                    mods.append("setbytes %d %s" % (fp, bytes([arch[fp] ^ 0x40]).hex()))
                h = [(o, rng.choice([0, 1, 3, 8, 16, 17, rng.randint(0, 50)])) for o in (rng.randint(0, 60) for _ in range(rng.randint(3, 8)))]
                cases.append((mods, h))
                text += ["# case h%d" % k, "archive_file %s" % ap] + mods + ["open mem"] + ["r %d %d" % r for r in h] + ["close"]
                for r in h:
                    text += ["open mem", "r %d %d" % r, "close"]
            rc, cl, cerr = self.run_c("\n".join(text) + "\n", timeout=300)
            secs = self.sections(cl)
            for k, (mods, h) in enumerate(cases):
                replay = dict(kind="r3", scenario="history-independence-random", cf=cf, archive_hex=arch.hex(), modifications=mods, history=[list(r) for r in h], rc=rc, seed=ctx.seed)
                try:
                    rl = [l for l in secs.get("h%d" % k, []) if l.startswith("r ")]
                    if len(rl) != 2 * len(h):
                        raise Fail("crash / hang (rc=%d) in or before this case: %s" % (rc, (cerr or "")[-300:]))
                    for j, r in enumerate(h):
                        ds, df = kv(rl[j])[2], kv(rl[len(h) + j])[2]
                        es, ef = ds["ret"].startswith("E"), df["ret"].startswith("E")
                        if (ef and not es) or (not ef and not es and (ds["ret"] != df["ret"] or ds.get("crc") != df.get("crc"))):
                            raise Fail("after the history [%s] decompress(dst, %d, %d) returns %s (bytes %s); the same call on a fresh reader returns %s (bytes %s); "
                                       "archive: content 30..5f, initCStream(3, checksumFlag %d, maxFrameSize 16), then %s"
                                       % (" ; ".join("r %d %d" % q for q in h[:j]), r[1], r[0], ds["ret"], ds.get("data"), df["ret"], df.get("data"), cf, " ; ".join(mods)))
                        ctx.count(("r3-histrnd", cf, es, ef, len(mods)))
                except Fail as e:
                    self.report(replay, "history independence on a malformed archive: " + str(e))
                    if rc != 0:
                        break
                except (IndexError, KeyError, ValueError) as e:
                    self.report(replay, "history independence (random): unparsable output (%r)" % (e,), no_input=True)

    def phase_r2_raw_frames(self):
        """Archives assembled with the documented raw API (independently compressed frames + ZSTD_seekable_logFrame +
        ZSTD_seekable_writeSeekTable), the frames carrying zstd's own content checksum or not.  Intact: every read returns its
        slice.  One byte of a frame flipped: a read that covers that frame TO ITS END (decompressFrame, or decompress of exactly
        the frame / past it) is covered by a checksum and must not report success with wrong bytes."""
        ctx, rng = self.ctx, self.rng
        cases = [(bytes(range(0x30, 0x30 + 14)), 7, 3)]
        cases.append((gen_content(rng, 300, "text"), 64, 3))
        for _ in range(1 if ctx.quick else 12):
            n = rng.randint(20, 2000)
            cases.append((gen_content(rng, n, rng.choice(["text", "rand", "count"])), rng.randint(5, max(6, n // 2)), rng.choice([1, 3, 5])))
        rawspecs = []
        for ci, (x, fs, level) in enumerate(cases):
            xp = self.blob(x, "x")
            for cf, zck in ((1, 1), (1, 0), (0, 1)):
                head = ["content_file %s" % xp, "rawarch %d %d %d %d" % (cf, zck, level, fs)]
                rc0, cl0, _ = self.run_c("\n".join(head) + "\n", timeout=30)
                try:
                    logl = [l for l in cl0 if l.startswith("rawarch log")][0]
                    log = [tuple(int(v) for v in e.split(":")) for e in logl.split(" :", 1)[1].split()]
                except (IndexError, ValueError):
                    self.report(dict(kind="r2", scenario="raw-frames", rc=rc0), "raw-API archive could not be built", no_input=True)
                    continue
                cs_, ds_ = cum(log)
                nfr = len(log)
                frames_reads = []
                for i in range(nfr):
                    frames_reads += [("rf", i, log[i][1]), ("r", ds_[i], log[i][1])]
                    if i + 1 < nfr:
                        frames_reads.append(("r", ds_[i], log[i][1] + 1))
                    if log[i][1] > 1:
                        frames_reads.append(("r", ds_[i] + 1, log[i][1] - 1))
                    if i + 1 < nfr:      # two whole frames: the read leaves frame i behind and stops exactly at the end of frame i+1
                        frames_reads.append(("r", ds_[i], log[i][1] + log[i + 1][1]))
                frames_reads = frames_reads[:80]
                # the intact archive also goes through the read phase of round 1 (model lock-step, all its read generators): frames with a
                # zstd checksum make the decoder report "frame complete" one call AFTER the last byte - a pacing the own compressor never shows
                ap = self.path("r2rawok_%d_%d%d.zst" % (ci, cf, zck))
                rcs, cls_, _ = self.run_c("\n".join(head + ["save %s" % ap]) + "\n", timeout=30)
                if rcs == 0 and os.path.exists(ap):
                    rawspecs.append(dict(id="w%d" % len(rawspecs), x=x, kind="raw", mfs=fs, cf=cf, level=level, ops=[head[1]], ccap=0, scap=0, tag="raw-api",
                                         xpath=xp, apath=ap, log=log, arch=open(ap, "rb").read()))
                # positions to damage: none (intact archive), then bytes inside frames
                damages = [None]
                for _ in range(3 if ctx.quick else 10):
                    f = rng.randrange(nfr)
                    if log[f][0] > 0:
                        damages.append((cs_[f] + rng.randrange(log[f][0]), rng.choice([0x40, 0x01, 0x80, 0x10])))
                if ci == 0:
                    damages.insert(1, (10, 0x40))
                for dmg in damages:
                    for mode in (("mem", "file", "cb") if (dmg is None or ci == 0) else (rng.choice(["mem", "file", "cb"]),)):
                        body = ["open %s %s" % (mode, self.path("r2raw.f") if mode == "file" else "")] + ["%s %d %d" % r for r in frames_reads] + ["close"]
                        rc, cl, cerr = self._run_raw(head, dmg, body)
                        replay = dict(kind="r2", scenario="raw-frames", content_hex=x.hex() if len(x) <= 4096 else None, content_len=len(x), frame_size=fs, level=level,
                                      table_checksums=cf, zstd_checksums=zck, damage=list(dmg) if dmg else None, mode=mode, reads=[list(r) for r in frames_reads], rc=rc, seed=ctx.seed)
                        rl = [l for l in cl if l.split()[:1] and l.split()[0] in ("r", "rf")]
                        try:
                            if rc != 0 or len(rl) != len(frames_reads):
                                raise Fail("crash / hang (rc=%d): %s" % (rc, (cerr or "")[-300:]))
                            dfr = None
                            if dmg is not None:
                                dfr = next((i for i in range(nfr) if cs_[i] <= dmg[0] < cs_[i + 1]), None)
                            for rd, ln in zip(frames_reads, rl):
                                d = kv(ln)[2]
                                off, n = (ds_[rd[1]], rd[2]) if rd[0] == "rf" else (rd[1], rd[2])
                                want = x[off:off + n]
                                if dmg is None:
                                    if not self._read_ok(d, want):
                                        raise Fail("valid archive: %s %d %d returns %s instead of the content slice" % (rd[0], rd[1], rd[2], d.get("ret")))
                                    continue
                                if d["ret"] in ("E22", "E10", "E14", "E16", "E30", "E32") and d.get("cur") != "4294967295":
                                    # these codes only come from ZSTD_decompressStream: model state decoder_failed (fix b978b70)
                                    raise Fail("%s %d %d returned the decoder's error %s but the reader still claims a position (curFrame=%s): the next "
                                               "call would continue a decoder in an error state" % (rd[0], rd[1], rd[2], d["ret"], d.get("cur")))
                                if d["ret"].startswith("E") or self._read_ok(d, want):
                                    continue
                                covers_end = dfr is not None and off <= ds_[dfr] + max(log[dfr][1] - 1, 0) and off + n >= ds_[dfr + 1] and off < ds_[dfr + 1]
                                if covers_end:
                                    self.report(dict(replay, failing_call=list(rd), observed=ln[:300]),
                                                "raw-API archive (%d frames of %d bytes compressed with ZSTD_compress2 level %d, zstd content checksum %s, seek-table "
                                                "checksums %s), archive byte %d xor 0x%02x (inside frame %d): %s(%d, %d) (%s access) reads the damaged frame to its end and "
                                                "returns %s = success with wrong bytes (%s, content %s): the loop stops at offset+len before the decoder has reached "
                                                "the end of the frame, so neither checksum is looked at"
                                                % (nfr, fs, level, "on" if zck else "off", "on" if cf else "off", dmg[0], dmg[1], dfr,
                                                   "ZSTD_seekable_decompressFrame" if rd[0] == "rf" else "ZSTD_seekable_decompress", rd[1], rd[2], mode, d["ret"],
                                                   d.get("data", "crc " + d.get("crc", "?"))[:40], want.hex()[:40]), key=self.K_EXACT)
                                    break
                            ctx.count(("r2-raw", cf, zck, mode, dmg is not None, min(nfr, 3)))
                        except Fail as e:
                            self.report(replay, "raw-API archive: " + str(e))
                        except (IndexError, KeyError, ValueError) as e:
                            self.report(replay, "raw-API archive: unparsable output (%r)" % (e,), no_input=True)
        self._raw_lockstep(rawspecs)

    def _raw_lockstep(self, rawspecs):
        if rawspecs:
            self.phase_reads(rawspecs)

    def _run_raw(self, head, dmg, body):
        text = list(head)
        if dmg is not None:
            # xor through setbytes needs the current byte: build first, read it back through 'save'
            ap = self.path("r2raw_%d.zst" % self.nfile)
            rc0, cl0, _ = self.run_c("\n".join(head + ["save %s" % ap]) + "\n", timeout=30)
            arch = open(ap, "rb").read()
            text.append("setbytes %d %02x" % (dmg[0], arch[dmg[0]] ^ dmg[1]))
        return self.run_c("\n".join(text + body) + "\n", exe=self.asan(), timeout=60, linebuf=True)

    def phase_maxframes(self):
        """ZSTD_seekable_logFrame refuses the (MAXFRAMES+1)-th frame (hypothesis 'lenN log <= MAXFRAMES' of the table theorems is
        enforced by the code): direct oracle on the real code, 2^27 log entries (1.6 GB, ~1 s); the model's log_frame has the
        same test (not executed on a list of that length)."""
        try:
            txt = open(os.path.join(core.VERIF, "coq", "Gen", "Gen_Seek.v")).read()
            mx = int(txt.split("sk_MAXFRAMES : N := ")[1].split("%")[0])
        except (OSError, IndexError, ValueError):
            return
        if mx > (1 << 27):
            core.log("C20: MAXFRAMES = %d > 2^27: boundary run skipped (the theorems carry the bound)" % mx)
            return
        rc, cl, cerr = self.run_c("rawlog 0\nrawrep %d 7 9 0\nrawrep 3 1 2 3\nw 5\n" % mx, timeout=300)
        lines = [l for l in cl if l.startswith("rawrep")]
        replay = dict(kind="maxframes", maxframes=mx, rc=rc, out=lines)
        try:
            if rc != 0 or len(lines) != 2:
                raise Fail("logging %d frames crashed or did not finish (rc=%d): %s" % (mx, rc, cerr[-300:]))
            d1, d2 = kv(lines[0])[2], kv(lines[1])[2]
            if d1["size"] != str(mx) or d1["fail"] != "0":
                raise Fail("ZSTD_seekable_logFrame refused a frame before reaching ZSTD_SEEKABLE_MAXFRAMES=%d: %s" % (mx, lines[0]))
            if d2["size"] != str(mx) or d2["fail"] != "3" or d2["last"] != "E100":
                raise Fail("ZSTD_seekable_logFrame accepted frame number MAXFRAMES+1 (expected frameIndex_tooLarge, size stays %d): %s" % (mx, lines[1]))
            self.ctx.count(("maxframes",))
            self.ctx.cov["traces_validated_against_impl"] += 1
        except Fail as e:
            self.report(replay, "frame log: " + str(e))
        except (KeyError, IndexError) as e:
            self.report(replay, "frame log: unparsable output (%r)" % (e,), no_input=True)

    def phase_short_frame(self):
        """Corpus case (was finding 'livelock-short-frame', repaired in /repo by e8679b7): a seek-table entry that claims more
        decompressed bytes than its frame regenerates, checksums off.  Before the repair ZSTD_seekable_decompress never returned
        with FILE*/callback access; now every access mode must return corruption_detected promptly, as the model does when it
        is driven with the decoder results observed."""
        x = bytes(range(16))
        xp = self.blob(x, "x")
        ap = self.path("shortframe.zst")
        rc, cl, cerr = self.run_c("content_file %s\ncinit 3 0 1000\nfinish 1000 1000\nlog\nsave %s\n" % (xp, ap))
        if rc != 0 or not os.path.exists(ap):
            self.report(dict(kind="short-frame", rc=rc), "could not build the short-frame corpus archive", no_input=True)
            return
        arch = bytearray(open(ap, "rb").read())
        tstart = len(arch) - (17 + 8)
        if arch[tstart:tstart + 4] != struct.pack("<I", 0x184D2A5E):
            self.report(dict(kind="short-frame"), "short-frame corpus archive has an unexpected layout", no_input=True)
            return
        csize = struct.unpack("<I", arch[tstart + 8:tstart + 12])[0]
        arch[tstart + 12:tstart + 16] = struct.pack("<I", 32)          # dSize 16 -> 32
        for mode in ("file", "cb", "mem"):
            v = dict(s=None, arch=bytes(arch), cls="T", note="entry 0 decompressed size 16 -> 32 (frame regenerates 16 bytes), no checksums",
                     log=[], cf=0, id="sf_" + mode, mode=mode, reads=[("r", 0, 32), ("r", 0, 16), ("r", 8, 24)])
            v["apath"] = self.blob(v["arch"], "cor")
            rc, cl, cerr = self.run_c("\n".join(self.corrupt_ctext(v)) + "\n", timeout=8, linebuf=True)
            lines = [l for l in cl if l.strip()]
            rl = [l for l in lines if l.startswith("r ")]
            try:
                if rc == 124:
                    raise Fail("ZSTD_seekable_decompress does not return (%s access): the frame completes after 16 of the 32 bytes its seek-table "
                               "entry claims and the reader restarts the same frame forever" % mode)
                if rc != 0:
                    raise Fail("crash (rc=%d): %s" % (rc, cerr[-300:]))
                mtext = ["x %s" % x.hex(), "log 0 %d:32:0" % csize, "rinit"]
                for ln in rl:
                    cmd, pos, d = kv(ln)
                    orc = ";".join("%s:%s" % (t.split(":")[3], "1" if t.split(":")[5] == "1" else "0") for t in d["tr"].split(";") if t[0] in "kd")
                    mtext.append("r %s %s %s" % (pos[0], pos[1], orc or "-"))
                ml = [l for l in self.run_m("\n".join(mtext) + "\n") if l.startswith("r ")]
                # reads reaching beyond the 16 bytes the frame holds must be refused; the read of exactly those 16 bytes follows the model
                # (refused too since the short-frame test is unconditional; success with the right bytes before that)
                want = ["E20", None, "E20"]
                for ln, mln, w, rd in zip(rl, ml, want, v["reads"]):
                    d = kv(ln)[2]
                    md = kv(mln)[2]
                    if w is not None and d["ret"] != w:
                        raise Fail("%s%s returned %s, expected %s (%s access)" % (rd[0], rd[1:], d["ret"], w, mode))
                    if norm_ret(md.get("ret", "?")) != d["ret"]:
                        raise Fail("%s%s returned %s, model %s" % (rd[0], rd[1:], d["ret"], mln[:120]))
                    if d["ret"] == "16" and d.get("data") != x.hex():
                        raise Fail("read of the 16 bytes the frame holds returned other bytes")
                self.ctx.count(("short-frame", mode))
                self.ctx.cov["traces_validated_against_impl"] += 1
            except Fail as e:
                self.report(self.corrupt_replay(v, extra=dict(rc=rc, completed_lines=lines[-3:])), "short-frame archive: " + str(e))
            except (IndexError, KeyError, ValueError) as e:
                self.report(self.corrupt_replay(v), "short-frame archive: unparsable output (%r)" % (e,), no_input=True)

    def corrupt_replay(self, v, extra=None):
        s = v["s"]
        r = dict(kind="corrupt", note=v["note"], cls=v["cls"], mode=v.get("mode"), archive_hex=v["arch"].hex() if len(v["arch"]) <= 16384 else None,
                 archive_len=len(v["arch"]), content_hex=(s["x"].hex() if s is not None and len(s["x"]) <= 4096 else None),
                 reads=[list(r) for r in v.get("reads", [])], seed=self.ctx.seed)
        if extra:
            r.update(extra)
        return r

    def compare_corrupt(self, v, cl, ml):
        ctx = self.ctx
        s = v["s"]
        try:
            op = kv([l for l in cl if l.startswith("open")][0])[2]
            ml0 = [l for l in ml if l.startswith("load")][0]
            # loader tie on malformed input: same verdict, same error code, same table
            if ml0.startswith("load T"):
                raise Fail("model loader reaches an out-of-range index (%s)" % ml0)
            if op["ret"] == "0":
                if not ml0.startswith("load ok "):
                    raise Fail("ZSTD_seekable_init accepted the seek table, the model's loader returns %s" % ml0)
                mt = ml0[len("load ok "):]
                ments = [tuple(int(x_) for x_ in e.split(":")) for e in mt.split("ents=")[1].split(",")]
                raw = b"".join(struct.pack("<QQQ", c, d, k) for (c, d, k) in ments)
                ent = kv([l for l in cl if l.startswith("entries")][0])[2]
                if ent["crc"] != "%08x" % (zlib.crc32(raw) & 0xFFFFFFFF) or int(ent["n"]) != len(ments) - 1:
                    raise Fail("table built by ZSTD_seekable_loadSeekTable from the malformed bytes differs from the model's")
            else:
                if not ml0.startswith("load E") or "E" + ml0[len("load E"):] != op["ret"]:
                    raise Fail("ZSTD_seekable_init returned %s, the model's loader %s" % (op["ret"], ml0))
            loaded = op["ret"] == "0"
            # data oracle where a checksum covers the read: frame bytes damaged, table intact, checksums on
            if s is not None and v["cls"].startswith("F") and s["cf"] == 1 and loaded:
                fi = int(v["cls"][1:])
                _, D = cum(s["log"])
                x = s["x"]
                rl = [l for l in cl if l.split()[0] in ("r", "rf")]
                for rd, ln in zip(v["reads"], rl):
                    _, _, d = kv(ln)
                    if d["ret"].startswith("E"):
                        continue
                    if rd[0] == "r":
                        off, ln_ = rd[1], rd[2]
                    else:
                        if rd[1] >= len(s["log"]):
                            continue
                        off, ln_ = D[rd[1]], s["log"][rd[1]][1]
                    covers_end = off < D[fi + 1] <= off + ln_ or (D[fi] == D[fi + 1])
                    touches = off < D[fi + 1] and off + ln_ > D[fi]
                    want = x[off:off + ln_]
                    okdata = d.get("crc") == "%08x" % (zlib.crc32(want) & 0xFFFFFFFF)
                    if (covers_end or not touches) and not okdata:
                        raise Fail("%s(%d,%d) reported success with wrong bytes although the damaged frame %d is read to its end with checksums on"
                                   % (rd[0], rd[1], rd[2], fi))
            ctx.count(("corrupt", v["cls"][0], v["mode"], loaded, v["note"].split("=")[0].split(" at ")[0][:24]))
            self.hist["corruptions"] += 1
        except Fail as e:
            self.report(self.corrupt_replay(v), "corrupted archive (%s, %s access): %s" % (v["note"], v.get("mode"), e))
        except (IndexError, KeyError, ValueError) as e:
            self.report(self.corrupt_replay(v), "corruption phase: unparsable harness/model output (%r)" % (e,), no_input=True)

    # ------------------------------------------------------------------ SEARCH for a broken proof obligation
    def search(self, broken):
        """The phases above already execute the property's direct oracle on the real code for every case; a broken
        theorem adds nothing to look for unless none of them fired: then there is no failing input."""
        return []


def replay(ctx):
    import json
    obj = json.load(open(ctx.replay_file))
    rp = obj.get("replay", {})
    core.log("replaying %s: %s" % (ctx.replay_file, obj.get("what", "")[:200]))
    rng = random.Random(rp.get("seed", ctx.seed))
    t = Tie(ctx, rng)
    kind = rp.get("kind")
    if kind == "rawtable":
        c = dict(id="w0", cf=rp["cf"], log=[tuple(e) for e in rp["log"]], avs=rp["avails"])
        ctext = ["# case w0", "aclear", "rawlog %d %s" % (c["cf"], " ".join("%d:%d:%d" % e for e in c["log"]))] + ["w %d" % a for a in c["avs"]] + ["save %s" % t.path("w0.tbl")]
        mtext = ["# case w0", "log %d %s" % (c["cf"], " ".join("%d:%d:%d" % e for e in c["log"])), "ser", "whist " + " ".join(str(a) for a in c["avs"])]
        rc, cl, cerr = t.run_c("\n".join(ctext) + "\n")
        ml = t.run_m("\n".join(mtext) + "\n")
        t.compare_rawtable(c, t.sections(cl).get("w0", []), t.sections(ml).get("w0", []))
    elif kind == "reads" and rp.get("content_hex") is not None and rp.get("ops") and str(rp["ops"][0]).startswith("rawarch"):
        # an archive assembled with the raw seek-table API (round 2): rebuild it, then the recorded read history in lock-step
        x = bytes.fromhex(rp["content_hex"])
        xp, ap = t.blob(x, "x"), t.path("replay_raw.zst")
        rc, cl, cerr = t.run_c("\n".join(["content_file %s" % xp, rp["ops"][0], "save %s" % ap]) + "\n", timeout=60)
        logl = [l for l in cl if l.startswith("rawarch log")][0]
        log = [tuple(int(v) for v in e.split(":")) for e in logl.split(" :", 1)[1].split()]
        s = dict(id="w0", x=x, kind="raw", mfs=rp["mfs"], cf=rp["cf"], level=rp["level"], ops=rp["ops"], ccap=0, scap=0, tag="replay",
                 xpath=xp, apath=ap, log=log, arch=open(ap, "rb").read())
        hist = [tuple(r) for r in rp.get("history", [])]
        t.gen_reads = lambda s_: hist
        t.phase_reads([s])
    elif kind in ("compress", "reads") and rp.get("content_hex") is not None:
        s = dict(id="a0", x=bytes.fromhex(rp["content_hex"]), kind=rp.get("content_kind", "?"), mfs=rp["mfs"], cf=rp["cf"], level=rp["level"],
                 ops=rp["ops"], ccap=rp["ccap"], scap=rp["scap"], tag="replay")
        t.gen_archive_specs = lambda: [s]
        if kind == "reads":
            hist = [tuple(r) for r in rp.get("history", [])]
            t.gen_reads = lambda s_: hist
        t.phase_archives()
    elif kind == "overlong-frame":
        t.phase_overlong_frame()
    elif kind == "maxframes":
        t.phase_maxframes()
    elif kind == "io-fault":
        t.phase_io_fault()
    elif kind == "reinit":
        t.phase_reinit()
    elif kind == "r2":
        {"reinit-modes": t.phase_r2_reinit_modes, "checksum-flag": t.phase_r2_checksum_flag, "beyond-end": t.phase_r2_beyond_end,
         "raw-frames": t.phase_r2_raw_frames, "misc": t.phase_r2_misc}.get(rp.get("scenario"), t.phase_r2_endframe_pending)()
    elif kind == "r3":
        {"numframes-wrap": t.phase_r3_numframes_wrap, "input-side": t.phase_r3_input_side, "history-independence": t.phase_r3_history_independence, "history-independence-random": t.phase_r3_history_independence_random}.get(rp.get("scenario"), t.phase_r3_numframes_wrap)()
    elif kind == "corrupt" and rp.get("archive_hex") is not None:
        v = dict(s=None, arch=bytes.fromhex(rp["archive_hex"]), cls="J", note=rp.get("note", ""), log=[], cf=0, id="k0", mode=rp.get("mode") or "mem",
                 reads=[tuple(r) for r in rp.get("reads", [])])
        v["apath"] = t.blob(v["arch"], "cor")
        ctext = ["# case k0", "archive_file %s" % v["apath"], "open %s %s" % (v["mode"], t.path("k0.f") if v["mode"] == "file" else ""), "table", "entries"]
        ctext += ["%s %d %d" % r for r in v["reads"]] + ["close"]
        rc, cl, cerr = t.run_c("\n".join(ctext) + "\n", exe=t.asan(), timeout=300, linebuf=True)
        if rc != 0:
            t.report(t.corrupt_replay(v, extra=dict(rc=rc, stderr=cerr[-3000:])), "sanitizer report / crash (rc=%d) on the recorded corrupted archive" % rc)
        else:
            ml = t.run_m("# case k0\nloadfile %s\n" % v["apath"])
            t.compare_corrupt(v, t.sections(cl).get("k0", []), t.sections(ml).get("k0", []))
    else:
        core.log("replay: this record carries no re-executable input (kind=%s); re-running the whole check with its seed" % kind)
        ctx.seed = rp.get("seed", ctx.seed)
        return False
    return True


def run(ctx):
    gen.regen_seek()                       # strict: a dumper that no longer builds is reported by ./check as a crash
    if ctx.replay_file:
        if replay(ctx):
            ctx.cov["rule"] = "replay of a recorded case"
            ctx.prove()
            ctx.proof_verdict(None)
            return
    rng = random.Random(ctx.seed * 1000003 + 20)
    r = ctx.prove()
    t = Tie(ctx, rng)
    import time as _time
    for ph in (t.phase_rawtable, t.phase_overlong_frame, t.phase_short_frame, t.phase_io_fault, t.phase_reinit, t.phase_r2_endframe_pending, t.phase_r2_reinit_modes, t.phase_r2_checksum_flag, t.phase_r2_beyond_end, t.phase_r2_misc, t.phase_r2_raw_frames, t.phase_r3_numframes_wrap, t.phase_r3_input_side, t.phase_r3_history_independence, t.phase_r3_history_independence_random, t.phase_archives, t.phase_corrupt, t.phase_maxframes):
        t0 = _time.time()
        ph()
        core.log("C20 %s: %.1fs (evaluations so far %d)" % (ph.__name__, _time.time() - t0, ctx.cov["evaluations"]))
    ctx.proof_verdict(t.search)
    ctx.notes["input_distribution"] = t.hist
    ctx.cov["rule"] = (
        "generation: boundary corpus first (empty/1-byte contents, maxFrameSize 1/2/exact divisor, explicit endFrame giving empty frames, "
        "tiny output rooms, maxFrameSize 2^30 / 0 / 2^30+1, a table longer than SEEKABLE_BUFF_SIZE), then seeded random contents x maxFrameSize x "
        "checksum flag x call histories; raw frame logs x output-room histories for the table writer; reads: ALL ordered pairs of (offset,len) ranges "
        "for contents <= 5 bytes, ALL ranges for <= 40 bytes, frame-boundary-biased random histories (continue / just-before / just-after the cached "
        "position) for larger ones, through memory, FILE* and custom callbacks; corruptions of footer/entries/sizes/frames under ASan+UBSan. "
        "evaluations = API-level cases (one writer history, one compression history, one table check, one read call, one corrupted archive). "
        "distinct_nontrivial = number of distinct shape signatures: for a read (call kind, access mode, checksum flag, number of restarts capped at 3, "
        "continued-from-cache?, skipped-into-scratch?, empty result?, starts/ends on a frame boundary?, expected error?, frames capped at 3); for a "
        "compression (flag, maxFrameSize class, frames capped, empty frames inside/at end, explicit endFrame, table written in pieces, flush retries); "
        "for a writer history (flag, entries capped, mixed rooms, resumed); for a corruption (class, mode, accepted?, field). A case is non-trivial "
        "when it exercised the real code and both the direct oracle and (where run) the model lock-step were evaluated on it.")
