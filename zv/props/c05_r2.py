"""C05 round 2: entry points x parameter combinations x call histories the first round did not generate.

Every emitted frame goes through the same judge as round 1: the extracted reference decoder R in STRICT mode
(window rule on every match, Block_Maximum_Size incl. maxBlockSize, reserved bits, exact consumption, content size,
checksum) and the trace rules of c05.check_trace, plus rules added here (the frame is the whole output, the last-block
flag closes the frame, single-segment window >= content, no compressed block below the minimal size).

Groups (harness/c05_entries.c unless noted):
  mt    multi-job multithreaded frames (input > 512 KiB so that several jobs exist; zv_codec): small windows, overlap,
        LDM, rsyncable, dictionaries, targetCBlockSize; offsets across job boundaries must stay inside the window
  adv   ZSTD_compress_advanced with RAW parameter vectors (only ZSTD_checkCParams between the caller and the match finders)
  bl    buffer-less API: ZSTD_compressBegin_advanced / _usingDict / _usingCDict(_advanced) + compressContinue pieces
        (contiguous and not) + compressEnd, pledged size or not
  blk   ZSTD_compressBlock users: blocks wrapped into a frame as the documentation prescribes
  leg   the ZSTD_initCStream* family (srcSize / advanced / usingDict / usingCDict(_advanced) / resetCStream) and the deprecated ZBUFF initialisers with
        ZSTD_compressStream, ZSTD_flushStream, ZSTD_endStream; a second frame on the same stream object without a new init
  multi several frames on ONE context (resets, sticky parameters, dictionaries coming and going, simple API in between)
  skip  ZSTD_writeSkippableFrame
  pl    streaming with a pledged size, ZSTD_e_end-only, empty frames, srcSizeHint, forceMaxWindow, windowLog up to 31 (zv_codec)
  sub   ZSTD_c_targetCBlockSize x small windows x dictionaries x streaming flushes (zv_codec)
  edge  the case splits of the window mechanism theorem: dictionary copies just before / after the dictionary retires, matches at
        distance window-1 / window / window+1 (zv_codec)
"""
from .. import codec, core

RAWDICT = "raw"


def farcopy(rng, size, dists):
    """noise / text with copies whose distances sit around the given values (window sizes, job sizes)"""
    out = bytearray(codec.gen_input(rng, rng.choice(["text", "random", "lowent"]), min(size, 4096)))
    while len(out) < size:
        r = rng.random()
        if r < 0.45 and len(out) > 64:
            d = rng.choice(dists) + rng.choice([-3, -1, 0, 0, 1, 2, 5, 17])
            d = max(1, min(d, len(out)))
            ln = rng.choice([4, 5, 8, 16, 40, 64, 200, 1000, 5000])
            st = len(out) - d
            for k in range(ln):
                out.append(out[st + k])
        elif r < 0.75:
            out += rng.randbytes(rng.choice([1, 3, 8, 30, 200, 3000]))
        else:
            out += codec.gen_input(rng, "text", rng.choice([20, 300, 5000, 30000]))
    return bytes(out[:size])


def seamcopy(rng, size, wl, job=524288):
    """text / noise; after every multiple of [job] (a multithreaded job boundary) copies of bytes that precede the boundary,
    taken from further back than the window but inside (overlap + first block of the job)"""
    out = bytearray(farcopy(rng, size, [1 << wl, 300]))
    win = 1 << wl
    for seam in range(job, size, job):
        a = seam - win
        if a < 0:
            continue
        out[a:seam] = rng.randbytes(win)            # what the overlap holds
        q = seam - rng.choice([0, 0, 3, 17])        # runs and short periods across / right after the boundary: a fresh context would
        for per in rng.sample([1, 4, 8], 3):        # code them with its initial repeat offsets 1, 4, 8
            pat = rng.randbytes(per)
            out[q:q + 48] = (pat * 48)[:48]
            q += 48 + rng.choice([0, 2, 5])
        p = q + rng.choice([0, 1, win // 4])
        while p < seam + min(win, 131072) - 40 and p + 40 < size:
            dist = win + rng.choice([1, 2, 7, win // 8, win // 2, win - 40])
            ln = rng.choice([8, 16, 32])
            src = p - dist
            if src >= a and src + ln <= seam:
                out[p:p + ln] = out[src:src + ln]
            p += ln + rng.choice([3, 9, 40])
    return bytes(out[:size])


def raw_vector(rng):
    """a RAW ZSTD_compressionParameters vector that passes ZSTD_checkCParams (bounds only)"""
    wl = rng.choice([10, 10, 10, 11, 12, 13, 14, 15, 16, 17, 18, 20, 22])
    st = rng.randint(1, 9)
    cl = rng.choice([6, 7, 8, 10, wl - 1, wl, wl + 1, wl + 3, 20])
    hl = rng.choice([6, 7, 8, 10, wl - 1, wl, wl + 1, wl + 4, 20, 22])
    sl = rng.choice([1, 1, 2, 3, 4, 5, 6, 8, 9])
    mm = rng.choice([3, 3, 3, 4, 5, 6, 7])
    tl = rng.choice([0, 0, 1, 2, 3, 4, 8, 16, 32, 48, 64, 100, 999, 4096, 131072])
    return [wl, max(6, min(cl, 30)), max(6, min(hl, 30)), sl, mm, tl, st]


def make_dicts(rng):
    ds = [("raw-rand", rng.randbytes(3000)), ("raw-small", rng.randbytes(9)), ("raw-text", codec.gen_input(rng, "text", 20000)),
          ("raw-8", rng.randbytes(8)), ("raw-big", codec.gen_input(rng, "text", 150000))]
    try:
        g = open(core.REPO + "/tests/golden-dictionaries/http-dict-missing-symbols", "rb").read()
        ds.append(("golden", g))
        ds.append(("golden", g))
        # same tables, another dictionary ID (3 bytes wide in the header) and more content
        ds.append(("golden-id3", g[:4] + (70000 + rng.randrange(1 << 20)).to_bytes(4, "little") + g[8:] + codec.gen_input(rng, "text", 3000)))
        ds.append(("zero-weight", open(core.REPO + "/tests/dict-files/zero-weight-dict", "rb").read()))
    except OSError:
        pass
    return ds


def is_formatted(d):
    return d is not None and len(d) >= 8 and d[:4] == bytes.fromhex("37a430ec")


def dict_id(d):
    return int.from_bytes(d[4:8], "little") if is_formatted(d) else 0


def pick_input(rng, size, wl=None):
    dists = [1 << w for w in ([wl] if wl else [10, 12, 17])] + [size // 2 or 1, 524288, 1 << 10]
    dists = [d for d in dists if d < max(size, 2)] or [1]
    k = rng.random()
    if k < 0.5:
        return farcopy(rng, size, dists)
    return codec.gen_input(rng, rng.choice(["text", "mixed", "longdist", "selfcopy", "rep3", "period", "lowent", "zeros", "random"]), size)


def make_cases(ctx, rng):
    q = ctx.quick
    dicts = make_dicts(rng)
    cases = []

    def add(cid, group, harness, line, x, exp, d=None, flags=None, multi=None, info=None):
        flags = list(flags or [])
        if info and info.get("dictmode") == "prefix" and is_formatted(d):
            flags.append("rawdict")     # a prefix is raw content whatever it looks like
        cases.append(dict(id=cid, group=group, harness=harness, line=line, x=x, exp=exp, dict=d, flags=flags, multi=multi, info=info or {}))

    # ---- mt: several jobs ----
    for i in range(3 if q else 24):
        wl = rng.choice([10, 11, 12, 14, 17, 19, 20, None])
        size = rng.choice([524288 + 4096, 540000, 600000]) if q else rng.choice([524289, 600000, 1048576 + 1, 1300000, 1700000, 2200000])
        x = pick_input(rng, size, wl)
        p = {"level": rng.choice([1, 1, 2, 3, 4, 5, -3] if q else [1, 2, 3, 4, 5, 6, 7, 9, 12, 16, -3]), "nbWorkers": rng.choice([1, 2, 3]), "jobSize": rng.choice([1, 524288, 524288 + 4096])}
        if wl:
            p["windowLog"] = wl
        if rng.random() < 0.7:
            p["overlapLog"] = rng.randint(0, 9)
        if rng.random() < 0.5:
            p["ldm"] = 1
            if rng.random() < 0.6:
                p["ldmMinMatch"] = rng.choice([4, 16, 64])
            if rng.random() < 0.5:
                p["ldmHashRateLog"] = rng.choice([0, 1, 4])
            if rng.random() < 0.3:
                p["ldmHashLog"] = rng.choice([6, 10, 16])
        if rng.random() < 0.3:
            p["rsyncable"] = 1
        if rng.random() < 0.5:
            p["checksum"] = 1
        if rng.random() < 0.25:
            p["targetCBlockSize"] = rng.choice([1340, 3000])
        if rng.random() < 0.2:
            p["maxBlockSize"] = rng.choice([1024, 4096, 65536])
        if rng.random() < 0.2:
            p["forceMaxWindow"] = 1
        if rng.random() < 0.15:
            p["contentSize"] = 0
        d, dm = None, "-"
        if rng.random() < 0.35:
            dn, d = rng.choice(dicts)
            dm = rng.choice(["load", "prefix", "cdict", "loadref"])
            if rng.random() < 0.5:       # the start of the input repeats the dictionary
                x = (d[-min(len(d), 3000):] + x)[:size]
        if i % 3 == 0 or (q and i == 2):      # aimed at the job seams: a small window, the whole window as overlap, copies just out of reach
            wl = rng.choice([10, 10, 11, 12, 14])
            x = seamcopy(rng, size, wl)
            p = {"level": rng.choice([1, 2, 3, 4, 5]), "nbWorkers": rng.choice([1, 2]), "jobSize": 524288, "windowLog": wl, "overlapLog": rng.choice([9, 9, 8, 7])}
            d, dm = None, "-"
        exp = dict(checksum=p.get("checksum", 0), wlog=p.get("windowLog"), cs=p.get("contentSize", 1))
        exp["dictid"] = dict_id(d) if (d is not None and dm != "prefix") else 0
        if rng.random() < 0.5:
            ops = []
            left = len(x)
            while left > 0 and len(ops) < 60:
                k = min(left, rng.choice([1, 1000, 65536, 131072, 300000, 524288, 524289, left]))
                ops.append((k, rng.choice([1000, 100000, 1 << 22]), rng.choice([0, 0, 0, 0, 1])))
                left -= k
            exp["fcs"] = "any"
            line = "S mt%d %s %s %s %s %s" % (i, codec.params_str(p), dm, codec.hx(d) if d else "-", ";".join("%d:%d:%d" % o for o in ops), codec.hx(x))
            add("mt%d" % i, "mt", "codec", line, x, exp, d=d, info=dict(params=p, dictmode=dm, ops=ops))
        else:
            exp["fcs"] = "must" if exp["cs"] else "absent"
            line = "C mt%d compress2 %s %s %s %s" % (i, codec.params_str(p), dm, codec.hx(d) if d else "-", codec.hx(x))
            add("mt%d" % i, "mt", "codec", line, x, exp, d=d, info=dict(params=p, dictmode=dm))

    # ---- adv / bl / blk: raw parameter vectors ----
    for i in range(30 if q else 400):
        v = raw_vector(rng)
        wl = v[0]
        cs, ck, nd = rng.choice([1, 1, 0]), rng.choice([0, 0, 1]), rng.choice([0, 0, 1])
        size = rng.choice([0, 1, 5, 100, 1000, 1023, 1024, 1025, 3000, 5000, 20000, 40000, 70000, 131072 + 10, 200000])
        if rng.random() < 0.3:      # the case splits of the header writer: single segment iff window >= size; field widths at 256 / 65792
            size = rng.choice([(1 << wl) - 1, 1 << wl, (1 << wl) + 1] if wl <= 17 else [255, 256, 65791, 65792])
        if size > 70000 and v[6] >= 7 and q:
            size = 40000
        x = pick_input(rng, size, wl)
        d = None
        if rng.random() < 0.4:
            dn, d = rng.choice(dicts)
            if rng.random() < 0.6:
                x = (d[-min(len(d), rng.choice([64, 1000, 3000])):] + x)[:max(size, 1)]
        raw = ":".join(str(t) for t in v + [cs, ck, nd])
        exp = dict(checksum=ck, wlog=wl, cs=cs, dictid=(0 if nd else dict_id(d)))
        which = rng.random()
        if which < 0.4:
            exp["fcs"] = "must" if cs else "absent"
            exp["hdr"] = (wl, cs, ck, nd, len(x), dict_id(d))
            add("adv%d" % i, "adv", "entries", "A adv%d %s %s %s" % (i, raw, codec.hx(d) if d else "-", codec.hx(x)), x, exp, d=d, info=dict(raw=raw))
        elif which < 0.8:
            pledged = len(x) if rng.random() < 0.5 else -1
            exp["fcs"] = ("must" if cs else "absent") if pledged >= 0 else "absent"
            segs = []
            left = len(x)
            while left > 0 and len(segs) < 100 and rng.random() < 0.93:
                k = min(left, rng.choice([1, 2, 7, 100, 1 << wl, (1 << wl) - 1, (1 << wl) + 1, 1000, 4096, 65536, 131072, 131073, 200000]))
                segs.append("%d%s" % (k, "n" if rng.random() < 0.35 else ""))
                left -= k
            exp["hdr"] = (wl, cs if pledged >= 0 else 0, ck, nd, max(pledged, 0), dict_id(d))
            add("bl%d" % i, "bl", "entries", "B bl%d adv:%s:%d %s %s %s" % (i, raw, pledged, codec.hx(d) if d else "-", ",".join(segs) or "-", codec.hx(x)),
                x, exp, d=d, info=dict(raw=raw, pledged=pledged, segs=segs))
        else:
            blk = rng.choice([0, 0, 0, 0, 1, 7, 100, 1000, 1 << wl])
            if blk > min(1 << wl, 131072):
                blk = 0
            if blk == 0 and wl <= 15 and rng.random() < 0.7:      # whole blocks of ZSTD_getBlockSize bytes, several of them, window declared as is
                d = None
                x = pick_input(rng, (3 << wl) + rng.choice([0, 5, 1 << wl]), wl)
                exp["dictid"] = 0
            exp["fcs"] = "absent"
            exp["checksum"] = 0
            exp["dictid"] = 0
            exp["blockapi"] = 1
            if d:
                exp["wlog"] = None      # the wrapper declares a window covering dictionary + content (see harness)
            add("blk%d" % i, "blk", "entries", "K blk%d adv:%s:-1 %s %d %s" % (i, raw, codec.hx(d) if d else "-", blk, codec.hx(x)), x, exp, d=d,
                flags=["rawdict"] if (d and not is_formatted(d)) else [], info=dict(raw=raw, blk=blk))
    # buffer-less with level-derived parameters and digested dictionaries
    for i in range(12 if q else 120):
        lvl = rng.choice([-5, 1, 2, 3, 4, 5, 6, 9, 13, 16, 19])
        size = rng.choice([0, 1, 100, 5000, 40000, 131072, 131073, 200000, 300000])
        if q and lvl >= 13:
            size = min(size, 40000)
        x = pick_input(rng, size)
        dn, d = rng.choice(dicts)
        if rng.random() < 0.5:
            x = (d[-min(len(d), 2000):] + x)[:max(size, 1)]
        form = rng.choice(["lvl", "lvl0", "cdict", "cdadv", "cdadv"])
        segs = []
        left = len(x)
        while left > 0 and len(segs) < 60 and rng.random() < 0.9:
            k = min(left, rng.choice([1, 5, 100, 1000, 4096, 65536, 131072, 131073, 200000]))
            segs.append("%d%s" % (k, "n" if rng.random() < 0.4 else ""))
            left -= k
        exp = dict(checksum=0, wlog=None, cs=1, dictid=dict_id(d), fcs="absent")
        if form == "lvl":
            b = "lvl:%d" % lvl
        elif form == "lvl0":
            b, d = "lvl:%d" % lvl, None
            exp["dictid"] = 0
        elif form == "cdict":
            b = "cdict:%d" % lvl
        else:
            cs, ck, nd = rng.choice([0, 1]), rng.choice([0, 1]), rng.choice([0, 1, 1])
            pledged = len(x) if rng.random() < 0.6 else -1
            if nd and not is_formatted(d):
                d = [db for dn_, db in dicts if is_formatted(db)][i % 3]       # noDictIDFlag matters only for a dictionary that has an ID
            b = "cdadv:%d:%d:%d:%d:%d" % (lvl, cs, ck, nd, pledged)
            exp = dict(checksum=ck, wlog=None, cs=cs, dictid=(0 if nd else dict_id(d)), fcs=("must" if (cs and pledged >= 0) else "absent"))
        add("bq%d" % i, "bl", "entries", "B bq%d %s %s %s %s" % (i, b, codec.hx(d) if d else "-", ",".join(segs) or "-", codec.hx(x)), x, exp, d=d,
            info=dict(begin=b, segs=segs))
    # block API with level-derived parameters
    for i in range(6 if q else 60):
        lvl = rng.choice([-5, 1, 3, 5, 7, 12, 16, 19])
        size = rng.choice([1, 100, 5000, 40000, 131072, 200000, 300000])
        if q and lvl >= 12:
            size = min(size, 40000)
        x = pick_input(rng, size)
        d = None
        if rng.random() < 0.4:
            dn, d = rng.choice(dicts)
            x = (d[-min(len(d), 2000):] + x)[:max(size, 1)]
        blk = rng.choice([0, 0, 1, 3, 100, 4096, 65536, 131072])
        exp = dict(checksum=0, wlog=None, cs=1, dictid=0, fcs="absent", blockapi=1)
        add("bk%d" % i, "blk", "entries", "K bk%d lvl:%d %s %d %s" % (i, lvl, codec.hx(d) if d else "-", blk, codec.hx(x)), x, exp, d=d,
            flags=["rawdict"] if (d and not is_formatted(d)) else [], info=dict(level=lvl, blk=blk))

    # ---- leg: the ZSTD_initCStream* family + compressStream / flushStream / endStream, one or two frames per stream object ----
    for i in range(16 if q else 200):
        size = rng.choice([0, 0, 1, 100, 255, 256, 5000, 65792, 70000, 131072, 140000])
        x = pick_input(rng, size)
        dn, d = rng.choice(dicts)
        if rng.random() < 0.5 and size > 100:
            x = (d[-min(len(d), 1500):] + x)[:size]
        lvl = rng.choice([-3, 1, 2, 3, 5, 7, 9, 13 if size < 30000 else 3, 19 if size < 30000 else 4])
        form = rng.choice(["init", "srcsize", "reset", "adv", "adv", "udict", "ucdict", "ucdadv", "ucdadv"])
        pss = len(x) if rng.random() < 0.6 else -1
        e = dict(checksum=0, wlog=None, cs=1, dictid=0, fcs="absent", d=None)
        if form == "init":
            b = "init:%d" % lvl
        elif form in ("srcsize", "reset"):
            b = "%s:%d:%d" % (form, lvl, pss)
            e["fcs"] = "must" if pss > 0 else "absent"      # 0 still means "unknown" for these two
        elif form == "adv":
            v = raw_vector(rng)
            cs, ck, nd = rng.choice([1, 1, 0]), rng.choice([0, 1]), rng.choice([0, 0, 1])
            b = "adv:%s:%d" % (":".join(str(t) for t in v + [cs, ck, nd]), pss)
            e = dict(checksum=ck, wlog=v[0], cs=cs, dictid=(0 if nd else dict_id(d)), fcs=("must" if (cs and pss >= 0) else "absent"), d=d)
        elif form == "udict":
            b = "udict:%d" % lvl
            e.update(dictid=dict_id(d), d=d)
        elif form == "ucdict":
            b = "ucdict:%d" % lvl
            e.update(dictid=dict_id(d), d=d)
        else:
            cs, ck, nd = rng.choice([1, 1, 0]), rng.choice([0, 1]), rng.choice([0, 0, 1])
            b = "ucdadv:%d:%d:%d:%d:%d" % (lvl, cs, ck, nd, pss)
            e = dict(checksum=ck, wlog=None, cs=cs, dictid=(0 if nd else dict_id(d)), fcs=("must" if (cs and pss >= 0) else "absent"), d=d)
        segs = []
        left = len(x)
        while left > 0 and len(segs) < 60 and rng.random() < 0.9:
            k = min(left, rng.choice([1, 5, 100, 1000, 4096, 65536, 131072, 131073]))
            segs.append("%d%s" % (k, "f" if rng.random() < 0.3 else ""))
            left -= k
        frames = rng.choice([1, 2, 2])
        e2 = dict(e, fcs="absent")      # a frame started without a new init call has no announced size
        if len(x) == 0:                 # the frame starts inside ZSTD_endStream, which knows that nothing follows
            e["fcs"] = e2["fcs"] = "any"
        add("lg%d" % i, "leg", "entries", "L lg%d %s %s %s %s %d" % (i, b, codec.hx(d if e["d"] is not None else None), ",".join(segs) or "-", codec.hx(x), frames),
            x, None, d=d, multi=[e, e2][:frames], info=dict(init=b, segs=segs, frames=frames))
    # buffer-less API on a context duplicated with ZSTD_copyCCtx after the begin call
    for i in range(8 if q else 100):
        size = rng.choice([0, 1, 100, 5000, 40000, 131073, 200000])
        x = pick_input(rng, size)
        d = None
        if rng.random() < 0.6:
            dn, d = rng.choice(dicts)
            x = (d[-min(len(d), 2000):] + x)[:max(size, 1)]
        v = raw_vector(rng)
        if q and v[6] >= 7:
            x = x[:40000]
        cs, ck, nd = rng.choice([1, 0]), rng.choice([0, 1]), rng.choice([0, 1])
        pl = len(x) if rng.random() < 0.5 else 0        # 0 means unknown for ZSTD_copyCCtx
        b = "copy:%d:adv:%s:%d" % (pl, ":".join(str(t) for t in v + [cs, ck, nd]), rng.choice([-1, len(x), 12345]))
        segs = []
        left = len(x)
        while left > 0 and len(segs) < 40 and rng.random() < 0.9:
            k = min(left, rng.choice([1, 100, 1 << v[0], 4096, 65536, 131072, 131073]))
            segs.append("%d%s" % (k, "n" if rng.random() < 0.35 else ""))
            left -= k
        # the duplicate always gets {contentSize iff pledged, no checksum, dictID kept}
        exp = dict(checksum=0, wlog=v[0], cs=1, dictid=dict_id(d), fcs=("must" if pl > 0 else "absent"))
        exp["hdr"] = (v[0], 1 if pl > 0 else 0, 0, 0, pl, dict_id(d))
        add("cp%d" % i, "bl", "entries", "B cp%d %s %s %s %s" % (i, b, codec.hx(d) if d else "-", ",".join(segs) or "-", codec.hx(x)), x, exp, d=d,
            info=dict(begin=b, segs=segs))

    # ---- multi: several frames on one context ----
    for i in range(20 if q else 200):
        size = rng.choice([0, 1, 20, 300, 5000, 20000, 70000, 140000])
        x = pick_input(rng, size)
        dn, d = rng.choice(dicts)
        if rng.random() < 0.5:
            x = (d[-min(len(d), 1500):] + x)[:max(size, 1)] if size else x
        if i % 4 == 0:      # aimed histories (below): the input starts with the end of the dictionary, so a frame that sees it uses it
            dn, d = rng.choice([t for t in dicts if len(t[1]) >= 100])
            x = d[-min(len(d), 1500):] + pick_input(rng, rng.choice([300, 5000, 20000]))
        steps, exps = [], []
        cur = {}            # sticky parameter state as documented
        curdict = None      # sticky dictionary (load / loadref / cdict)
        pending_prefix = False      # a referenced prefix waits for the next frame started through the advanced API
        for s in range(rng.randint(2, 5)):
            reset = rng.choice(["n", "s", "s", "p", "b"]) if s else "n"
            p = {}
            for k, vals in (("level", [1, 3, 5, 7, 19 if size < 30000 else 4, -1]), ("checksum", [0, 1]), ("contentSize", [0, 1]), ("dictID", [0, 1]),
                            ("windowLog", [10, 12, 17, 20]), ("format", [0, 0, 1]), ("targetCBlockSize", [0, 1340]), ("maxBlockSize", [0, 1024, 4096]),
                            ("nbWorkers", [0, 0, 1]), ("ldm", [0, 1]), ("strategy", [0, 1, 2, 5, 7]), ("literalMode", [0, 1, 2]), ("blockSplitter", [0, 1, 2])):
                if rng.random() < 0.2:
                    p[k] = rng.choice(vals)
            how = rng.choice(["c2", "c2", "c2", "cctx:%d" % rng.choice([1, 3, 6]), "udict:%d" % rng.choice([1, 3]), "st:%d:%d:%d" % (rng.choice([0, 1000, 30000]), rng.choice([0, 50, 100000]), rng.choice([0, 0, 3])),
                              "stp:%d:%d:0" % (rng.choice([0, 999]), rng.choice([0, 100000])), "end"])
            dm = rng.choice(["-", "-", "-", "load", "loadref", "prefix", "cdict", "none"])
            if i % 4 == 0 and s < 3:      # aimed: a prefix consumed by one advanced frame, then frames that must not see it; a simple-API
                reset = "n" if s == 0 else "s"      # frame in between must not consume it
                dm = ["prefix", "-", "-"][s]
                how = [rng.choice(["c2", "cctx:3"]), "c2", rng.choice(["c2", "end", "st:1000:0:0"])][s]
                p = {k: v for k, v in p.items() if k not in ("nbWorkers",)}
            if reset in ("p", "b"):
                cur = {}
                curdict = None
                pending_prefix = False
            cur.update(p)
            if dm in ("load", "loadref", "cdict"):
                curdict, pending_prefix = "fmt", False
            elif dm == "none":
                curdict, pending_prefix = None, False
            elif dm == "prefix":
                curdict, pending_prefix = None, True      # ZSTD_CCtx_refPrefix clears a loaded dictionary
            steps.append("%s/%s/%s/%s" % (reset, codec.params_str(p), dm, how))
            simple = how.startswith("cctx") or how.startswith("udict")
            if simple:      # the simple API ignores sticky parameters, dictionaries and a pending prefix (udict: the one passed in)
                e = dict(checksum=0, wlog=None, cs=1, fcs="must", magicless=0, bm=None,
                         dictid=dict_id(d) if how.startswith("udict") else 0, d=(d if how.startswith("udict") else None))
            else:
                prefix_now = pending_prefix
                pending_prefix = False          # single use
                usedict = d if (prefix_now or curdict) else None
                e = dict(checksum=cur.get("checksum", 0), wlog=cur.get("windowLog"), cs=cur.get("contentSize", 1),
                         fcs=("any" if how.startswith("st:") else ("must" if cur.get("contentSize", 1) else "absent")),
                         magicless=cur.get("format", 0), bm=(cur.get("maxBlockSize") or None),
                         dictid=(dict_id(d) if (curdict and not prefix_now and cur.get("dictID", 1)) else 0), d=usedict, rawdict=prefix_now)
                if how.startswith("stp") and e["cs"]:
                    e["fcs"] = "must"
            exps.append(e)
        add("mu%d" % i, "multi", "entries", "M mu%d %s %s %s" % (i, codec.hx(d), "|".join(steps), codec.hx(x)), x, None, d=d, multi=exps, info=dict(steps=steps))

    # ---- skip: ZSTD_writeSkippableFrame ----
    for i in range(12 if q else 100):
        variant = rng.choice(list(range(16)) + [16, 17, 255, 4294967295])
        n = rng.choice([0, 1, 2, 3, 4, 7, 8, 9, 255, 256, 1000, 65536, 70000])
        cap = rng.choice([-1, -1, -1, n + 8, n + 7, n, 8, 7, 0])
        if i < 6:       # the boundaries, every run: last valid / first invalid variant, exact / one-short capacity
            variant, cap = [(15, -1), (16, -1), (0, n + 8), (15, n + 7), (16, n + 8), (3, n + 8)][i]
        add("sk%d" % i, "skip", "entries", "W sk%d %d %s %d" % (i, variant, codec.hx(rng.randbytes(n)) if n else "-", cap), None,
            dict(variant=variant, n=n, cap=cap), info=dict(variant=variant, n=n, cap=cap))

    # ---- pl: pledged size / end-only / hints / large window logs (zv_codec S and C) ----
    for i in range(22 if q else 250):
        size = rng.choice([0, 0, 1, 2, 255, 256, 257, 1000, 65791, 65792, 65793, 100000, 131072, 131073, 262144])
        x = pick_input(rng, size)
        p = {"level": rng.choice([1, 2, 3, 5, 7, 10, 16, 19, 22, -7])}
        if q and p["level"] >= 16:
            x = x[:70000]
        r = rng.random()
        if r < 0.35:
            p["windowLog"] = rng.choice([10, 10, 11, 12, 16, 17, 18, 23])
        elif r < 0.5:
            p["windowLog"] = rng.choice([27, 28, 30, 31])
        if rng.random() < 0.3:
            p["srcSizeHint"] = rng.choice([0, 1, 100, 1000, 65536, len(x), max(len(x) // 2, 1), 2 * len(x) + 1, 1 << 24, (1 << 31) - 1])
        if rng.random() < 0.2:
            p["forceMaxWindow"] = 1
        if rng.random() < 0.4:
            p["checksum"] = 1
        if rng.random() < 0.2:
            p["contentSize"] = 0
        if rng.random() < 0.15:
            p["ldm"] = 1
        if rng.random() < 0.1:
            p["format"] = 1
        if rng.random() < 0.15:
            p["nbWorkers"] = rng.choice([1, 2])
        if rng.random() < 0.15:
            p["maxBlockSize"] = rng.choice([1024, 4096, 131072])
        d, dm = None, "-"
        if rng.random() < 0.3:
            dn, d = rng.choice(dicts)
            dm = rng.choice(["load", "prefix", "cdict", "loadref"])
            if len(x) > 100:
                x = (d[-min(len(d), 1000):] + x)[:len(x)]
        big = p.get("windowLog", 0) >= 27
        mode = rng.choice(["pledged", "pledged", "endonly", "oneshot"]) if big else rng.choice(["pledged", "pledged", "endonly", "oneshot", "unknown"])
        exp = dict(checksum=p.get("checksum", 0), wlog=p.get("windowLog"), cs=p.get("contentSize", 1), dictid=(dict_id(d) if (d is not None and dm != "prefix") else 0))
        ops = []
        if mode in ("pledged", "unknown"):
            left = len(x)
            while left > 0 and len(ops) < 50:
                k = min(left, rng.choice([1, 2, 100, 1000, 65536, 131072, left, left]))
                ops.append((k, rng.choice([1, 9, 100, 100000, 1 << 22]), rng.choice([0, 0, 0, 1])))
                left -= k
            if rng.random() < 0.3:      # an empty ZSTD_e_flush / ZSTD_e_continue call before anything else, or in the middle
                ops.insert(rng.randrange(len(ops) + 1), (0, 100, rng.choice([0, 1])))
        opstr = ";".join("%d:%d:%d" % o for o in ops) or "-"
        if mode == "oneshot":
            exp["fcs"] = "must" if exp["cs"] else "absent"
            line = "C pl%d compress2 %s %s %s %s" % (i, codec.params_str(p), dm, codec.hx(d) if d else "-", codec.hx(x))
        elif mode == "pledged":
            exp["fcs"] = "must" if exp["cs"] else "absent"
            line = "S pl%d %s %s %s %s %s %d" % (i, codec.params_str(p), dm, codec.hx(d) if d else "-", opstr, codec.hx(x), len(x))
        elif mode == "endonly":
            exp["fcs"] = "must" if exp["cs"] else "absent"     # a first call with ZSTD_e_end and all the input knows the size
            line = "S pl%d %s %s %s - %s" % (i, codec.params_str(p), dm, codec.hx(d) if d else "-", codec.hx(x))
        else:
            exp["fcs"] = "any"
            line = "S pl%d %s %s %s %s %s" % (i, codec.params_str(p), dm, codec.hx(d) if d else "-", opstr, codec.hx(x))
        fl = ["magicless"] if p.get("format") else []
        if "maxBlockSize" in p:
            fl.append("bm=%d" % p["maxBlockSize"])
        add("pl%d" % i, "pl", "codec", line, x, exp, d=d, flags=fl, info=dict(params=p, dictmode=dm, mode=mode, ops=ops))

    # ---- sub: targetCBlockSize x small windows x dictionaries x streaming ----
    for i in range(16 if q else 250):
        size = rng.choice([3000, 20000, 70000, 131072, 140000, 262144 + 77])
        kind = rng.choice(["matchlead", "text", "mixed", "longlen", "hufrepeat", "farcopy", "selfcopy", "lowent", "rep3"])
        p = {"level": rng.choice([1, 2, 3, 4, 5, 6, 7, 9, 12, 13, 16, 19]), "targetCBlockSize": rng.choice([1340, 1340, 1341, 1500, 2000, 2136, 3000, 5000, 20000])}
        if q and p["level"] >= 13:
            size = min(size, 70000)
        if rng.random() < 0.5:
            p["windowLog"] = rng.choice([10, 10, 11, 12, 14, 17])
        x = farcopy(rng, size, [1 << p.get("windowLog", 17), 1000]) if kind == "farcopy" else codec.gen_input(rng, kind, size)
        if rng.random() < 0.3:
            p["literalMode"] = rng.choice([1, 2])
        if rng.random() < 0.3:
            p["blockSplitter"] = rng.choice([1, 2])
        if rng.random() < 0.3:
            p["minMatch"] = rng.choice([3, 4, 5, 7])
        if rng.random() < 0.3:
            p["checksum"] = 1
        if rng.random() < 0.2:
            p["maxBlockSize"] = rng.choice([1024, 1340, 2000, 4096, 65536])
        if rng.random() < 0.15:
            p["ldm"] = 1
        if rng.random() < 0.2:
            p["strategy"] = rng.randint(1, 9)
        d, dm = None, "-"
        if rng.random() < 0.4:
            dn, d = rng.choice(dicts)
            dm = rng.choice(["load", "prefix", "cdict", "cdictref", "loadref"])
            x = (d[-min(len(d), 2500):] + x)[:len(x)]
        exp = dict(checksum=p.get("checksum", 0), wlog=p.get("windowLog"), cs=1, dictid=(dict_id(d) if (d is not None and dm != "prefix") else 0))
        fl = ["bm=%d" % p["maxBlockSize"]] if "maxBlockSize" in p else []
        if rng.random() < 0.5:
            ops = []
            left = len(x)
            while left > 0 and len(ops) < 80:
                k = min(left, rng.choice([1, 500, 1340, 4096, 10000, 65536, 131072, left]))
                ops.append((k, rng.choice([7, 100, 1339, 100000, 1 << 22]), rng.choice([0, 0, 1, 1])))
                left -= k
            exp["fcs"] = "any"
            line = "S sb%d %s %s %s %s %s" % (i, codec.params_str(p), dm, codec.hx(d) if d else "-", ";".join("%d:%d:%d" % o for o in ops), codec.hx(x))
            add("sb%d" % i, "sub", "codec", line, x, exp, d=d, flags=fl, info=dict(params=p, dictmode=dm, ops=ops, kind=kind))
        else:
            exp["fcs"] = "must"
            line = "C sb%d compress2 %s %s %s %s" % (i, codec.params_str(p), dm, codec.hx(d) if d else "-", codec.hx(x))
            add("sb%d" % i, "sub", "codec", line, x, exp, d=d, flags=fl, info=dict(params=p, dictmode=dm, kind=kind))
    # ---- edge: the case splits of the window mechanism (coq/Codec/C05Window.v): dictionary bytes copied just before and just after the
    #      position where the dictionary retires (block end == window), matches at distance window-1 / window / window+1 ----
    for i in range(16 if q else 120):
        wl = rng.choice([10, 10, 11, 12, 13])
        win = 1 << wl
        dn, d = rng.choice([t for t in dicts if len(t[1]) >= 1000])
        body = d[8:] if is_formatted(d) else d
        x = bytearray(rng.randbytes(4 * win + rng.choice([0, 1, 100])))
        for pos in (win - 40, win - 16, win + 1, win + 20, win + 40, win + 300, 2 * win - 20, 2 * win + 3):     # copies of the end of the dictionary around the edge
            ln = rng.choice([8, 12, 16])
            st = len(body) - rng.choice([16, 40, 200, min(len(body), 900)])
            x[pos:pos + ln] = body[st:st + ln]
        for pos in range(2 * win + 64, 4 * win - 40, 97):                                       # matches at distance window-1 / window / window+1 / 2*window
            dist = rng.choice([win - 1, win, win + 1, win + 7, 2 * win])
            if pos - dist >= 0:
                x[pos:pos + 12] = x[pos - dist:pos - dist + 12]
        x = bytes(x)
        p = {"level": rng.choice([1, 2, 3, 4, 5, 6, 7, 9, 13, 16, 19]), "windowLog": wl}
        if rng.random() < 0.3:
            p["minMatch"] = rng.choice([3, 4, 5])
        if rng.random() < 0.3:
            p["forceAttachDict"] = rng.choice([1, 2, 3])
        if rng.random() < 0.2:
            p["ldm"] = 1
            p["ldmMinMatch"] = rng.choice([4, 8, 16])
        if rng.random() < 0.2:
            p["rowMatchFinder"] = rng.choice([1, 2])
        if rng.random() < 0.2:
            p["dedicatedDictSearch"] = 1
        if rng.random() < 0.2:
            p["forceMaxWindow"] = 1
        dm = rng.choice(["load", "loadref", "prefix", "cdict", "cdictref"])
        exp = dict(checksum=0, wlog=wl, cs=1, dictid=(dict_id(d) if dm != "prefix" else 0))
        if rng.random() < 0.65:
            first = rng.choice([1, 37, 100, win // 2, win - 1])      # a flushed first piece: every later block straddles a multiple of the window
            ops = [(first, 100000, 1)]
            left = len(x) - first
            while left > 0 and len(ops) < 60:
                k = min(left, rng.choice([1, win - 1, win, win + 1, 100, 3 * win, left, left]))
                ops.append((k, rng.choice([100, 100000]), rng.choice([0, 0, 0, 1])))
                left -= k
            exp["fcs"] = "any"
            line = "S ed%d %s %s %s %s %s" % (i, codec.params_str(p), dm, codec.hx(d), ";".join("%d:%d:%d" % o for o in ops), codec.hx(x))
            add("ed%d" % i, "edge", "codec", line, x, exp, d=d, info=dict(params=p, dictmode=dm, ops=ops))
        else:
            exp["fcs"] = "must"
            line = "C ed%d compress2 %s %s %s %s" % (i, codec.params_str(p), dm, codec.hx(d), codec.hx(x))
            add("ed%d" % i, "edge", "codec", line, x, exp, d=d, info=dict(params=p, dictmode=dm))

    # ---- deprecated ZBUFF initialisers (lib/deprecated/zbuff_compress.c), streamed through the same object ----
    for i in range(8 if q else 80):
        size = rng.choice([0, 1, 100, 256, 5000, 70000, 140000])
        x = pick_input(rng, size)
        dn, d = rng.choice([t for t in dicts if is_formatted(t[1])] if i % 2 == 0 else dicts)
        if size > 100:
            x = (d[-min(len(d), 1500):] + x)[:size]
        if rng.random() < 0.7:
            v = raw_vector(rng)
            cs, ck, nd = rng.choice([1, 1, 0]), rng.choice([0, 1]), rng.choice([0, 1])
            pss = len(x) if rng.random() < 0.6 else rng.choice([0, -1])
            b = "zbuff:%s:%d" % (":".join(str(t) for t in v + [cs, ck, nd]), pss)
            e = dict(checksum=ck, wlog=v[0], cs=cs, dictid=(0 if nd else dict_id(d)), fcs=("must" if (cs and pss > 0) else "absent"), d=d)
        else:
            b = "zbuffd:%d" % rng.choice([1, 3, 5])
            e = dict(checksum=0, wlog=None, cs=1, dictid=dict_id(d), fcs="absent", d=d)
        segs = []
        left = len(x)
        while left > 0 and len(segs) < 30 and rng.random() < 0.85:
            k = min(left, rng.choice([1, 100, 4096, 65536, 131073]))
            segs.append("%d%s" % (k, "f" if rng.random() < 0.3 else ""))
            left -= k
        frames = rng.choice([1, 2])
        e2 = dict(e, fcs="absent")
        if len(x) == 0:
            e["fcs"] = e2["fcs"] = "any"
        add("zb%d" % i, "leg", "entries", "L zb%d %s %s %s %s %d" % (i, b, codec.hx(d), ",".join(segs) or "-", codec.hx(x), frames),
            x, None, d=d, multi=[e, e2][:frames], info=dict(init=b, segs=segs, frames=frames))
    return cases


def frame_rules(frame, f, exp, x):
    """rules on one decoded frame (R's trace f) beyond c05.check_trace; returns a list of problems"""
    bad = []
    if f["csize"] != len(frame):
        bad.append("the frame ends after %d bytes but %d bytes were emitted" % (f["csize"], len(frame)))
    if f["fcs"] is not None and f["fcs"] != len(x):
        bad.append("declared content size %d != input length %d" % (f["fcs"], len(x)))
    if exp.get("fcs") == "must" and f["fcs"] is None:
        bad.append("the size was known at frame start and contentSizeFlag=1 but the header carries no content size")
    if exp.get("fcs") == "absent" and f["fcs"] is not None:
        bad.append("the header carries a content size although it was not requested / not known at frame start")
    if bool(exp.get("checksum", 0)) != bool(f["checksum"]):
        bad.append("checksum flag in header (%d) differs from the requested one (%s)" % (f["checksum"], exp.get("checksum")))
    if exp.get("wlog") and not f["single"] and f["window"] > (1 << exp["wlog"]):
        bad.append("declared window %d exceeds the requested windowLog %d" % (f["window"], exp["wlog"]))
    if f["single"] and (f["fcs"] is None or f["window"] < len(x)):
        bad.append("single-segment frame whose window %d is below the content %d" % (f["window"], len(x)))
    if not f["single"] and f["window"] < 1024:
        bad.append("window %d below the minimum of the format" % f["window"])
    if exp.get("dictid") is not None and f["dictid"] != exp["dictid"]:
        bad.append("header dictID %d, expected %d" % (f["dictid"], exp["dictid"]))
    if f["desc"] & 8:
        bad.append("reserved bit set in the frame header descriptor")
    bl = f["blocks"]
    if not bl:
        bad.append("frame without any block")
    for i, b in enumerate(bl):
        if b["last"] != (1 if i == len(bl) - 1 else 0):
            bad.append("block %d: last-block flag %d at position %d of %d" % (i, b["last"], i, len(bl)))
        lim = min(f["window"], 131072) if not f["single"] else min(max(f["window"], 0), 131072)
        if b["rsize"] > lim:
            bad.append("block %d regenerates %d > Block_Maximum_Size %d" % (i, b["rsize"], lim))
        if b["type"] == 2:
            if b["csize"] < 2:
                bad.append("block %d: compressed block of %d bytes" % (i, b["csize"]))
            if not exp.get("blockapi") and b["csize"] >= b["rsize"]:
                bad.append("block %d: compressed block of %d bytes regenerates only %d" % (i, b["csize"], b["rsize"]))
            if b["litsize"] == 0 and b["nseq"] == 0:
                bad.append("block %d: compressed block with 0 literals and 0 sequences" % i)
            if b["nseq"] == 0 and b["nbseq_bytes"] != 1:
                bad.append("block %d: zero sequences encoded on %d bytes" % (i, b["nbseq_bytes"]))
            if b["lasttable"] != 0 and b["lasttable"] < 4:
                bad.append("block %d: last FSE table description + bitstream is %d bytes (< 4)" % (i, b["lasttable"]))
        if b["type"] in (0, 1) and b["rsize"] == 0 and not b["last"]:
            bad.append("block %d: empty block that is not the last one" % i)
    if len(bl) > 1 and bl[0]["type"] == 1 and not exp.get("blockapi"):
        bad.append("first block is RLE and more blocks follow")
    return bad


def check_skip(c, rest, mres):
    """ZSTD_writeSkippableFrame: magic variant, size field, payload, agreement with R and the readers"""
    e = c["exp"]
    bad = []
    t = rest.split(" ")
    need = e["n"] + 8
    should_fail = e["variant"] > 15 or (e["cap"] >= 0 and e["cap"] < need)
    if t[0] != "OK":
        if not should_fail:
            bad.append("ZSTD_writeSkippableFrame failed (%s) for variant %d, %d bytes, capacity %d" % (t[1:], e["variant"], e["n"], e["cap"]))
        return bad
    if should_fail:
        bad.append("ZSTD_writeSkippableFrame succeeded for variant %d / capacity %d (needs %d)" % (e["variant"], e["cap"], need))
        return bad
    fr = codec.unhx(t[1])
    payload = codec.unhx(c["line"].split(" ")[3])
    want = (0x184D2A50 + e["variant"]).to_bytes(4, "little") + e["n"].to_bytes(4, "little") + payload
    if fr != want:
        bad.append("skippable frame bytes differ from magic+size+payload (variant %d, %d bytes)" % (e["variant"], e["n"]))
    info = dict(kv.split("=") for kv in t[2:])
    if info.get("is") != "1" or info.get("rd") != "%d:1" % e["variant"] or info.get("fs") != str(need):
        bad.append("readers disagree with the written skippable frame: %s" % info)
    mk = mres.get("k." + c["id"])
    if mk is None or mk[0] != "OK" or mk[1] != fr:
        bad.append("skippable frame bytes differ from the model writer enc_skippable (variant %d, %d bytes)" % (e["variant"], e["n"]))
    m = mres.get(c["id"])
    if m is None or m[0] != "OK" or m[1] != b"":
        bad.append("R does not accept the skippable frame: %s" % (m[:2] if m else None,))
    else:
        fs = codec.parse_trace(m[2])
        if len(fs) != 1 or fs[0]["kind"] != "skip" or fs[0]["size"] != e["n"]:
            bad.append("R parses the skippable frame as %s" % (m[2][:80],))
    return bad


KEYS = []   # (substring of the rule, stable key) for findings decided by the lead


def run_r2(ctx, cd, rng):
    exe = core.build_harness("c05_entries", ["c05_entries.c"], variant="o1", extra_flags=["-w"])
    cases = make_cases(ctx, rng)
    by = {"entries": [c for c in cases if c["harness"] == "entries"], "codec": [c for c in cases if c["harness"] == "codec"]}
    out = {}
    for hn, ex in (("entries", exe), ("codec", cd.exe)):
        o, errs = codec._run_chunks(ex, [c["line"] for c in by[hn]], core.NCPU, 1500)
        if errs:
            ctx.violation(dict(kind="harness-crash", harness=hn, detail=errs[:2]), what="%s crashed while compressing: %r" % (hn, errs[0],))
        out.update(o)
    rcases = []
    for c in cases:
        rest = out.get(c["id"], "ERR missing")
        c["rest"] = rest
        t = rest.split(" ")
        if c["group"] == "skip":
            if t[0] == "OK":
                rcases.append((c["id"], "", None, codec.unhx(t[1])))
            continue
        if t[0] != "OK":
            continue
        if c["multi"] is not None:
            c["frames"] = []
            for k, tok in enumerate(t[1].split(",")):
                if tok.startswith("E"):
                    c["frames"].append(tok)
                    continue
                fr = codec.unhx(tok)
                c["frames"].append(fr)
                e = c["multi"][k] if k < len(c["multi"]) else {}
                fl = (["magicless"] if e.get("magicless") else []) + (["bm=%d" % e["bm"]] if e.get("bm") else []) + (["rawdict"] if e.get("rawdict") and e.get("d") else [])
                rcases.append(("%s.%d" % (c["id"], k), ",".join(fl), e.get("d"), fr))
        else:
            c["frame"] = codec.unhx(t[1])
            rcases.append((c["id"], ",".join(c["flags"]), c["dict"], c["frame"]))
    # a magicless frame must not be taken for a Zstandard frame by a decoder that was not told about the format
    for c in cases:
        if c["multi"] is not None and "frames" in c:
            for k, fr in enumerate(c["frames"]):
                if not isinstance(fr, str) and k < len(c["multi"]) and c["multi"][k].get("magicless"):
                    rcases.append(("n.%s.%d" % (c["id"], k), "", None, fr))
        elif "frame" in c and "magicless" in c["flags"]:
            rcases.append(("n." + c["id"], "", None, c["frame"]))
    # unit-level ties to the serialiser model: frame header writer (enc_fheader_of) for the raw-parameter paths, where the
    # applied windowLog is the caller's; skippable frame writer (enc_skippable)
    for c in cases:
        if c["group"] == "skip":
            payload = codec.unhx(c["line"].split(" ")[3])
            if c["exp"]["variant"] <= 15:
                rcases.append(("k." + c["id"], "skip=%d" % c["exp"]["variant"], payload, None))
        elif c.get("exp") and c["exp"].get("hdr") and "frame" in c:
            rcases.append(("h." + c["id"], "fhdr=%d:%d:%d:%d:0:%d:%d" % c["exp"]["hdr"], None, None))
    mres = cd.model(rcases)
    hist = {}

    def judge(c, cid, frame, exp, d, step=None):
        rep = dict(group=c["group"], harness=("harness/c05_entries.c" if c["harness"] == "entries" else "harness/zv_codec.c"),
                   line=c["line"][:400000], info=c["info"], step=step, frame_hex=frame.hex()[:200000], expect={k: v for k, v in exp.items() if k != "d"})
        m = mres.get(cid, ("ERR", "missing", -1))
        if m[0] != "OK":
            if m[1] == "dict" and d is not None:
                return      # R's dictionary loader is stricter (Huffman log 12): no verdict
            ctx.violation(dict(rep, result="R: ERR %s site %s" % (m[1], m[2])),
                          what="the strict reference decoder rejects an emitted frame: %s at site %s (%s %s)" % (m[1], m[2], c["group"], str(c["info"])[:300]))
            return
        if m[1] != c["x"]:
            ctx.violation(dict(rep, result="content differs"), what="emitted frame decodes (R) to different bytes (%s %s)" % (c["group"], str(c["info"])[:300]))
            return
        frames = codec.parse_trace(m[2])
        zf = [f for f in frames if f["kind"] == "zstd"]
        if len(zf) != 1 or len(frames) != 1:
            ctx.violation(dict(rep, result="%d frames" % len(frames)), what="expected exactly one Zstandard frame, got %d (%s)" % (len(frames), c["group"]))
            return
        problems = frame_rules(frame, zf[0], exp, c["x"])
        if exp.get("hdr"):
            mh = mres.get("h." + cid)
            if mh is None or mh[0] != "OK":
                problems.append("the frame header model gave no answer (%s)" % (mh,))
            elif not frame.startswith(mh[1]) or zf[0]["hsize"] != len(mh[1]):
                problems.append("frame header bytes %s differ from the header writer model %s" % (frame[:18].hex(), mh[1].hex()))
            else:
                ctx.cov["header_ties"] = ctx.cov.get("header_ties", 0) + 1
        for b in problems:
            key = None
            for sub, k in KEYS:
                if sub in b:
                    key = k
            ctx.violation(dict(rep, rule=b), key=key, what="emitted frame breaks a conformance/truthfulness rule: %s (%s %s step %s)" % (b, c["group"], str(c["info"])[:300], step))
        ctx.count((codec.trace_signature(frames), c["group"]), nontrivial=len(c["x"]) > 0)
        ctx.cov["traces_validated_against_impl"] += 1
        hist[c["group"]] = hist.get(c["group"], 0) + 1

    for nid, m in mres.items():
        if nid.startswith("n.") and m[0] == "OK":
            ctx.violation(dict(kind="magicless-accepted-as-zstd1", case=nid[2:]), what="a frame emitted in magicless format is accepted by a decoder in the default format (%s)" % nid[2:])
    for c in cases:
        t = c["rest"].split(" ")
        if c["group"] == "skip":
            for b in check_skip(c, c["rest"], mres):
                ctx.violation(dict(group="skip", line=c["line"][:2000], rule=b), what="ZSTD_writeSkippableFrame: %s" % b)
            ctx.count(("skip", c["exp"]["variant"] > 15, c["exp"]["cap"] < 0), nontrivial=True)
            hist["skip"] = hist.get("skip", 0) + 1
            continue
        if t[0] != "OK":
            err = t[1] if len(t) > 1 else "?"
            if c["dict"] is not None and err in ("Dictionary_is_corrupted", "Dictionary_mismatch"):
                continue
            if c["group"] in ("mt", "pl", "sub") and err == "Allocation_error_:_not_enough_memory" and c["info"].get("params", {}).get("windowLog", 0) >= 27:
                hist["skipped-nomem"] = hist.get("skipped-nomem", 0) + 1
                continue
            ctx.violation(dict(group=c["group"], line=c["line"][:400000], info=c["info"], error=err),
                          what="compression failed with %s (%s %s)" % (err, c["group"], str(c["info"])[:300]))
            continue
        if c["harness"] == "codec" and c["line"].startswith("S "):
            calls = [u.split(":") for u in " ".join(t[2:]).split(";") if u]
            if any(u[2].startswith("E") for u in calls):
                ctx.violation(dict(group=c["group"], line=c["line"][:400000], info=c["info"], calls=" ".join(t[2:])[-2000:]),
                              what="compressStream2 returned an error: %s (%s %s)" % (" ".join(t[2:])[-80:], c["group"], str(c["info"])[:300]))
                continue
            if not calls or calls[-1][2].rstrip("t") != "0" or sum(int(u[0]) for u in calls) != len(c["x"]):
                ctx.violation(dict(group=c["group"], line=c["line"][:400000], info=c["info"], calls=" ".join(t[2:])[-2000:]),
                              what="streaming compression did not finish the frame (%s)" % c["group"])
                continue
        if c["multi"] is not None:
            for k, fr in enumerate(c["frames"]):
                e = c["multi"][k]
                if isinstance(fr, str):
                    if e.get("d") is not None and fr in ("EDictionary_is_corrupted", "EDictionary_mismatch"):
                        continue
                    ctx.violation(dict(group=c["group"], line=c["line"][:400000], info=c["info"], step=k, error=fr),
                                  what="step %d of a multi-frame history failed with %s (%s)" % (k, fr, str(c["info"])[:300]))
                    continue
                judge(c, "%s.%d" % (c["id"], k), fr, e, e.get("d"), step=k)
        else:
            judge(c, c["id"], c["frame"], c["exp"], c["dict"])
    ctx.notes["round2_groups_validated"] = hist
