"""C02, round 2: decoding histories over ONE reused ZSTD_DCtx (harness/c02_hist.c).

What round 1 never generated: a dictionary / DDict / single-use prefix attached between the frames of a stream, ZSTD_initDStream* /
ZSTD_resetDStream / ZSTD_DCtx_reset in the middle of a stream followed by a new stream, stable output buffer over several frames,
ZSTD_decompressStream_simpleArgs, a single-call decompression between streaming sessions, legacy (v0.5-v0.7) frames mixed with
current ones.  Oracle = the property statement: whatever the segmentation, a session hands out a prefix of what single-call
decompression of the same stream (with the dictionary the DOCUMENTED dictionary state gives each frame) regenerates, never fails,
returns 0 exactly at flushed frame ends.  The expected content of every frame is the input it was compressed from (checked
through R, with the dictionary, and through one-shot ZSTD_decompress_usingDict)."""
import os
import re

from .. import codec, core
from .. import streamtie as st

KEY_SKIP_PREFIX = "C02-dstream-skippable-eats-prefix"
KEY_LEGACY_SHORT = "C02-dstream-legacy-short-first-call"

# dictionary state of a DCtx after each set-up op (documented semantics): None | "D1" | "D2" | "P2" (single-use prefix = dict2 bytes)
SETUP = {"ld1": "D1", "ld2": "D2", "lr1": "D1", "lr2": "D2", "rd1": "D1", "rd2": "D2", "rd0": None, "rp2": "P2", "in": None,
         "iu1": "D1", "iu2": "D2", "id1": "D1", "id2": "D2", "xa": None, "n": None}
KEEP = ("rs", "xs")              # session reset: the dictionary (and an unused prefix) stays
RESETTING = ("in", "iu1", "iu2", "id1", "id2", "rs", "xs", "xa", "n")    # legal in the middle of a frame
# the same ops as events of coq/Stream/DictUseModel.v (driver command DU)
MODEL_OPS = {"ld1": ["L1"], "lr1": ["L1"], "ld2": ["L2"], "lr2": ["L2"], "rd1": ["R1"], "rd2": ["R2"], "rd0": ["R0"], "rp2": ["P2"],
             "in": ["S", "R0"], "iu1": ["S", "L1"], "iu2": ["S", "L2"], "id1": ["S", "R1"], "id2": ["S", "R2"], "rs": ["S"], "xs": ["S"],
             "xa": ["A"], "n": ["N"]}


def model_ops(setup):
    out = []
    for op in setup:
        out += MODEL_OPS.get(op, [])
    return out


def legacy_frames():
    """the v0.5 / v0.6 / v0.7 frames of /repo/tests/legacy.c -> [(version, frame bytes)] (content: by one-shot decompression)"""
    try:
        src = open(os.path.join(core.REPO, "tests", "legacy.c")).read()
    except OSError:
        return []
    m = re.search(r"const char\* const COMPRESSED =(.*?);", src, re.S)
    if not m:
        return []
    data = bytearray()
    for lit in re.findall(r'"((?:\\x[0-9A-Fa-f]{2})*)"', m.group(1)):
        data += bytes(int(h, 16) for h in re.findall(r"\\x([0-9A-Fa-f]{2})", lit))
    out = []
    starts = [i for i in range(len(data) - 3) if data[i + 1:i + 4] == b"\xb5\x2f\xfd" and 0x22 <= data[i] <= 0x28]
    for a, b in zip(starts, starts[1:] + [len(data)]):
        if 0x25 <= data[a] <= 0x27:
            out.append((data[a] - 0x20, bytes(data[a:b])))
    return out


def build_pool(ctx, rng, cd, hexe, n):
    """-> (dict1, dict2, frames) ; frames: dict(frame, content, need in {None,'D1','D2'}, kind in {'z','skip','legacy'})"""
    out, errs = st.run_lines(hexe, ["T d1 %d" % rng.randrange(1, 1000)])
    if errs or not out.get("d1", "").startswith("OK "):
        ctx.violation(dict(kind="harness-crash", detail=(errs or [out])[:1]), what="c02_hist could not train a dictionary", no_input=True)
        return None
    dict1 = codec.unhx(out["d1"].split(" ")[1])
    dict2 = bytes(rng.choice(b"abcdefghijklmnopqrstuvwxyz ,.") for _ in range(3000))     # raw content, nothing repetitive in it
    jobs = []
    for i in range(n):
        need = rng.choice([None, None, "D1", "D2", "D2"])
        size = rng.choice([0, 1, 30, 300, 1000, 1024, 3000, 5000, 9000, 20000, 70000]) if i >= 6 else [0, 1, 300, 3000, 20000, 70000][i]
        src = dict1[-600:] if need == "D1" else dict2 if need == "D2" else b""
        if src:                                # the frame really reaches into the dictionary: pieces of it, a few fresh bytes in between
            x = bytearray()
            while len(x) < size:
                l = min(rng.randint(20, 200), len(src))
                o = rng.choice([0, len(src) - l, rng.randrange(0, len(src) - l + 1), rng.randrange(0, len(src) - l + 1)])   # incl. the first / last byte of the dictionary
                x += src[o:o + l] + rng.randbytes(rng.choice([0, 1, 3]))
            x = x[:size]
        else:
            x = bytearray(codec.gen_input(rng, rng.choice(codec.KINDS), size))
        p = {"level": rng.choice([1, 1, 3, 4, 5]), "windowLog": rng.choice([10, 11, 12, 14, 17])}
        if rng.random() < 0.5:
            p["checksum"] = 1
        if rng.random() < 0.4:
            p["contentSize"] = 0
        mode = "-" if need is None else "load" if need == "D1" else rng.choice(["load", "prefix"])
        d = dict1 if need == "D1" else dict2 if need == "D2" else None
        jobs.append(dict(id="p%d" % i, x=bytes(x), p=p, need=need, mode=mode, d=d))
    out, errs = cd.impl(["C %s compress2 %s %s %s %s" % (j["id"], codec.params_str(j["p"]), j["mode"], codec.hx(j["d"]) if j["d"] else "-",
                                                    codec.hx(j["x"])) for j in jobs])
    if errs:
        ctx.violation(dict(kind="harness-crash", detail=errs[:2]), what="zv_codec crashed while compressing with a dictionary", no_input=True)
    frames = []
    for j in jobs:
        r = codec.parse_ok(out.get(j["id"], "ERR missing"))
        if r[0] != "OK":
            ctx.violation(dict(kind="compress-failed", params=j["p"], input_hex=j["x"].hex()[:20000], error=r[1]),
                          what="compress2 with dictionary mode %s failed with %s" % (j["mode"], r[1]))
            continue
        frames.append(dict(frame=r[1], content=j["x"], need=j["need"], kind="z", desc="z%d-%s-%s" % (len(j["x"]), j["need"], j["mode"])))
    # the specification side: R decodes every frame, with its dictionary, to the input it was made from
    res = cd.model([("r%d" % i, "", dict1 if f["need"] == "D1" else dict2 if f["need"] == "D2" else None, f["frame"]) for i, f in enumerate(frames)])
    for i, f in enumerate(frames):
        m = res.get("r%d" % i)
        if not m or m[0] != "OK" or m[1] != f["content"]:
            ctx.violation(dict(kind="spec-vs-content", frame_hex=f["frame"].hex()[:20000], need=f["need"], model=str(m)[:200]),
                          what="the reference decoder R does not regenerate the input of a frame compressed with dictionary state %s" % f["need"])
    for i in range(max(3, n // 5)):
        sk = st.skippable(rng.randbytes(rng.choice([0, 0, 1, 3, 4, 100, 1500])), rng.randrange(16))
        frames.append(dict(frame=sk, content=b"", need=None, kind="skip", desc="skip%d" % (len(sk) - 8)))
    return dict1, dict2, frames


SEGS = ["La:r", "L1:r", "Lh:r", "Lh:1", "La:1", "L3:5", "L2:r", "L7:100", "Ma:r", "Mh:r", "M5:3", "L4:r", "L5:r", "L1000:1000", "sa:0;sa:0;La:r"]


def gen_history(rng, frames, legacy, with_legacy=False):
    """-> (ops string, stream bytes, sessions) ; sessions: dict(start, setup, state0, frames=[...], mode in {'stream','oneshot','abort'}, legacy)"""
    ops, stream, sessions, mops = [], b"", [], []
    state, midframe, stable = None, False, False
    for si in range(rng.randint(1, 4)):
        setup = []
        if midframe:
            op = rng.choice(RESETTING)
            setup.append(op)
            if op in SETUP:
                state = SETUP[op]
            if op in ("xa", "n"):
                stable = False
            midframe = False
        for _ in range(rng.choice([0, 1, 1, 2])):
            op = rng.choice(list(SETUP) + list(KEEP) + ["so=1", "so=0"])
            setup.append(op)
            if op in SETUP:
                state = SETUP[op]
            if op in ("xa", "n"):
                stable = False
            if op.startswith("so="):
                stable = op == "so=1"
        use_legacy = with_legacy and legacy and state is None and rng.random() < 0.6
        mode = rng.choice(["stream", "stream", "stream", "stream", "oneshot", "abort"])
        if use_legacy and mode == "oneshot":
            mode = "stream"
        chosen, st_now, nz = [], state, 0
        for _ in range(rng.randint(1, 4)):
            ok = [f for f in frames if f["kind"] == "skip" or f["need"] is None
                  or (f["need"] == "D1" and st_now == "D1") or (f["need"] == "D2" and st_now in ("D2", "P2"))]
            if use_legacy and rng.random() < 0.5:
                f = rng.choice(legacy)
            else:
                f = rng.choice(ok)
            if mode == "oneshot" and state == "P2" and f["kind"] != "skip" and nz >= 1:
                continue       # single-call decompression gives the prefix to every frame of the call: keep one Zstandard frame
            chosen.append(f)
            if f["kind"] != "skip":
                nz += 1
                if st_now == "P2":
                    st_now = None          # a Zstandard (or legacy) frame uses up the single-use prefix; a skippable frame does not
        sess = dict(start=len(stream), setup=setup, state0=state, frames=chosen, mode=mode, legacy=use_legacy, stable=stable)
        total = sum(len(f["frame"]) for f in chosen)
        ops.append("j%d" % len(stream))
        ops.append("e%d" % (len(stream) + total))
        ops += setup
        ops.append("q")                      # lock-step point: dctx->ddict / dctx->dictUses against DictUseModel.v
        mops += model_ops(setup) + ["q"]
        if mode == "oneshot":
            ops += ["o%d" % total, "q"]
            mops += ["O%d" % nz, "q"]
            state = st_now if state != "P2" else None     # ZSTD_decompressDCtx uses up the prefix whatever the frames are
        elif mode == "abort":
            cut = rng.randrange(0, total + 1)
            lim = len(stream) + cut
            pre = ["s%s:%s" % (rng.choice(["1", "2", "3", "5", "h", "100", "a"]), rng.choice(["0", "1", "5", "r", "r"])) for _ in range(rng.randint(0, 3))]
            ops += pre
            ops.append("%s:%d" % (rng.choice(["La:r", "L3:r", "Lh:r", "L100:7"] if total <= 8000 else ["La:r", "Lh:r"]), lim))
            sess["limit"] = lim
            midframe = True
            state = st_now if cut > 0 else state     # unknown in general: the next set-up op of a mid-frame state resets; see below
            sess["state_after_unknown"] = True
        else:
            pre = ["%s%s:%s" % (rng.choice("st"), rng.choice(["0", "1", "2", "3", "4", "5", "h", "9", "a"]), rng.choice(["0", "1", "5", "r", "r"]))
                   for _ in range(rng.choice([0, 0, 1, 3]))]
            ops += pre
            nout = sum(len(f["content"] or b"") for f in chosen)
            ops += rng.choice([g for g in SEGS if (nout <= 8000 or g.split(":")[1] in ("r", "1000", "100")) and (total <= 8000 or g[1] in "ah")]).split(";")
            ops.append("q")
            mops += ["K" if f["kind"] == "skip" else "F" for f in chosen] + ["q"]
            state = st_now
        stream += b"".join(f["frame"] for f in chosen)
        sessions.append(sess)
        if mode == "abort":
            # what the dictionary state is after an abandoned stream depends on how far it went: force a defined one
            op = rng.choice(["in", "iu1", "iu2", "id1", "id2", "xa", "n"])
            ops += [op, "q"]
            mops += model_ops([op]) + ["q"]
            state = SETUP[op]
            midframe = False
            if op in ("xa", "n"):
                stable = False
    return ";".join(ops), stream, sessions, ",".join(mops)


def corpus_histories(frames, legacy, dict2):
    """the minimal shapes of the two findings + neighbours that every version accepts"""
    hs = []
    zb = [f for f in frames if f["need"] == "D2" and len(f["content"]) >= 300]
    sk = [f for f in frames if f["kind"] == "skip"]
    zn = [f for f in frames if f["kind"] == "z" and f["need"] is None]
    if zb and sk:
        for seg in ["La:r", "L1:r", "Lh:r"]:
            hs.append(("j0;rp2;" + seg, sk[0]["frame"] + zb[0]["frame"],
                       [dict(start=0, setup=["rp2"], state0="P2", frames=[sk[0], zb[0]], mode="stream", legacy=False, stable=False)], "skippable+prefix-frame"))
        hs.append(("j0;rp2;La:r", zb[0]["frame"] + sk[0]["frame"],
                   [dict(start=0, setup=["rp2"], state0="P2", frames=[zb[0], sk[0]], mode="stream", legacy=False, stable=False)], "prefix-frame+skippable"))
        hs.append(("j0;ld2;La:r", sk[0]["frame"] + zb[0]["frame"] + zb[0]["frame"],
                   [dict(start=0, setup=["ld2"], state0="D2", frames=[sk[0], zb[0], zb[0]], mode="stream", legacy=False, stable=False)], "skippable+dict-frames"))
        hs.append(("j0;rp2;o%d" % (len(sk[0]["frame"]) + len(zb[0]["frame"])), sk[0]["frame"] + zb[0]["frame"],
                   [dict(start=0, setup=["rp2"], state0="P2", frames=[sk[0], zb[0]], mode="oneshot", legacy=False, stable=False)], "skippable+prefix-frame one-shot"))
    if zb:
        # a session reset keeps the unused prefix and the dictionary; a 2nd Zstandard frame no longer sees the prefix (it needs none)
        for rs in ("xs", "rs"):
            hs.append(("j0;rp2;%s;Lh:r" % rs, zb[0]["frame"],
                       [dict(start=0, setup=["rp2", rs], state0="P2", frames=[zb[0]], mode="stream", legacy=False, stable=False)], "prefix, session reset, frame"))
            hs.append(("j0;ld2;%s;L7:100" % rs, zb[0]["frame"] + zb[-1]["frame"],
                       [dict(start=0, setup=["ld2", rs], state0="D2", frames=[zb[0], zb[-1]], mode="stream", legacy=False, stable=False)], "dictionary, session reset, frames"))
        if zn:
            hs.append(("j0;rp2;La:r", zb[0]["frame"] + zn[0]["frame"],
                       [dict(start=0, setup=["rp2"], state0="P2", frames=[zb[0], zn[0]], mode="stream", legacy=False, stable=False)], "prefix-frame+plain frame"))
    # round 3 (21a1fb6): a single-call decompression in the middle of a streamed frame abandons that frame; no reset is needed
    # before the next stream
    if len(zn) >= 2:
        a, b = zn[0], zn[1]
        for cut in (3, max(4, len(a["frame"]) // 2), len(a["frame"]) - 1):
            if 0 < cut < len(a["frame"]):
                st2 = len(a["frame"]) + len(b["frame"])
                hs.append(("j0;e%d;L2:r:%d;j%d;e%d;o%d;j%d;e%d;Lh:r" % (cut, cut, len(a["frame"]), st2, len(b["frame"]), st2, st2 + len(a["frame"])),
                           a["frame"] + b["frame"] + a["frame"],
                           [dict(start=0, setup=[], state0=None, frames=[a], mode="abort", legacy=False, stable=False, limit=cut),
                            dict(start=len(a["frame"]), setup=[], state0=None, frames=[b], mode="oneshot", legacy=False, stable=False),
                            dict(start=st2, setup=[], state0=None, frames=[a], mode="stream", legacy=False, stable=False)],
                           "stream abandoned after %d bytes, single call, next stream without reset" % cut))
    for v, lf in legacy:
        f = dict(frame=lf, content=None, need=None, kind="legacy", desc="legacy-v0.%d" % v)
        for k in (1, 4, 5, 6):
            hs.append(("j0;s%d:r;La:r" % k, lf, [dict(start=0, setup=[], state0=None, frames=[f], mode="stream", legacy=True, stable=False)],
                       "legacy v0.%d, first call %d bytes" % (v, k)))
        if zn:
            hs.append(("j0;L3:r", zn[0]["frame"] + lf + zn[0]["frame"],
                       [dict(start=0, setup=[], state0=None, frames=[zn[0], f, zn[0]], mode="stream", legacy=True, stable=False)], "frame+legacy v0.%d+frame in 3-byte calls" % v))
    return hs


def parse_records(s):
    recs = []
    for r in s.split(";"):
        if not r:
            continue
        if r.startswith("s:"):
            v = r.split(":")
            recs.append(dict(kind="s", offered=int(v[1]), cap=int(v[2]), consumed=int(v[3]), produced=int(v[4]), ret=v[5]))
        elif r.startswith("o:"):
            v = r.split(":")
            recs.append(dict(kind="o", len=int(v[1]), ret=v[2]))
        else:
            op, _, ret = r.partition("=")
            recs.append(dict(kind="set", op=op, ret=ret))
    return recs


def run_hist(ctx, rng, cd, n, with_legacy=True, tie=None):
    hexe = core.build_harness("c02_hist", ["c02_hist.c"], variant="o1" if ctx.quick else "asan", extra_flags=["-w"])
    pool = build_pool(ctx, rng, cd, hexe, 24 if ctx.quick else 80)
    if pool is None:
        return 0
    dict1, dict2, frames = pool
    legacy = [dict(frame=lf, content=None, need=None, kind="legacy", desc="legacy-v0.%d" % v) for v, lf in legacy_frames()]
    # content of the legacy frames: single-call decompression on a fresh context
    if legacy:
        out, errs = st.run_lines(hexe, ["H l%d - - %s o%d" % (i, codec.hx(f["frame"]), len(f["frame"])) for i, f in enumerate(legacy)])
        keep = []
        for i, f in enumerate(legacy):
            r = out.get("l%d" % i, "")
            t = r.split(" ")
            if r.startswith("OK ") and len(t) > 2 and not t[2].split(":")[2].startswith("E"):
                f["content"] = codec.unhx(t[1])
                keep.append(f)
        legacy = keep           # a build without legacy support has none
    cases = []
    for ops, stream, sessions, desc in corpus_histories(frames, [(int(f["desc"][-1]), f["frame"]) for f in legacy], dict2):
        for s in sessions:
            for f in s["frames"]:
                if f["kind"] == "legacy" and f["content"] is None:
                    f["content"] = next(l["content"] for l in legacy if l["frame"] == f["frame"])
        cases.append(dict(id="hc%d" % len(cases), ops=ops, stream=stream, sessions=sessions, desc="corpus: " + desc))
    for i in range(n):
        ops, stream, sessions, mops = gen_history(rng, frames, legacy, with_legacy=with_legacy and i % 3 == 0)
        cases.append(dict(id="h%d" % i, ops=ops, stream=stream, sessions=sessions, desc="generated", mops=mops))
    lines = ["H %s %s %s %s %s" % (c["id"], codec.hx(dict1), codec.hx(dict2), codec.hx(c["stream"]), c["ops"]) for c in cases]
    out, errs = st.run_lines(hexe, lines)
    if errs:
        ctx.violation(dict(kind="harness-crash", detail=errs[:2]), what="c02_hist crashed during a reused-context decoding history: %r" % (errs[0],))
    mout = {}
    if tie is not None:
        mout, merrs = tie.model(["DU %s %s" % (c["id"], c["mops"]) for c in cases if c.get("mops")])
        if merrs:
            ctx.violation(dict(kind="model-crash", detail=merrs[:2]), what="the extracted dictionary-selection model crashed: %r" % (merrs[0],), no_input=True)
    nv = 0
    for c in cases:
        r = out.get(c["id"])
        if r is None or not r.startswith("OK "):
            continue
        t = r.split(" ")
        obytes = codec.unhx(t[1])
        recs = parse_records(t[2] if len(t) > 2 else "")
        v = check_history(c, obytes, recs)
        # lock-step with coq/Stream/DictUseModel.v at the q points (private fields dctx->ddict, dctx->dictUses)
        m = mout.get(c["id"])
        if m is not None and m.startswith("OK ") and not any(r["kind"] == "set" and r["op"] == "callbudget" for r in recs):
            iq = [r["ret"] for r in recs if r["kind"] == "set" and r["op"] == "q"]
            mq = [x for x in m.split(" ")[1].split(";") if x]
            ended_early = any(r["kind"] == "s" and r["ret"].startswith("E") for r in recs)
            k = next((i for i, (a, b) in enumerate(zip(iq, mq)) if a != b), None)
            if k is None and len(iq) != len(mq) and not ended_early:
                k = min(len(iq), len(mq))
            if k is not None:
                nv += 1
                ctx.violation(dict(kind="reuse-history", ops=c["ops"], model_ops=c["mops"], stream_hex=c["stream"].hex()[:60000], dict1_hex=dict1.hex(),
                                   dict2_hex=dict2.hex(), first_difference=dict(point=k, implementation=iq[k] if k < len(iq) else None,
                                                                                 model=mq[k] if k < len(mq) else None)),
                              what="dctx->ddict / dctx->dictUses and DictUseModel disagree at lock-step point %d: implementation %s, model %s (ops %s)"
                                   % (k, iq[k] if k < len(iq) else None, mq[k] if k < len(mq) else None, c["ops"][:160]), no_input=(v is None))
            else:
                ctx.cov["traces_validated_against_impl"] += 1
        ctx.count(("H", tuple((s["mode"], s["state0"], s["legacy"], s["stable"], tuple(f["kind"] for f in s["frames"])) for s in c["sessions"])),
                  nontrivial=len(recs) > 2)
        if v:
            nv += 1
            key, what = v
            ctx.violation(dict(kind="reuse-history", ops=c["ops"], stream_hex=c["stream"].hex()[:60000], dict1_hex=dict1.hex(), dict2_hex=dict2.hex(),
                               desc=c["desc"], sessions=[dict(start=s["start"], setup=s["setup"], state=s["state0"], mode=s["mode"],
                                                              frames=[(f["desc"], len(f["frame"]), len(f["content"] or b"")) for f in s["frames"]]) for s in c["sessions"]]),
                          what="decoding history on a reused DCtx (%s; ops %s): %s%s" % (c["desc"], c["ops"][:160], what, " [%s]" % key if key else ""), key=key)
        elif len(c["stream"]) < 400 and len(recs) < 12:
            ctx.sample(dict(kind="reuse-history", ops=c["ops"], stream_hex=c["stream"].hex(), records=t[2][:400] if len(t) > 2 else ""))
    return nv


def check_history(c, obytes, recs):
    """-> None | (key or None, description)"""
    # split the records per session at the j<pos> markers
    per, cur = [], None
    for r in recs:
        if r["kind"] == "set" and r["op"].startswith("j"):
            cur = []
            per.append(cur)
        elif cur is not None:
            cur.append(r)
    opos = 0
    for s, rs in zip(c["sessions"], per):
        expect = b"".join(f["content"] for f in s["frames"])
        parts = [(len(f["frame"]), len(f["content"])) for f in s["frames"]]
        total_in = sum(p[0] for p in parts)
        for r in rs:
            if r["kind"] == "set" and r["ret"].startswith("E"):
                return (None, "set-up call %s failed with %s at a point where the API allows it" % (r["op"], r["ret"][1:]))
        calls = [r for r in rs if r["kind"] == "s"]
        one = [r for r in rs if r["kind"] == "o"]
        if s["mode"] == "oneshot":
            if not one:
                continue
            r = one[0]
            if r["ret"].startswith("E") or int(r["ret"]) != len(expect) or obytes[opos:opos + len(expect)] != expect:
                return (None, "single-call decompression on the reused context (dictionary state %s) gave %s, expected %d bytes"
                              % (s["state0"], r["ret"], len(expect)))
            opos += len(expect)
            continue
        produced = sum(r["produced"] for r in calls)
        o = obytes[opos:opos + produced]
        viol = st.check_dstream_oracle(calls, o, expect, st.frame_ends(parts), total_in if s["mode"] == "stream" else -1)
        if viol:
            i = viol[0]
            key = None
            # finding 1: a skippable frame was consumed while the single-use prefix was still pending
            if s["state0"] == "P2":
                cin, k = sum(r["consumed"] for r in calls[:i]), 0
                for f in s["frames"]:
                    if f["kind"] != "skip":
                        break
                    k += len(f["frame"])
                    if cin >= k and k > 0:
                        key = KEY_SKIP_PREFIX
            # finding 2: the call that starts a legacy frame offered 1..4 bytes
            if s["legacy"] and i < len(calls):
                ret = st.norm_ret(calls[i]["ret"])
                cin, a0 = sum(r["consumed"] for r in calls[:i]), 0
                for f in s["frames"]:
                    if f["kind"] == "legacy" and cin == a0 and 1 <= calls[i]["offered"] <= 4 and isinstance(ret, tuple) and ret[1] == "prefix_unknown":
                        key = KEY_LEGACY_SHORT
                    a0 += len(f["frame"])
            return (key, "session at stream offset %d (dictionary state %s, frames %s): %s"
                         % (s["start"], s["state0"], "+".join(f["desc"] for f in s["frames"]), viol[1]))
        opos += produced
    return None


# ---------------------------------------------------------------------------------------------
# lock-step of ZSTD_decompressStream WITH a dictionary attached for indefinite use against the model instance of
# coq/Stream/StreamInstDict.v (theorem C02_dstream_refines_oneshot_R_dict)

def run_dict_lockstep(ctx, rng, cd, tie, n_frames, per_stream):
    from . import c02_common as cc
    hexe = core.build_harness("c02_hist", ["c02_hist.c"], variant="o1", extra_flags=["-w"])
    out, errs = st.run_lines(hexe, ["T d1 %d" % rng.randrange(1, 1000)])
    if errs or not out.get("d1", "").startswith("OK "):
        return 0, 0
    structured = codec.unhx(out["d1"].split(" ")[1])
    raw = bytes(rng.choice(b"abcdefghijklmnopqrstuvwxyz ,.") for _ in range(rng.choice([40, 1000, 3000])))
    jobs = []
    for i in range(n_frames):
        which = rng.choice(["raw", "raw", "structured"])
        d = raw if which == "raw" else structured
        src = d if which == "raw" else d[-600:]
        size = rng.choice([1, 30, 300, 1000, 1024, 3000, 5000, 9000]) if i >= 4 else [30, 1000, 3000, 9000][i]
        x = bytearray()
        while len(x) < size:
            l = min(rng.randint(20, 200), len(src))
            o = rng.choice([0, len(src) - l, rng.randrange(0, len(src) - l + 1), rng.randrange(0, len(src) - l + 1)])   # incl. the first / last byte of the dictionary
            x += src[o:o + l] + rng.randbytes(rng.choice([0, 1, 3]))
        p = cc.stream_cparams(rng)
        p.pop("format", None)
        p["dictID"] = 0            # the model has no dctx->dictID: frames that do not name their dictionary
        jobs.append(dict(id="q%d" % i, x=bytes(x[:size]), p=p, which=which, d=d, mode=rng.choice(["load", "prefix"]) if which == "raw" else "load"))
    out, errs = cd.impl(["C %s compress2 %s %s %s %s" % (j["id"], codec.params_str(j["p"]), j["mode"], codec.hx(j["d"]), codec.hx(j["x"])) for j in jobs])
    if errs:
        ctx.violation(dict(kind="harness-crash", detail=errs[:2]), what="zv_codec crashed while compressing with a dictionary", no_input=True)
    by = {"raw": [], "structured": []}
    for j in jobs:
        r = codec.parse_ok(out.get(j["id"], "ERR missing"))
        if r[0] == "OK":
            by[j["which"]].append(dict(frame=r[1], content=j["x"]))
    streams = []
    for which, d in (("raw", raw), ("structured", structured)):
        fr = by[which]
        for f in fr:
            streams.append(dict(frame=f["frame"], content=f["content"], parts=[(len(f["frame"]), len(f["content"]))], magicless=False,
                                desc="dict-%s-%d" % (which, len(f["content"])), dict=d))
        for _ in range(max(2, len(fr) // 3)):       # several frames / skippable frames back to back, all from the same dictionary
            parts, frame, content = [], b"", b""
            for _ in range(rng.randint(2, 4)):
                if rng.random() < 0.3 or not fr:
                    sk = st.skippable(rng.randbytes(rng.choice([0, 1, 4, 100])), rng.randrange(16))
                    frame += sk
                    parts.append((len(sk), 0))
                else:
                    f = rng.choice(fr)
                    frame += f["frame"]
                    content += f["content"]
                    parts.append((len(f["frame"]), len(f["content"])))
            streams.append(dict(frame=frame, content=content, parts=parts, magicless=False, desc="dict-%s-multi%d" % (which, len(parts)), dict=d))
    # the specification side: spec_decode started from the dictionary == R with the dictionary == the compressor's input
    so, serrs = tie.model(["SD s%d - %s %s" % (i, codec.hx(s["dict"]), codec.hx(s["frame"])) for i, s in enumerate(streams)])
    ro = cd.model([("s%d" % i, "nostrict", s["dict"], s["frame"]) for i, s in enumerate(streams)])
    for i, s in enumerate(streams):
        sr = so.get("s%d" % i, "ERR missing")
        rr = ro.get("s%d" % i, ("ERR", "missing", -1))
        if not sr.startswith("OK ") or codec.unhx(sr.split(" ")[1]) != s["content"] or rr[0] != "OK" or rr[1] != s["content"]:
            ctx.violation(dict(kind="spec-vs-R", frame_hex=s["frame"].hex()[:100000], dict_hex=s["dict"].hex(), desc=s["desc"], spec=sr[:120], R=str(rr[:2])[:120]),
                          what="specification decoders disagree on a valid stream with a dictionary (%s): spec_decode from the dictionary %s, R %s"
                               % (s["desc"], sr[:60], str(rr[:2])[:60]), no_input=True)
        ctx.count(("SPEC-DICT", s["desc"].split("-")[1], len(s["parts"]) > 1), nontrivial=True)
    cases = cc.decoder_cases(ctx, rng, streams, per_stream)
    for i, c in enumerate(cases):
        c["id"] = "x%d" % i
        c["dict"] = c["stream"]["dict"]
        c["flags"].pop("bm", None)
    hist, nv = cc.run_decoder_lockstep(ctx, tie, cases)
    return len(cases), nv


def replay_history(ctx, rep):
    """re-execute a recorded reused-context history (best effort: the expected contents are not in the record, so only the
    harness run and the dictionary-selection lock-step are repeated)"""
    hexe = core.build_harness("c02_hist", ["c02_hist.c"], variant="o1", extra_flags=["-w"])
    out, errs = st.run_lines(hexe, ["H r0 %s %s %s %s" % (rep.get("dict1_hex") or "-", rep.get("dict2_hex") or "-", rep.get("stream_hex") or "-", rep["ops"])])
    r = out.get("r0", "")
    core.log("replay of a reused-context history: %s" % r[-600:])
    recs = parse_records(r.split(" ")[2]) if r.startswith("OK ") and len(r.split(" ")) > 2 else []
    bad = [x for x in recs if x.get("ret", "").startswith("E") and "noForwardProgress" not in x.get("ret", "")]
    if errs or bad:
        key = None
        if any("Unknown_frame_descriptor" in x["ret"] and x.get("kind") == "s" and 1 <= x["offered"] <= 4 for x in bad):
            key = KEY_LEGACY_SHORT
        ctx.violation(rep, what="replayed reused-context history fails: %s" % (bad[:1] or errs[:1],), key=key)
