"""C12 - thread pool (lib/common/pool.c): each accepted job runs exactly once; join, resize, free are safe.

Deciding artefact: coq/Props/Properties_C12.v (theorems about coq/Conc/PoolModel.v, all schedules).
Tie (checked on every run): the real pool.c, rebuilt from /repo's working tree and driven by the
deterministic scheduler in harness/sched, is run in lock-step with the extracted model: same
configuration, same schedule (thread picked at every synchronisation operation + which waiter each
pthread_cond_signal wakes); the C fields, every thread's scheduler status, the queue contents and the
started/finished job logs are compared after EVERY step.  Independently the harness evaluates the
property itself on the real state (exactly-once counters, joinJobs postcondition, deadlock, lost wake-up,
ring capacity, lock discipline of the guarded fields, thread limit at job start, tryAdd refusal only without room,
POOL_sizeof / leaks against an accounting allocator): these oracles are what turns a broken tie into a concrete
failing schedule.
Supporting only (never replaces a theorem): seeded sampling (quick), exhaustive preemption-bounded
schedule enumeration + ASan/UBSan build (thorough).
"""
import json
import os
import random
import re
import subprocess
import time

from zv import core

HARNESS_SRC = ["c12_pool.c", "sched/zv_sched.c"]


# --------------------------------------------------------------------------
# case generation

class Case:
    def __init__(self, threads, queue, progs, bodies, policy="r", seed=1, stay=50, sched="-", explore=None, maxruns=None):
        self.threads, self.queue, self.progs, self.bodies = threads, queue, progs, bodies
        self.policy, self.seed, self.stay, self.sched, self.explore, self.maxruns = policy, seed, stay, sched, explore, maxruns

    @staticmethod
    def fmt_prog(p):
        return ".".join(p) if p else "-"

    def config(self):
        return "threads=%d queue=%d progs=%s bodies=%s" % (
            self.threads, self.queue, "|".join(self.fmt_prog(p) for p in self.progs),
            "|".join(self.fmt_prog(b) for b in self.bodies) if self.bodies else "-")

    def line(self, cid):
        s = "CASE id=%d %s policy=%s seed=%d stay=%d sched=%s" % (cid, self.config(), self.policy, self.seed, self.stay, self.sched)
        if self.explore is not None:
            s += " explore=%d maxruns=%d" % (self.explore, self.maxruns or 100000)
        return s


def parse_config(cfg):
    kv = dict(t.split("=", 1) for t in cfg.replace(";", " ").split() if "=" in t)
    progs = [[] if p == "-" else p.split(".") for p in kv["progs"].split("|")]
    bodies = [[] if p == "-" else p.split(".") for p in kv["bodies"].split("|")]
    return int(kv["threads"]), int(kv["queue"]), progs, bodies


def gen_case(rng, max_threads=3, max_queue=2, max_clients=3, max_ops=5):
    threads = rng.randint(1, max_threads)
    queue = rng.randint(0, max_queue)
    K = min(max_clients, rng.choice([1, 2, 2, 3]))
    bodies = []

    def new_job(depth):
        jid = len(bodies)
        bodies.append([])
        if depth < 2 and rng.random() < (0.35 if depth == 0 else 0.2):
            for _ in range(rng.randint(1, 2)):
                kind = "a" if rng.random() < 0.25 else "t"
                child = new_job(depth + 1)
                bodies[jid].append("%s%d" % (kind, child))
        return jid

    progs = []
    total = 0
    for c in range(K):
        n = rng.randint(0 if c else 1, max_ops)
        p = []
        for _ in range(n):
            if total >= 8:
                break
            x = rng.random()
            if x < 0.40:
                p.append("a%d" % new_job(0))
            elif x < 0.65:
                p.append("t%d" % new_job(0))
            elif x < 0.72 and bodies:
                p.append("%s%d" % (rng.choice("at"), rng.randrange(len(bodies))))   # a job id posted again
            elif x < 0.87:
                p.append("j")
            else:
                p.append("r%d" % rng.choice([0, 1, 1, 2, 2, 3, 4]))
            total += 1
        progs.append(p)
    stay = rng.choice([0, 30, 60, 85])
    return Case(threads, queue, progs, bodies, policy="r", seed=rng.getrandbits(40), stay=stay)


def corpus():
    """Hand-made boundary cases (run first): each one a place where the theorems split cases."""
    C = []
    # F5 scenario: a poster and a joiner share queuePushCond (1 thread, ring of 1)
    C.append((1, 1, [["a0", "a1", "a2"], ["j"]], [[], [], []]))
    # two joiners + poster
    C.append((1, 1, [["a0", "a1"], ["j"], ["j"]], [[], []]))
    # hand-off pool (queue 0): full iff all threads busy or a job waits
    C.append((1, 0, [["a0", "a1", "t2", "j"]], [[], [], []]))
    C.append((2, 0, [["t0", "t1", "t2", "j"], ["a3", "j"]], [[], [], [], []]))
    # ring wrap: queue 2 (ring of 3), many posts
    C.append((1, 2, [["a0", "a1", "a2", "a3", "a4"]], [[], [], [], [], []]))
    C.append((2, 2, [["t0", "t1", "t2", "t3", "j"], ["a4", "a5"]], [[]] * 6))
    # resize: shrink below busy, grow within capacity, grow beyond capacity, resize(0) refused
    C.append((2, 1, [["a0", "a1", "r1", "a2", "r2", "a3"]], [[]] * 4))
    C.append((1, 0, [["a0", "r3", "a1", "a2", "r1", "t3", "j"]], [[]] * 4))
    C.append((3, 0, [["a0", "a1", "a2", "r1", "j"], ["r0", "t3", "r3"]], [[]] * 4))
    C.append((2, 0, [["a0", "a1"], ["r1", "a2", "r2"]], [[]] * 3))
    # free with jobs in flight / queued; jobs that post during free
    C.append((1, 2, [["a0", "a1", "a2"]], [["t3"], ["t4"], [], [], []]))
    C.append((2, 1, [["a0", "a1"]], [["t2", "t3"], ["a4"], [], [], []]))
    # a job that blocks in POOL_add on its own pool (legitimate self-deadlock: excluded by the theorem's hypothesis)
    C.append((1, 0, [["a0"]], [["a1"], []]))
    # empty programs
    C.append((1, 0, [[]], []))
    C.append((3, 2, [[], [], []], []))
    # resize while several workers sleep and several jobs wait: growing the limit has to wake ALL of them (work conservation)
    C.append((3, 2, [["r1", "a0", "a1", "a2", "r3", "j"]], [[]] * 3))
    C.append((3, 1, [["r1", "a0", "a1"], ["r2", "j", "r3"]], [[]] * 2))
    out = []
    for th, q, progs, bodies in C:
        out.append(Case(th, q, progs, [list(b) for b in bodies]))
    return out


# --------------------------------------------------------------------------
# running

class Runner:
    def __init__(self, ctx, variant="o1", fix=True):
        self.ctx = ctx
        self.variant = variant
        self.fix = fix
        self.h = core.build_harness("c12_pool", HARNESS_SRC, variant=variant, link_lib=False,
                                    extra_flags=["-w"], libs=("-lpthread",))
        self.m = core.build_extracted("c12model", "Extract/Extract_C12.v", "c12_driver.ml")
        self.n = 0

    def run(self, cases, tag, timeout=900, jobs=None):
        """cases: list of Case.  Runs harness | model driver over the cases (split over several processes).
        Returns (ok_lines, bad_lines, x_lines, stderr_text)."""
        self.n += 1
        jobs = max(1, min(jobs or max(1, core.NCPU - 4), len(cases)))
        env = dict(os.environ)
        env["ASAN_OPTIONS"] = "detect_leaks=1:abort_on_error=0:exitcode=99"
        env["UBSAN_OPTIONS"] = "halt_on_error=1:exitcode=98"
        procs = []
        for k in range(jobs):
            base = os.path.join(self.ctx.scratch, "%s-%s-%d-%d" % (tag, self.variant, self.n, k))
            with open(base + ".cases", "w") as f:
                for i in range(k, len(cases), jobs):
                    f.write(cases[i].line(i) + "\n")
            cmd = "set -o pipefail; %s < %s.cases 2> %s.err | %s %s > %s.res" % (self.h, base, base, self.m, "" if self.fix else "nofix", base)
            procs.append((base, cmd, subprocess.Popen(["bash", "-c", cmd], env=env, stdout=subprocess.DEVNULL, stderr=subprocess.PIPE)))
        oks, bads, xs, errtxt = [], [], [], ""
        deadline = time.time() + timeout
        for base, cmd, p in procs:
            try:
                _, e = p.communicate(timeout=max(1, deadline - time.time()))
            except subprocess.TimeoutExpired:
                for _, _, q in procs:
                    q.kill()
                raise RuntimeError("C12 pipeline timed out: " + cmd)
            et = open(base + ".err").read()
            errtxt += et
            if p.returncode != 0:
                raise RuntimeError("C12 pipeline failed rc=%d: %s %s %s" % (p.returncode, cmd, e.decode("utf-8", "replace")[-500:], et[-1500:]))
            total = None
            for ln in open(base + ".res"):
                if ln.startswith("OK "):
                    oks.append(ln)
                elif ln.startswith("BAD "):
                    bads.append(ln.rstrip("\n"))
                elif ln.startswith("X "):
                    xs.append(ln.rstrip("\n"))
                elif ln.startswith("TOTAL "):
                    total = ln
            if total is None:
                raise RuntimeError("C12: model driver produced no TOTAL line (%s)" % base)
        return oks, bads, xs, errtxt


def parse_bad(ln):
    m = re.match(r"BAD id=(\d+) steps=(\d+) end=(\S+) diff=\[(.*?)\] oracle=(\S+) sched=(\S+) case=(\S+)$", ln)
    if not m:
        return dict(raw=ln)
    orc = None
    if m.group(5) != "-":
        seen = []
        for o in m.group(5).replace("_", " ").split(";"):
            if o not in seen:
                seen.append(o)
        orc = "; ".join(seen[:3])
    return dict(id=int(m.group(1)), steps=int(m.group(2)), end=m.group(3), diff=m.group(4), oracle=orc,
                sched=m.group(6), config=" ".join(t for t in m.group(7).split(";") if not t.startswith("id=")))


def oracle_key(b):
    return None


def report(ctx, runner, bads, tag):
    """Turn BAD lines into violations.  A line with an oracle message is a concrete failing schedule on the real
    code.  A pure model/implementation difference triggers a search (exhaustive schedules of the same configuration
    with the oracles) for a concrete property failure."""
    seen = set()
    parsed = [parse_bad(ln) for ln in bads]
    parsed.sort(key=lambda b: (0 if b.get("oracle") else 1, b.get("steps", 0)))   # concrete failures first, shortest first
    have_concrete = any(b.get("oracle") for b in parsed)
    for b in parsed:
        if have_concrete and not b.get("oracle"):
            continue        # a concrete failing schedule is reported; pure model/implementation differences add nothing
        if "raw" in b:
            ctx.violation(dict(kind="unparsed", line=b["raw"]), what="C12: unparsable result line", no_input=True)
            continue
        sig = ((b["oracle"] or "")[:40], b["diff"].split(" ")[0] if not b["oracle"] else "")
        if sig in seen or len(ctx.violations) >= 3:
            continue
        seen.add(sig)
        replay = dict(kind="schedule", config=b["config"], sched=b["sched"], variant=runner.variant, tag=tag,
                      observed=dict(end=b["end"], oracle=b["oracle"], first_difference=b["diff"]))
        if b["oracle"]:
            ctx.violation(replay, what="pool.c violates the property on a concrete schedule: %s (config %s)" % (b["oracle"], b["config"]))
            continue
        # search: enumerate schedules of this configuration on the implementation, oracles only
        found = search_config(ctx, runner, b["config"])
        if found:
            f = found[0]
            replay2 = dict(kind="schedule", config=f["config"], sched=f["sched"], variant=runner.variant, tag=tag + "-search",
                           observed=dict(end=f["end"], oracle=f["oracle"], first_difference=f["diff"]),
                           found_from=dict(config=b["config"], sched=b["sched"], first_difference=b["diff"]))
            ctx.violation(replay2, what="pool.c no longer corresponds to the model (%s) and the search found a concrete property failure: %s"
                          % (b["diff"][:120], f["oracle"]))
        else:
            ctx.violation(replay, what="pool.c no longer corresponds to the model: %s" % b["diff"][:300], no_input=True)


def search_config(ctx, runner, config, bound=2, maxruns=20000, sweep=True):
    """Look for a concrete property failure (an oracle line) on the implementation: (1) all schedules of [config] with at
    most [bound] preemptions, (2) a seeded sweep of random schedules over [config] and the boundary corpus."""
    th, q, progs, bodies = parse_config(config)
    c = Case(th, q, progs, bodies, policy="n", explore=bound, maxruns=maxruns)
    out = []
    try:
        oks, bads, xs, _ = runner.run([c], "search", timeout=300)
        out = [b for b in map(parse_bad, bads) if b.get("oracle")]
        if not out and sweep:
            rng = random.Random(ctx.seed * 104729 + 7)
            cs = []
            for base in [Case(th, q, progs, bodies)] + corpus():
                for k in range(400):
                    cs.append(Case(base.threads, base.queue, base.progs, base.bodies, policy="r", seed=rng.getrandbits(40),
                                   stay=rng.choice([0, 0, 30, 60])))
            oks, bads, xs, _ = runner.run(cs, "sweep", timeout=300)
            out = [b for b in map(parse_bad, bads) if b.get("oracle")]
    except Exception as e:  # noqa
        core.log("search failed:", repr(e))
        return []
    out.sort(key=lambda b: b["steps"])
    return out


def tally(ctx, oks):
    for ln in oks:
        m = re.match(r"OK id=(\d+) steps=(\d+) end=(\S+) shape=(\S+)", ln)
        if m:
            steps = int(m.group(2))
            ctx.count((m.group(4), m.group(3)), nontrivial=steps >= 12)
            ctx.cov["traces_validated_against_impl"] += 1
            ctx.notes["steps_compared"] = ctx.notes.get("steps_compared", 0) + steps
            ctx.notes.setdefault("end", {}).setdefault(m.group(3), 0)
            ctx.notes["end"][m.group(3)] += 1


def proof_search(ctx, runner):
    def search(broken):
        """A theorem no longer compiles (the model or a proof was edited): look for a concrete failure on the
        implementation with the oracles over the corpus, exhaustively with a small preemption bound."""
        out = []
        for c in corpus()[:8]:
            for b in search_config(ctx, runner, c.config(), bound=1, maxruns=3000, sweep=False)[:1]:
                out.append((dict(kind="schedule", config=b["config"], sched=b["sched"], variant=runner.variant,
                                 observed=dict(end=b["end"], oracle=b["oracle"])), "C12 proof broken and the implementation fails: " + b["oracle"]))
        return out
    return search


def run(ctx):
    ctx.cov["rule"] = ("a case = (pool configuration threads 1..3 x queue 0..2, 1..3 client programs over {add, tryAdd, joinJobs, resize}, "
                       "job bodies that post, a schedule); the schedule is chosen by the deterministic scheduler (explicit prefix, then PRNG seeded "
                       "from VERIF_SEED, or exhaustive DFS with a preemption bound in the thorough tier) and replayed step by step through the "
                       "extracted Coq model; evaluations = runs compared in lock-step; a run is non-trivial when it has >= 12 steps; distinct = "
                       "distinct (set of model transitions pc->pc exercised, END/STUCK) signatures")
    runner = Runner(ctx, "o1")
    if ctx.replay_file:
        return replay(ctx, runner)
    ctx.prove()
    ctx.proof_verdict(proof_search(ctx, runner))
    rng = random.Random(ctx.seed * 7919 + 12)
    # 1. corpus, each under several PRNG schedules + the no-preemption schedule
    cs = []
    for c in corpus():
        cs.append(Case(c.threads, c.queue, c.progs, c.bodies, policy="n"))
        for k in range(12 if ctx.quick else 60):
            cs.append(Case(c.threads, c.queue, c.progs, c.bodies, policy="r", seed=rng.getrandbits(40), stay=rng.choice([0, 30, 60, 85])))
    oks, bads, xs, err = runner.run(cs, "corpus")
    tally(ctx, oks)
    for c in cs[:3]:
        ctx.sample(c.line(0))
    report(ctx, runner, bads, "corpus")
    if ctx.violations:
        return
    # 2. seeded random configurations x random schedules
    n = 12000 if ctx.quick else 60000
    cs = []
    hist = {}
    for i in range(n):
        c = gen_case(rng)
        cs.append(c)
        key = "threads=%d queue=%d clients=%d" % (c.threads, c.queue, len(c.progs))
        hist[key] = hist.get(key, 0) + 1
    ctx.notes["config_histogram"] = hist
    oks, bads, xs, err = runner.run(cs, "random")
    tally(ctx, oks)
    for c in cs[:5]:
        ctx.sample(c.line(0))
    report(ctx, runner, bads, "random")
    if ctx.violations:
        return
    # 3. exhaustive schedules with a preemption bound on small configurations (supporting evidence)
    ex = []
    small = corpus()
    if ctx.quick:
        picks = [(c, 1, 4000) for c in small] + [(small[0], 2, 4000), (small[1], 2, 4000), (small[3], 2, 4000), (small[9], 2, 4000)]
    else:
        picks = [(c, 2, 60000) for c in small] + [(c, 3, 40000) for c in small[:4]] + [(gen_case(rng, max_ops=4), 2, 30000) for _ in range(25)]
    for c, bound, mx in picks:
        ex.append(Case(c.threads, c.queue, c.progs, c.bodies, policy="n", explore=bound, maxruns=mx))
    oks, bads, xs, err = runner.run(ex, "explore", timeout=1500)
    tally(ctx, oks)
    report(ctx, runner, bads, "explore")
    ctx.notes["explore"] = xs[:60]
    ctx.notes["explore_exhausted"] = sum(1 for x in xs if "exhausted=1" in x)
    if ctx.violations:
        return
    ctx.cov["exhaustive"] = False
    # 4. thorough: the same corpus + random cases on an ASan/UBSan build (use-after-free on POOL_free, leaks)
    if not ctx.quick:
        ra = Runner(ctx, "asan")
        cs = []
        for c in corpus():
            for k in range(10):
                cs.append(Case(c.threads, c.queue, c.progs, c.bodies, policy="r", seed=rng.getrandbits(40), stay=rng.choice([0, 30, 60, 85])))
        cs += [gen_case(rng) for _ in range(3000)]
        oks, bads, xs, err = ra.run(cs, "asan", timeout=1500)
        tally(ctx, oks)
        report(ctx, ra, bads, "asan")
        if "ERROR: AddressSanitizer" in err or "runtime error:" in err:
            ctx.notes["asan_stderr"] = err[-3000:]
    if not ctx.quick:
        # independent re-check of the compiled theory by coqchk (kernel re-validation, lists axioms)
        rc, out, err = core.sh(["timeout", "1200", "coqchk", "-silent", "-o", "-Q", ".", "ZV", "ZV.Props.Properties_C12"], cwd=core.COQ)
        txt = out + err
        ctx.notes["coqchk"] = " ".join(txt.split())[-400:]
        if rc != 0 or "Axioms: <none>" not in " ".join(txt.split()):
            ctx.violation(dict(kind="coqchk", rc=rc, output=txt[-2000:]), what="coqchk does not validate Properties_C12 axiom-free", no_input=True)
    ctx.assumptions += [
        "the deterministic scheduler (harness/sched) implements POSIX mutex/condition semantics without spurious wake-ups; "
        "real pthread behaviour, memory-model effects and data races as such are outside the model",
        "allocation failures and pthread_create failures inside POOL_create/POOL_resize are not modelled (C13 covers them)",
        "client discipline assumed by the theorems: POOL_free is called once, by one thread, after every other client thread has "
        "stopped using the pool (jobs may still be queued, running and posting)",
    ]


def replay(ctx, runner):
    obj = json.load(open(ctx.replay_file))
    r = obj.get("replay", obj)
    if r.get("kind") != "schedule":
        core.log("replay: nothing executable in this file (kind=%s); re-running the proof step" % r.get("kind"))
        ctx.prove()
        ctx.proof_verdict(None)
        return
    if r.get("variant") == "asan":
        runner = Runner(ctx, "asan")
    th, q, progs, bodies = parse_config(r["config"])
    c = Case(th, q, progs, bodies, policy="n", sched=r.get("sched", "-"))
    oks, bads, xs, err = runner.run([c], "replay")
    tally(ctx, oks)
    ctx.sample(c.line(0))
    for ln in bads:
        core.log("replay:", ln)
    report_replay = []
    for ln in bads:
        b = parse_bad(ln)
        report_replay.append(b)
        ctx.violation(dict(kind="schedule", config=r["config"], sched=b.get("sched", r.get("sched")), variant=runner.variant,
                           observed=dict(end=b.get("end"), oracle=b.get("oracle"), first_difference=b.get("diff"))),
                      what="replay reproduces: %s" % (b.get("oracle") or b.get("diff")), no_input=not b.get("oracle"))
    if not bads:
        core.log("replay: the recorded schedule no longer fails")
    ctx.prove()
    ctx.proof_verdict(None)
