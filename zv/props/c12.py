"""C12 - thread pool (lib/common/pool.c): each accepted job runs exactly once; join, resize, free are safe.

Deciding artefact: coq/Props/Properties_C12.v (theorems about coq/Conc/PoolModel.v, all schedules).
Tie (checked on every run): the real pool.c, rebuilt from /repo's working tree and driven by the
deterministic scheduler in harness/sched, is run in lock-step with the extracted model: same
configuration, same schedule (thread picked at every synchronisation operation + which waiter each
pthread_cond_signal wakes); the C fields, every thread's scheduler status, the queue contents and the
started/finished job logs are compared after EVERY step.  Independently the harness evaluates the
property itself on the real state (exactly-once counters, joinJobs postcondition, deadlock, lost wake-up,
ring capacity, lock discipline of the guarded fields, thread limit at job start, tryAdd refusal only without room,
POOL_sizeof / leaks against an accounting allocator): these oracles are what turns a broken tie into a concrete
failing schedule.
Supporting only (never replaces a theorem): seeded sampling (quick), exhaustive preemption-bounded
schedule enumeration + ASan/UBSan build (thorough).
"""
import json
import os
import random
import re
import subprocess
import time

from zv import core

HARNESS_SRC = ["c12_pool.c", "sched/zv_sched.c"]


# --------------------------------------------------------------------------
# case generation

class Case:
    def __init__(self, threads, queue, progs, bodies, policy="r", seed=1, stay=50, sched="-", explore=None, maxruns=None, fault=0):
        self.fault = fault     # % of the steps (after the explicit schedule) whose wake choice is drawn non-zero = a failure point
        self.threads, self.queue, self.progs, self.bodies = threads, queue, progs, bodies
        self.policy, self.seed, self.stay, self.sched, self.explore, self.maxruns = policy, seed, stay, sched, explore, maxruns

    @staticmethod
    def fmt_prog(p):
        return ".".join(p) if p else "-"

    def config(self):
        return "threads=%d queue=%d progs=%s bodies=%s" % (
            self.threads, self.queue, "|".join(self.fmt_prog(p) for p in self.progs),
            "|".join(self.fmt_prog(b) for b in self.bodies) if self.bodies else "-")

    def line(self, cid):
        s = "CASE id=%d %s policy=%s seed=%d stay=%d fault=%d sched=%s" % (cid, self.config(), self.policy, self.seed, self.stay, self.fault, self.sched)
        if self.explore is not None:
            s += " explore=%d maxruns=%d" % (self.explore, self.maxruns or 100000)
        return s


def parse_config(cfg):
    kv = dict(t.split("=", 1) for t in cfg.replace(";", " ").split() if "=" in t)
    progs = [[] if p == "-" else p.split(".") for p in kv["progs"].split("|")]
    bodies = [[] if p == "-" else p.split(".") for p in kv["bodies"].split("|")]
    return int(kv["threads"]), int(kv["queue"]), progs, bodies


def gen_case(rng, max_threads=3, max_queue=2, max_clients=3, max_ops=5):
    threads = rng.randint(1, max_threads)
    queue = rng.randint(0, max_queue)
    K = min(max_clients, rng.choice([1, 2, 2, 3]))
    bodies = []

    def new_job(depth):
        jid = len(bodies)
        bodies.append([])
        if depth < 2 and rng.random() < (0.35 if depth == 0 else 0.2):
            for _ in range(rng.randint(1, 2)):
                kind = "a" if rng.random() < 0.25 else "t"
                child = new_job(depth + 1)
                bodies[jid].append("%s%d" % (kind, child))
        return jid

    progs = []
    total = 0
    for c in range(K):
        n = rng.randint(0 if c else 1, max_ops)
        p = []
        for _ in range(n):
            if total >= 8:
                break
            x = rng.random()
            if x < 0.40:
                p.append("a%d" % new_job(0))
            elif x < 0.65:
                p.append("t%d" % new_job(0))
            elif x < 0.72 and bodies:
                p.append("%s%d" % (rng.choice("at"), rng.randrange(len(bodies))))   # a job id posted again
            elif x < 0.87:
                p.append("j")
            else:
                p.append("r%d" % rng.choice([0, 1, 1, 2, 2, 3, 4]))
            total += 1
        progs.append(p)
    stay = rng.choice([0, 30, 60, 85])
    grows = any(o[0] == "r" and int(o[1:]) > threads for p in progs for o in p)
    fault = rng.choice([0, 0, 25, 50]) if grows else 0      # allocation / pthread_create failure inside POOL_resize
    return Case(threads, queue, progs, bodies, policy="r", seed=rng.getrandbits(40), stay=stay, fault=fault)


def corpus():
    """Hand-made boundary cases (run first): each one a place where the theorems split cases."""
    C = []
    # F5 scenario: a poster and a joiner share queuePushCond (1 thread, ring of 1)
    C.append((1, 1, [["a0", "a1", "a2"], ["j"]], [[], [], []]))
    # two joiners + poster
    C.append((1, 1, [["a0", "a1"], ["j"], ["j"]], [[], []]))
    # hand-off pool (queue 0): full iff all threads busy or a job waits
    C.append((1, 0, [["a0", "a1", "t2", "j"]], [[], [], []]))
    C.append((2, 0, [["t0", "t1", "t2", "j"], ["a3", "j"]], [[], [], [], []]))
    # ring wrap: queue 2 (ring of 3), many posts
    C.append((1, 2, [["a0", "a1", "a2", "a3", "a4"]], [[], [], [], [], []]))
    C.append((2, 2, [["t0", "t1", "t2", "t3", "j"], ["a4", "a5"]], [[]] * 6))
    # resize: shrink below busy, grow within capacity, grow beyond capacity, resize(0) refused
    C.append((2, 1, [["a0", "a1", "r1", "a2", "r2", "a3"]], [[]] * 4))
    C.append((1, 0, [["a0", "r3", "a1", "a2", "r1", "t3", "j"]], [[]] * 4))
    C.append((3, 0, [["a0", "a1", "a2", "r1", "j"], ["r0", "t3", "r3"]], [[]] * 4))
    C.append((2, 0, [["a0", "a1"], ["r1", "a2", "r2"]], [[]] * 3))
    # free with jobs in flight / queued; jobs that post during free
    C.append((1, 2, [["a0", "a1", "a2"]], [["t3"], ["t4"], [], [], []]))
    C.append((2, 1, [["a0", "a1"]], [["t2", "t3"], ["a4"], [], [], []]))
    # a job that blocks in POOL_add on its own pool (legitimate self-deadlock: excluded by the theorem's hypothesis)
    C.append((1, 0, [["a0"]], [["a1"], []]))
    # empty programs
    C.append((1, 0, [[]], []))
    C.append((3, 2, [[], [], []], []))
    # resize while several workers sleep and several jobs wait: growing the limit has to wake ALL of them (work conservation)
    C.append((3, 2, [["r1", "a0", "a1", "a2", "r3", "j"]], [[]] * 3))
    C.append((3, 1, [["r1", "a0", "a1"], ["r2", "j", "r3"]], [[]] * 2))
    # round 3 (baece04): a POOL_add blocked on the hand-off pool while another client raises / lowers threadLimit - the resize has to
    # wake the poster (new idle thread; or busy != limit after a shrink), not the end of a running job
    C.append((1, 0, [["a0", "a1"], ["r2"]], [[]] * 2))
    C.append((1, 0, [["a0", "a1", "a2"], ["r2", "r1", "r3"]], [[]] * 3))
    C.append((2, 0, [["a0", "a1", "a2", "a3"], ["r1", "r2"]], [[]] * 4))
    # ... with a POOL_joinJobs caller asleep on the same condition: the resize must BROADCAST it (a signal may wake the joiner only)
    C.append((1, 0, [["a0", "a1"], ["j"], ["r2"]], [[]] * 2))
    out = []
    for th, q, progs, bodies in C:
        out.append(Case(th, q, progs, [list(b) for b in bodies]))
    return out


def fault_corpus():
    """POOL_resize beyond the capacity with an allocation / pthread_create failure at a scheduled point (round 2)."""
    C = []
    C.append((1, 1, [["a0", "r3", "a1", "j"]], [[]] * 2))
    C.append((1, 0, [["r4", "a0", "a1", "r2", "t2", "r4", "j"]], [[]] * 3))                 # fail, shrink, grow again
    C.append((2, 0, [["a0", "r4", "a1", "r1", "r4", "j"], ["t2", "r3"]], [[]] * 3))          # two resizers
    C.append((1, 2, [["a0", "a1", "a2", "r3", "j"], ["r2", "a3"]], [[]] * 4))                # queued jobs wait for the new threads
    C.append((1, 0, [["a0", "r3"]], [["a1"], []]))                                           # free right after a failed resize, a job posting
    return [Case(th, q, progs, [list(b) for b in bodies]) for th, q, progs, bodies in C]


# --------------------------------------------------------------------------
# running

class Runner:
    def __init__(self, ctx, variant="o1", fix=True):
        self.ctx = ctx
        self.variant = variant
        self.fix = fix
        self.h = core.build_harness("c12_pool", HARNESS_SRC, variant=variant, link_lib=False,
                                    extra_flags=["-w"], libs=("-lpthread",))
        self.m = core.build_extracted("c12model", "Extract/Extract_C12.v", "c12_driver.ml")
        self.n = 0

    def run(self, cases, tag, timeout=900, jobs=None):
        """cases: list of Case.  Runs harness | model driver over the cases (split over several processes).
        Returns (ok_lines, bad_lines, x_lines, stderr_text)."""
        self.n += 1
        jobs = max(1, min(jobs or max(1, core.NCPU - 4), len(cases)))
        env = dict(os.environ)
        env["ASAN_OPTIONS"] = "detect_leaks=1:abort_on_error=0:exitcode=99"
        env["UBSAN_OPTIONS"] = "halt_on_error=1:exitcode=98"
        procs = []
        for k in range(jobs):
            base = os.path.join(self.ctx.scratch, "%s-%s-%d-%d" % (tag, self.variant, self.n, k))
            with open(base + ".cases", "w") as f:
                for i in range(k, len(cases), jobs):
                    f.write(cases[i].line(i) + "\n")
            cmd = "set -o pipefail; %s < %s.cases 2> %s.err | %s %s > %s.res" % (self.h, base, base, self.m, "" if self.fix else "nofix", base)
            procs.append((base, cmd, subprocess.Popen(["bash", "-c", cmd], env=env, stdout=subprocess.DEVNULL, stderr=subprocess.PIPE)))
        oks, bads, xs, errtxt = [], [], [], ""
        deadline = time.time() + timeout
        for base, cmd, p in procs:
            try:
                _, e = p.communicate(timeout=max(1, deadline - time.time()))
            except subprocess.TimeoutExpired:
                for _, _, q in procs:
                    q.kill()
                raise RuntimeError("C12 pipeline timed out: " + cmd)
            et = open(base + ".err").read()
            errtxt += et
            if p.returncode != 0:
                raise RuntimeError("C12 pipeline failed rc=%d: %s %s %s" % (p.returncode, cmd, e.decode("utf-8", "replace")[-500:], et[-1500:]))
            total = None
            for ln in open(base + ".res"):
                if ln.startswith("OK "):
                    oks.append(ln)
                elif ln.startswith("BAD "):
                    bads.append(ln.rstrip("\n"))
                elif ln.startswith("X "):
                    xs.append(ln.rstrip("\n"))
                elif ln.startswith("TOTAL "):
                    total = ln
            if total is None:
                raise RuntimeError("C12: model driver produced no TOTAL line (%s)" % base)
        return oks, bads, xs, errtxt


def parse_bad(ln):
    m = re.match(r"BAD id=(\d+) steps=(\d+) end=(\S+) diff=\[(.*?)\] oracle=(\S+) sched=(\S+) case=(\S+)$", ln)
    if not m:
        return dict(raw=ln)
    orc = None
    if m.group(5) != "-":
        seen = []
        for o in m.group(5).replace("_", " ").split(";"):
            if o not in seen:
                seen.append(o)
        orc = "; ".join(seen[:3])
    return dict(id=int(m.group(1)), steps=int(m.group(2)), end=m.group(3), diff=m.group(4), oracle=orc,
                sched=m.group(6), config=" ".join(t for t in m.group(7).split(";") if not t.startswith("id=")))


def oracle_key(b):
    """Stable key of a finding (known_findings.json) - only when nothing else failed in the run."""
    o = b.get("oracle") or ""
    if o and all("POOL sizeof under-reports" in x for x in o.split("; ")):
        return "C12-sizeof-after-failed-resize"
    return None


def report(ctx, runner, bads, tag):
    """Turn BAD lines into violations.  A line with an oracle message is a concrete failing schedule on the real
    code.  A pure model/implementation difference triggers a search (exhaustive schedules of the same configuration
    with the oracles) for a concrete property failure."""
    seen = set()
    parsed = [parse_bad(ln) for ln in bads]
    for b in parsed:       # a known finding never hides a model/implementation difference of the same run
        if b.get("oracle") and oracle_key(b) and b.get("diff"):
            b["oracle"] = None
    parsed.sort(key=lambda b: (0 if b.get("oracle") else 1, b.get("steps", 0)))   # concrete failures first, shortest first
    have_concrete = any(b.get("oracle") and not oracle_key(b) for b in parsed)
    for b in parsed:
        if have_concrete and not b.get("oracle"):
            continue        # a concrete failing schedule is reported; pure model/implementation differences add nothing
        if "raw" in b:
            ctx.violation(dict(kind="unparsed", line=b["raw"]), what="C12: unparsable result line", no_input=True)
            continue
        sig = ((b["oracle"] or "")[:40], b["diff"].split(" ")[0] if not b["oracle"] else "")
        if sig in seen or len(ctx.violations) >= 3:
            continue
        seen.add(sig)
        replay = dict(kind="schedule", config=b["config"], sched=b["sched"], variant=runner.variant, tag=tag,
                      observed=dict(end=b["end"], oracle=b["oracle"], first_difference=b["diff"]))
        if b["oracle"]:
            ctx.violation(replay, what="pool.c violates the property on a concrete schedule: %s (config %s)" % (b["oracle"], b["config"]), key=oracle_key(b))
            continue
        # search: enumerate schedules of this configuration on the implementation, oracles only
        found = search_config(ctx, runner, b["config"])
        if found:
            f = found[0]
            replay2 = dict(kind="schedule", config=f["config"], sched=f["sched"], variant=runner.variant, tag=tag + "-search",
                           observed=dict(end=f["end"], oracle=f["oracle"], first_difference=f["diff"]),
                           found_from=dict(config=b["config"], sched=b["sched"], first_difference=b["diff"]))
            ctx.violation(replay2, what="pool.c no longer corresponds to the model (%s) and the search found a concrete property failure: %s"
                          % (b["diff"][:120], f["oracle"]))
        else:
            ctx.violation(replay, what="pool.c no longer corresponds to the model: %s" % b["diff"][:300], no_input=True)


def search_config(ctx, runner, config, bound=2, maxruns=20000, sweep=True):
    """Look for a concrete property failure (an oracle line) on the implementation: (1) all schedules of [config] with at
    most [bound] preemptions, (2) a seeded sweep of random schedules over [config] and the boundary corpus."""
    th, q, progs, bodies = parse_config(config)
    c = Case(th, q, progs, bodies, policy="n", explore=bound, maxruns=maxruns)
    out = []
    try:
        oks, bads, xs, _ = runner.run([c], "search", timeout=300)
        out = [b for b in map(parse_bad, bads) if b.get("oracle")]
        if not out and sweep:
            rng = random.Random(ctx.seed * 104729 + 7)
            cs = []
            for base in [Case(th, q, progs, bodies)] + corpus():
                for k in range(400):
                    cs.append(Case(base.threads, base.queue, base.progs, base.bodies, policy="r", seed=rng.getrandbits(40),
                                   stay=rng.choice([0, 0, 30, 60])))
            oks, bads, xs, _ = runner.run(cs, "sweep", timeout=300)
            out = [b for b in map(parse_bad, bads) if b.get("oracle")]
    except Exception as e:  # noqa
        core.log("search failed:", repr(e))
        return []
    out.sort(key=lambda b: b["steps"])
    return out


# --------------------------------------------------------------------------
# the pool shared between several compression contexts (ZSTD_createThreadPool / ZSTD_CCtx_refThreadPool / ZSTD_freeThreadPool):
# harness/c12_shared.c, oracles only (no model run: the pool model's client grammar has no ZSTDMT in it)

SHARED_SRC = ["c12_shared.c", "sched/zv_sched.c"]
PRE = os.path.join(core.HARNESS, "sched", "zv_pthread.h")
# with dictionaries: scenarios about what a job of an ABANDONED frame still reads (private pools too)
SHARED_WITH_DICT = True

SHARED_KEYS = [   # (substring of the oracle line, stable key)
    ("shared pool resized by a context", "C12-sharedpool-resized-by-context"),
    ("refThreadPool", "C12-refThreadPool-ignored-after-first-mt-frame"),
    ("abandoned session's jobs still run", "mt-abandoned-session-dict-freed"),
    ("use after free", "C12-sharedpool-free-midframe"),
    ("destroy of a locked", "C12-sharedpool-free-midframe"),
    ("write into freed memory", "C12-sharedpool-free-midframe"),
]


def shared_corpus():
    """Hand-made scenarios: (pool threads, programs)."""
    C = [
        (2, ["P1.S2.c600.e"]),
        (2, ["P1.S2.c600.e", "P1.S1.c700.f.c100.e"]),
        (1, ["P1.S2.c1200.e", "P1.S2.c1200.e", "P1.S1.c600.e"]),          # 3 contexts, 1 thread: every context spins on POOL_tryAdd
        (2, ["P1.S1.c600.F"]),                                              # context freed in the middle of a frame (job queued / running)
        (2, ["P1.S2.c1200.F.P1.S1.c600.e", "P1.S2.c600.e.c600.e"]),         # ... while another context keeps using the pool
        (2, ["P1.S1.c600"]),                                                # program ends mid-frame: final ZSTD_freeCCtx
        (3, ["P1.S2.c1700.R.c600.e", "P1.S3.c600.e"]),                      # session reset mid-frame, next frame on the same pool
        (2, ["P1.S2.c1200.A.P1.S1.c600.e", "P1.S1.c600.e"]),
        (2, ["P1.S1.c600.e.P0.c600.e"]),                                    # back to a private pool between two frames
        (2, ["P1.S1.c600.e.P0.K.c600.e"]),                                  # ... and the shared pool is freed by the application
        (2, ["S1.c600.e.P1.c600.e"]),                                       # a pool selected after a first multithreaded frame
        (2, ["P1.S1.c600.e.S2.c1200.e", "P1.S2.c600.e.S1.c600.e"]),         # ZSTDMT_resize -> POOL_resize on the SHARED pool while the other runs
        (1, ["P1.S3.c1700.e", "P1.S1.c600.z.e"]),                           # grow the shared pool beyond its capacity from a context
        (2, ["P1.S2.c600.R.P0.c600.e", "P1.S1.c600.e"]),                    # abandon a frame on the shared pool, go private
        (1, ["P1.S3.L.c1700.e", "P1.S2.L.c1200.R.c600.e"]),                 # long-distance matching: jobs wait for each other's serial section, 1 thread
        # round 3 (106ca1a: a context no longer resizes a pool it was given): more workers asked than the pool has threads -
        # the jobs the pool refuses are retried and every frame completes; the pool keeps its size
        (1, ["P1.S8.c2400.e"]),
        (1, ["P1.S8.c1700.e", "P1.S4.c1700.f.c600.e"]),
        (1, ["P1.S2.c600.e.S8.c1700.e"]),                                   # the nbWorkers change that used to grow the caller's pool to 8 threads
        (3, ["P1.S3.c1200.e.S1.c600.e", "P1.S3.c1700.e"]),                  # ... and the one that used to throttle the other context to 1 thread
        (2, ["P1.S8.c1700.F.P1.S1.c600.e", "P1.S8.c1200.R.c600.e"]),
    ]
    if SHARED_WITH_DICT:
        C += [(1, ["S1.D.c600.F"]), (1, ["S1.D.c600.R.D.c600.e"]), (2, ["P1.S1.D.c600.R.D.c600.e", "P1.S1.c600.e"])]
    return C


def gen_shared(rng):
    pool = rng.randint(1, 3)
    n = rng.choice([1, 2, 2, 3])
    progs = []
    for a in range(n):
        ops, budget, shared, nbw = [], 2800, False, 0

        def prelude():
            nonlocal shared, nbw
            if rng.random() < 0.85 and "K" not in ops:
                ops.append("P1"); shared = True
            nbw = rng.choice([1, 1, 2, 3, 3, 4, 8]); ops.append("S%d" % nbw)
            if SHARED_WITH_DICT and rng.random() < 0.3:
                ops.append("D")
            if rng.random() < 0.2:
                ops.append("L")
        prelude()
        for _ in range(rng.randint(1, 3)):
            for _ in range(rng.randint(1, 2)):
                k = rng.choice([600, 600, 1100, 1700])
                if budget >= k:
                    ops.append("c%d" % k); budget -= k
            if rng.random() < 0.3:
                ops.append("f")
            x = rng.random()
            if x < 0.55:
                ops.append("e")
            elif x < 0.70:
                ops.append("R")
            elif x < 0.80:
                ops.append("F"); shared = False; prelude()
            elif x < 0.86:
                ops.append("A"); prelude()
            else:
                break          # the program ends inside the frame
            y = rng.random()
            if y < 0.15:
                ops.append("P0"); shared = False
                if n == 1 and rng.random() < 0.5:
                    ops.append("K")
            elif y < 0.30 and "K" not in ops:
                ops.append("P1"); shared = True
            elif y < 0.45:
                nbw = rng.choice([1, 2, 3, 5, 8]); ops.append("S%d" % nbw)
            elif y < 0.5:
                ops.append("z")
        progs.append(".".join(ops))
    return pool, progs


def shared_line(cid, pool, progs, policy, seed, stay, sched="-"):
    return "CASE id=%d pool=%d progs=%s policy=%s seed=%d stay=%d sched=%s" % (cid, pool, "|".join(progs), policy, seed, stay, sched)


def run_shared_lines(ctx, exe, lines, tag, timeout=600):
    """Runs case lines through harness/c12_shared; returns a list of dict(line, oracles, end, steps, sched)."""
    jobs = max(1, min(max(1, core.NCPU - 4), len(lines)))
    procs = []
    for k in range(jobs):
        base = os.path.join(ctx.scratch, "shared-%s-%d" % (tag, k))
        with open(base + ".cases", "w") as f:
            for ln in lines[k::jobs]:
                f.write(ln + "\n")
        procs.append((base, subprocess.Popen(["bash", "-c", "%s < %s.cases > %s.out 2> %s.err" % (exe, base, base, base)])))
    deadline = time.time() + timeout
    res = []
    for k, (base, p) in enumerate(procs):
        try:
            p.wait(timeout=max(1, deadline - time.time()))
        except subprocess.TimeoutExpired:
            for _, q in procs:
                q.kill()
            raise RuntimeError("C12 shared-pool harness timed out")
        if p.returncode != 0:
            raise RuntimeError("C12 shared-pool harness failed rc=%d: %s" % (p.returncode, open(base + ".err").read()[-800:]))
        mine = lines[k::jobs]
        cur, idx = None, -1
        for ln in open(base + ".out", errors="replace"):
            ln = ln.rstrip("\n")
            if ln.startswith("CASE "):
                idx += 1
                cur = dict(line=mine[idx] if idx < len(mine) else ln, oracles=[], end=None, steps=0, sched="-")
                res.append(cur)
            elif ln.startswith("BADCASE"):
                raise RuntimeError("C12 shared-pool harness rejected a case line")
            elif cur is not None and ln.startswith("O "):
                cur["oracles"].append(ln[2:])
            elif cur is not None and ln.startswith("E "):
                m = re.match(r"E (\S+) steps=(\d+) sched=(\S+)", ln)
                if m:
                    cur["end"], cur["steps"], cur["sched"] = m.group(1), int(m.group(2)), m.group(3)
        if idx + 1 != len(mine):
            raise RuntimeError("C12 shared-pool harness: %d cases in, %d out (%s)" % (len(mine), idx + 1, base))
    return res


def shared_key(msg):
    for sub, key in SHARED_KEYS:
        if sub in msg:
            return key
    return None


def shared_report(ctx, res, tag):
    ctx.notes["shared_pool_step_limit_runs"] = ctx.notes.get("shared_pool_step_limit_runs", 0) + sum(1 for r in res if r["end"] == "LIMIT")
    bad = [r for r in res if r["oracles"] or r["end"] not in ("END", "LIMIT")]
    bad.sort(key=lambda r: r["steps"] if r["end"] == "END" else 10 ** 6 + r["steps"])
    seen = set()
    for r in bad:
        msg = r["oracles"][0] if r["oracles"] else "the run ended with %s" % r["end"]
        key = shared_key(msg)
        if (key or msg[:50]) in seen:
            continue
        seen.add(key or msg[:50])
        kv = dict(t.split("=", 1) for t in r["line"].split()[1:] if "=" in t)
        line = r["line"]
        if r["end"] == "END" and r["sched"] != "-":      # complete schedule known: replay it literally
            line = shared_line(0, int(kv["pool"]), kv["progs"].split("|"), "n", int(kv["seed"]), int(kv["stay"]), r["sched"])
        ctx.violation(dict(kind="shared", case=line, tag=tag, observed=dict(end=r["end"], oracles=r["oracles"][:4])), key=key,
                      what="shared thread pool (ZSTD_createThreadPool / ZSTD_CCtx_refThreadPool): %s (pool=%s progs=%s)"
                           % ("; ".join(r["oracles"][:3]) or msg, kv.get("pool"), kv.get("progs")))


def shared_phase(ctx, rng):
    exe = core.build_harness("c12_shared", SHARED_SRC, variant="o1", pre_include=PRE,
                             lib_exclude=["pool.c", "zstdmt_compress.c"], extra_flags=["-w", "-DZV_MAXSTEPS=16384"])
    lines = []
    for pool, progs in shared_corpus():
        lines.append(shared_line(len(lines), pool, progs, "n", 1, 50))
        for k in range(4 if ctx.quick else 40):
            lines.append(shared_line(len(lines), pool, progs, "r", rng.getrandbits(40), rng.choice([0, 30, 60, 85])))
    for i in range(160 if ctx.quick else 4000):
        pool, progs = gen_shared(rng)
        lines.append(shared_line(len(lines), pool, progs, rng.choice("rrrn"), rng.getrandbits(40), rng.choice([0, 30, 60, 85])))
    for ln in lines[:2]:
        ctx.sample(ln)
    res = run_shared_lines(ctx, exe, lines, "main")
    for r in res:
        shape = re.sub(r"\d+", "", r["line"].split("progs=")[1].split()[0])
        ctx.count(("shared", shape, r["end"]), nontrivial=r["steps"] >= 40)
    ctx.notes["shared_pool_runs"] = len(res)
    ctx.notes["shared_pool_steps"] = sum(r["steps"] for r in res)
    shared_report(ctx, res, "shared")


# ---- round 3: real pthreads + ThreadSanitizer (harness/c12_tsan.c): accesses that no synchronisation orders are invisible to the
#      one-thread-at-a-time scheduler of harness/sched; here the same kind of histories run on real threads in a TSan build
TSAN_KEYS = [("POOL_sizeof", "C12-poolsizeof-race-shared-pool")]


def tsan_reports(err):
    """ThreadSanitizer reports of a run -> list of (summary line, text of the access stacks)"""
    out = []
    for blk in err.split("=================="):
        if "WARNING: ThreadSanitizer" not in blk:
            continue
        head = blk.split("Location is")[0].split("  Mutex M")[0].split("  Thread T")[0]
        m = re.search(r"SUMMARY: ThreadSanitizer: (.*)", blk)
        out.append((m.group(1).strip() if m else blk.strip().splitlines()[0], head))
    return out


def tsan_phase(ctx, rng):
    exe = core.build_harness("c12_tsan", ["c12_tsan.c"], variant="tsan", extra_flags=["-w"])
    env = dict(os.environ, TSAN_OPTIONS="halt_on_error=0 exitcode=0 report_signal_unsafe=0 history_size=4")
    runs = [["sizeof", "1"]]
    for k in range(6 if ctx.quick else 60):
        runs.append(["pool", str(rng.getrandbits(20)), str(rng.choice([2, 3, 4])), str(rng.choice([1, 2, 3])), str(rng.choice([0, 0, 1, 2])), "300" if ctx.quick else "1500"])
    for k in range(2 if ctx.quick else 24):
        runs.append(["shared", str(rng.getrandbits(20)), str(rng.choice([2, 3])), str(rng.choice([1, 2, 3])), "5" if ctx.quick else "12"])
    procs = [(a, subprocess.Popen([exe] + a, stdout=subprocess.PIPE, stderr=subprocess.PIPE, text=True, env=env)) for a in runs[:8]]
    rest = runs[8:]
    seen, other, n = set(), {}, 0
    while procs:
        a, p = procs.pop(0)
        try:
            out, err = p.communicate(timeout=900)
        except subprocess.TimeoutExpired:
            p.kill()
            out, err = p.communicate()
            out += "O the run did not finish within 900 s on real threads (deadlock or livelock)\n"
        if rest:
            b = rest.pop(0)
            procs.append((b, subprocess.Popen([exe] + b, stdout=subprocess.PIPE, stderr=subprocess.PIPE, text=True, env=env)))
        n += 1
        case = "c12_tsan " + " ".join(a)
        ctx.count(("tsan", a[0], a[3] if a[0] == "pool" else "-", a[4] if a[0] == "pool" else "-"), nontrivial=True)
        bad = [ln[2:] for ln in out.splitlines() if ln.startswith("O ")]
        if p.returncode != 0 or "E ok" not in out:
            bad.append("the run ended abnormally (rc=%s): %s" % (p.returncode, err.strip()[-300:]))
        for msg in bad:
            if msg[:40] not in seen:
                seen.add(msg[:40])
                ctx.violation(dict(kind="tsan", argv=a, observed=msg), what="thread pool on real threads: %s (%s)" % (msg, case))
        for summ, head in tsan_reports(err):
            if "pool.c" in head or "POOL_" in head:
                key = next((k for sub, k in TSAN_KEYS if sub in head), None)
                if (key or summ) in seen:
                    continue
                seen.add(key or summ)
                frames = re.findall(r"#\d+ (\S+) (\S+)", head)
                ctx.violation(dict(kind="tsan", argv=a, observed=dict(summary=summ, stacks=head.strip()[:3000])), key=key,
                              what="ThreadSanitizer on real threads: %s; accesses: %s (%s)" % (summ, " <- ".join("%s %s" % (f, os.path.basename(l)) for f, l in frames[:10]), case))
            else:
                other[summ] = other.get(summ, 0) + 1
    ctx.notes["tsan_runs"] = n
    if other:
        ctx.notes["tsan_reports_outside_pool"] = other
        core.log("C12: ThreadSanitizer reports that do not touch pool.c (recorded, other properties):", other)


def create_failures(ctx, runner):
    """POOL_create_advanced with its k-th pthread_create / its n-th allocation failing (harness only, no model run)."""
    lines = []
    for th in (1, 2, 3):
        for q in (0, 1, 2):
            lines += ["FCASE threads=%d queue=%d cfail=%d afail=0" % (th, q, k) for k in range(1, th + 1)]
            lines += ["FCASE threads=%d queue=%d cfail=0 afail=%d" % (th, q, k) for k in (1, 2, 3)]
    p = subprocess.run([runner.h], input="\n".join(lines) + "\n", capture_output=True, text=True, timeout=300)
    cur, n, seen = None, 0, set()
    for ln in p.stdout.splitlines():
        if ln.startswith("FCASE"):
            cur = ln; n += 1
            ctx.count(("create-failure", ln), nontrivial=True)
        elif ln.startswith("O ") and cur:
            if ln[2:42] not in seen and len(seen) < 3:       # one report per kind of failure
                seen.add(ln[2:42])
                ctx.violation(dict(kind="create-failure", case=cur, observed=ln[2:]), what="POOL_create_advanced with a failing allocation / pthread_create: %s (%s)" % (ln[2:], cur))
            cur = None
    if p.returncode != 0 or n != len(lines):
        raise RuntimeError("C12: create-failure runs: rc=%d, %d of %d cases ran: %s" % (p.returncode, n, len(lines), p.stderr[-500:]))
    ctx.notes["create_failure_cases"] = n


def tally(ctx, oks):
    for ln in oks:
        m = re.match(r"OK id=(\d+) steps=(\d+) end=(\S+) shape=(\S+)", ln)
        if m:
            steps = int(m.group(2))
            ctx.count((m.group(4), m.group(3)), nontrivial=steps >= 12)
            ctx.cov["traces_validated_against_impl"] += 1
            ctx.notes["steps_compared"] = ctx.notes.get("steps_compared", 0) + steps
            ctx.notes.setdefault("end", {}).setdefault(m.group(3), 0)
            ctx.notes["end"][m.group(3)] += 1


def proof_search(ctx, runner):
    def search(broken):
        """A theorem no longer compiles (the model or a proof was edited): look for a concrete failure on the
        implementation with the oracles over the corpus, exhaustively with a small preemption bound."""
        out = []
        for c in corpus()[:8]:
            for b in search_config(ctx, runner, c.config(), bound=1, maxruns=3000, sweep=False)[:1]:
                out.append((dict(kind="schedule", config=b["config"], sched=b["sched"], variant=runner.variant,
                                 observed=dict(end=b["end"], oracle=b["oracle"])), "C12 proof broken and the implementation fails: " + b["oracle"]))
        return out
    return search


def run(ctx):
    ctx.cov["rule"] = ("a case = (pool configuration threads 1..3 x queue 0..2, 1..3 client programs over {add, tryAdd, joinJobs, resize}, "
                       "job bodies that post, a schedule); the schedule is chosen by the deterministic scheduler (explicit prefix, then PRNG seeded "
                       "from VERIF_SEED, or exhaustive DFS with a preemption bound in the thorough tier) and replayed step by step through the "
                       "extracted Coq model; evaluations = runs compared in lock-step; a run is non-trivial when it has >= 12 steps; distinct = "
                       "distinct (set of model transitions pc->pc exercised, END/STUCK) signatures")
    runner = Runner(ctx, "o1")
    if ctx.replay_file:
        return replay(ctx, runner)
    ctx.prove()
    ctx.proof_verdict(proof_search(ctx, runner))
    rng = random.Random(ctx.seed * 7919 + 12)
    # 1. corpus, each under several PRNG schedules + the no-preemption schedule
    cs = []
    for c in corpus():
        cs.append(Case(c.threads, c.queue, c.progs, c.bodies, policy="n"))
        for k in range(12 if ctx.quick else 60):
            cs.append(Case(c.threads, c.queue, c.progs, c.bodies, policy="r", seed=rng.getrandbits(40), stay=rng.choice([0, 30, 60, 85])))
    oks, bads, xs, err = runner.run(cs, "corpus")
    tally(ctx, oks)
    for c in cs[:3]:
        ctx.sample(c.line(0))
    report(ctx, runner, bads, "corpus")
    if ctx.violations:
        return
    # 1b. round 2: allocation / pthread_create failures inside POOL_resize (failure point = wake choice of the resize step, so the
    #     model follows), and inside POOL_create_advanced (no model: NULL, no leak, no thread left, then a clean creation)
    cs = []
    for c in fault_corpus():
        cs.append(Case(c.threads, c.queue, c.progs, c.bodies, policy="n"))
        for k in range(10 if ctx.quick else 60):
            cs.append(Case(c.threads, c.queue, c.progs, c.bodies, policy="r", seed=rng.getrandbits(40), stay=rng.choice([0, 30, 60, 85]), fault=rng.choice([30, 60, 100])))
    for prg in ([["r2", "a0", "j"]], [["a0", "r3"]], [["r2"], ["r2"]]):     # small: the search goes through every failure point (see fault_explore)
        cs.append(Case(1, 0, prg, [[]], policy="n", explore=1, maxruns=2500 if ctx.quick else 40000))
    oks, bads, xs, err = runner.run(cs, "fault")
    tally(ctx, oks)
    ctx.sample(cs[1].line(0))
    report(ctx, runner, bads, "fault")
    ctx.notes["fault_explore"] = xs[:8]
    create_failures(ctx, runner)
    if ctx.violations:
        return
    # 2. seeded random configurations x random schedules
    n = 12000 if ctx.quick else 60000
    cs = []
    hist = {}
    for i in range(n):
        c = gen_case(rng)
        cs.append(c)
        key = "threads=%d queue=%d clients=%d" % (c.threads, c.queue, len(c.progs))
        hist[key] = hist.get(key, 0) + 1
    ctx.notes["config_histogram"] = hist
    oks, bads, xs, err = runner.run(cs, "random")
    tally(ctx, oks)
    for c in cs[:5]:
        ctx.sample(c.line(0))
    report(ctx, runner, bads, "random")
    if ctx.violations:
        return
    # 2b. one pool shared by several compression contexts (oracles on the real library under the deterministic scheduler)
    shared_phase(ctx, rng)
    if ctx.violations:
        return
    # 2c. round 3: real pthreads under ThreadSanitizer (data races, exactly-once with real threads)
    tsan_phase(ctx, rng)
    if ctx.violations:
        return
    # 3. exhaustive schedules with a preemption bound on small configurations (supporting evidence)
    ex = []
    small = corpus()
    if ctx.quick:
        picks = [(c, 1, 4000) for c in small] + [(small[0], 2, 4000), (small[1], 2, 4000), (small[3], 2, 4000), (small[9], 2, 4000), (small[-4], 2, 4000), (small[-1], 2, 4000)]
    else:
        picks = [(c, 2, 60000) for c in small] + [(c, 3, 40000) for c in small[:4]] + [(gen_case(rng, max_ops=4), 2, 30000) for _ in range(25)]
    for c, bound, mx in picks:
        ex.append(Case(c.threads, c.queue, c.progs, c.bodies, policy="n", explore=bound, maxruns=mx))
    oks, bads, xs, err = runner.run(ex, "explore", timeout=1500)
    tally(ctx, oks)
    report(ctx, runner, bads, "explore")
    ctx.notes["explore"] = xs[:60]
    ctx.notes["explore_exhausted"] = sum(1 for x in xs if "exhausted=1" in x)
    if ctx.violations:
        return
    ctx.cov["exhaustive"] = False
    # 4. thorough: the same corpus + random cases on an ASan/UBSan build (use-after-free on POOL_free, leaks)
    if not ctx.quick:
        ra = Runner(ctx, "asan")
        cs = []
        for c in corpus():
            for k in range(10):
                cs.append(Case(c.threads, c.queue, c.progs, c.bodies, policy="r", seed=rng.getrandbits(40), stay=rng.choice([0, 30, 60, 85])))
        cs += [gen_case(rng) for _ in range(3000)]
        oks, bads, xs, err = ra.run(cs, "asan", timeout=1500)
        tally(ctx, oks)
        report(ctx, ra, bads, "asan")
        if "ERROR: AddressSanitizer" in err or "runtime error:" in err:
            ctx.notes["asan_stderr"] = err[-3000:]
    if not ctx.quick:
        # independent re-check of the compiled theory by coqchk (kernel re-validation, lists axioms)
        rc, out, err = core.sh(["timeout", "1200", "coqchk", "-silent", "-o", "-Q", ".", "ZV", "ZV.Props.Properties_C12"], cwd=core.COQ)
        txt = out + err
        ctx.notes["coqchk"] = " ".join(txt.split())[-400:]
        if rc != 0 or "Axioms: <none>" not in " ".join(txt.split()):
            ctx.violation(dict(kind="coqchk", rc=rc, output=txt[-2000:]), what="coqchk does not validate Properties_C12 axiom-free", no_input=True)
    ctx.assumptions += [
        "the deterministic scheduler (harness/sched) implements POSIX mutex/condition semantics without spurious wake-ups; "
        "real pthread behaviour, memory-model effects and data races as such are outside the model (round 3: a real-thread ThreadSanitizer "
        "phase, harness/c12_tsan.c, reports the races that occur in the scenarios it runs - a regression net, not a proof)",
        "allocation / pthread_create failures inside POOL_resize are part of the schedule since round 2; inside POOL_create_advanced they are exercised by the harness only",
        "PoolShared.v (several clients on one pool) assumes that ZSTDMT posts only with POOL_tryAdd and waits for its own jobs before it frees or "
        "resizes (checked per run by the oracles of harness/c12_shared.c); its liveness theorem assumes a fair scheduler",
        "client discipline assumed by the theorems: POOL_free is called once, by one thread, after every other client thread has "
        "stopped using the pool (jobs may still be queued, running and posting)",
    ]


def replay(ctx, runner):
    obj = json.load(open(ctx.replay_file))
    r = obj.get("replay", obj)
    if r.get("kind") == "create-failure":
        p = subprocess.run([runner.h], input=r["case"] + "\n", capture_output=True, text=True, timeout=120)
        ctx.sample(r["case"]); ctx.count(("create-failure-replay", r["case"]))
        for ln in p.stdout.splitlines():
            if ln.startswith("O "):
                ctx.violation(dict(kind="create-failure", case=r["case"], observed=ln[2:]), what="replay reproduces: " + ln[2:])
        if not ctx.violations:
            core.log("replay: the recorded case no longer fails")
        ctx.prove()
        ctx.proof_verdict(None)
        return
    if r.get("kind") == "tsan":
        exe = core.build_harness("c12_tsan", ["c12_tsan.c"], variant="tsan", extra_flags=["-w"])
        env = dict(os.environ, TSAN_OPTIONS="halt_on_error=0 exitcode=0 report_signal_unsafe=0 history_size=4")
        ctx.sample("c12_tsan " + " ".join(r["argv"]))
        for k in range(5):          # real threads: the interleaving is not reproducible, the scenario is
            p = subprocess.run([exe] + r["argv"], capture_output=True, text=True, env=env, timeout=1200)
            ctx.count(("tsan-replay", k))
            for ln in p.stdout.splitlines():
                if ln.startswith("O "):
                    ctx.violation(dict(kind="tsan", argv=r["argv"], observed=ln[2:]), what="replay reproduces: " + ln[2:])
            for summ, head in tsan_reports(p.stderr):
                if "pool.c" in head or "POOL_" in head:
                    ctx.violation(dict(kind="tsan", argv=r["argv"], observed=dict(summary=summ, stacks=head.strip()[:3000])),
                                  key=next((k2 for sub, k2 in TSAN_KEYS if sub in head), None), what="replay reproduces: ThreadSanitizer: " + summ)
            if ctx.violations:
                break
        if not ctx.violations:
            core.log("replay: the recorded real-thread scenario no longer fails (5 runs)")
        ctx.prove()
        ctx.proof_verdict(None)
        return
    if r.get("kind") == "shared":
        exe = core.build_harness("c12_shared", SHARED_SRC, variant="o1", pre_include=PRE,
                                 lib_exclude=["pool.c", "zstdmt_compress.c"], extra_flags=["-w", "-DZV_MAXSTEPS=16384"])
        res = run_shared_lines(ctx, exe, [r["case"]], "replay")
        ctx.sample(r["case"][:400])
        for x in res:
            ctx.count(("shared-replay", x["end"]))
            core.log("replay:", x["end"], "; ".join(x["oracles"][:4]) or "no oracle fired")
        shared_report(ctx, res, "replay")
        if not ctx.violations:
            core.log("replay: the recorded scenario no longer fails")
        ctx.prove()
        ctx.proof_verdict(None)
        return
    if r.get("kind") != "schedule":
        core.log("replay: nothing executable in this file (kind=%s); re-running the proof step" % r.get("kind"))
        ctx.prove()
        ctx.proof_verdict(None)
        return
    if r.get("variant") == "asan":
        runner = Runner(ctx, "asan")
    th, q, progs, bodies = parse_config(r["config"])
    c = Case(th, q, progs, bodies, policy="n", sched=r.get("sched", "-"))
    oks, bads, xs, err = runner.run([c], "replay")
    tally(ctx, oks)
    ctx.sample(c.line(0))
    for ln in bads:
        core.log("replay:", ln)
    report_replay = []
    for ln in bads:
        b = parse_bad(ln)
        report_replay.append(b)
        ctx.violation(dict(kind="schedule", config=r["config"], sched=b.get("sched", r.get("sched")), variant=runner.variant,
                           observed=dict(end=b.get("end"), oracle=b.get("oracle"), first_difference=b.get("diff"))),
                      what="replay reproduces: %s" % (b.get("oracle") or b.get("diff")), no_input=not b.get("oracle"))
    if not bads:
        core.log("replay: the recorded schedule no longer fails")
    ctx.prove()
    ctx.proof_verdict(None)
