"""C17 - sequence-level compression: valid parses round-trip, invalid ones are refused.

Decided by: Coq theorems on the Gallina model of the sequence API (coq/Seq/SeqApi.v, theorem list in
coq/Props/Properties_C17.v) + a per-run correspondence (differential test, labelled as such):
the extracted model and the real ZSTD_compressSequences / ZSTD_generateSequences / ZSTD_mergeBlockDelimiters /
ZSTD_compress2+registered producer (harness/c17_seq.c, libzstd rebuilt from the working tree) run on the same
sequence lists; accept/reject class must agree, and every accepted frame is decoded by the extracted reference
decoder R and by libzstd: content == source, per-block sequences == the model's seqStore after repcode resolution.
The property statement itself (valid parse => accepted and round-trips; structural violation + validation =>
error; no out-of-bounds access) is evaluated on the real code as the direct oracle."""
import json
import random
import subprocess
from concurrent.futures import ThreadPoolExecutor

from .. import codec, core

P = codec.P
M32 = 1 << 32
KEY_F4 = "F4-validate-offset-uses-end-position"
KEY_REP = "C17-validate-skips-repcode-offsets"
KEY_WRAP = "C17-u32-length-or-offset-wrap"
KEY_GEN = "C17-generateSequences-litLength-65536-history"
KEY_OVERRUN = "C17-nodelim-overrun-negative-lastliterals"
KEY_PREFIX = "C17-prefix-dict-invisible-to-validation"
KEY_PRODPOS = "C17-producer-validation-position-restarts-per-block"
KEY_MT = "C17-compressSequences-nbworkers-null-blockstate"
KEY_COLLECT = "C17-generateSequences-leaves-collector-armed"
KEY_DICTHDR = "C17-validation-counts-dictionary-header"
KEY_SESSION = "C17-compressSequences-leaves-session-open"
KEY_FALLBACK_REP = "C17-producer-fallback-stale-third-repcode"
KEY_GEN_LDM3 = "C17-generateSequences-ldm-opt-matchlength-below-minmatch"
INVALID = "External_sequences_are_not_valid"
PRODFAIL = "Block-level_external_sequence_producer_returned_an_error_code"


# --------------------------------------------------------------------------------------------------
# batch runner with crash attribution (one result line per command line, flushed by the programs)

def _run_chunk(exe, lines, timeout):
    """-> ({id: rest}, [(id, rc, stderr_tail)])  - a crash is attributed to the first command without a result"""
    out, crashes = {}, []
    todo = list(lines)
    while todo:
        try:
            p = subprocess.run([exe], input=("\n".join(todo) + "\n").encode(), stdout=subprocess.PIPE,
                               stderr=subprocess.PIPE, timeout=timeout)
            rc, so, se = p.returncode, p.stdout, p.stderr
        except subprocess.TimeoutExpired as e:
            rc, so, se = 124, e.stdout or b"", e.stderr or b""
        got = 0
        for l in so.decode("utf-8", "replace").split("\n"):
            if not l:
                continue
            i = l.find(" ")
            if i < 0:
                continue
            out[l[:i]] = l[i + 1:]
            got += 1
        if rc == 0:
            break
        # first line whose id has no result crashed the process
        k = 0
        while k < len(todo) and todo[k].split(" ")[1] in out:
            k += 1
        if k >= len(todo):
            break
        crashes.append((todo[k].split(" ")[1], rc, se.decode("utf-8", "replace")[-1500:]))
        todo = todo[k + 1:]
    return out, crashes


def run_lines(exe, lines, nproc=core.NCPU, timeout=900):
    if not lines:
        return {}, []
    nproc = max(1, min(nproc, len(lines)))
    chunks = [lines[i::nproc] for i in range(nproc)]
    with ThreadPoolExecutor(nproc) as ex:
        res = list(ex.map(lambda ch: _run_chunk(exe, ch, timeout), chunks))
    out, crashes = {}, []
    for o, c in res:
        out.update(o)
        crashes += c
    return out, crashes


# --------------------------------------------------------------------------------------------------
# small helpers

def seqs_str(seqs):
    return ",".join("%d:%d:%d" % (o, l, m) for o, l, m in seqs) if seqs else "-"


def parse_seqs(s):
    if s == "-" or not s:
        return []
    return [tuple(int(v) for v in q.split(":")) for q in s.split(",")]


def parse_applied(tok):
    return {k: int(v) for k, v in (kv.split("=") for kv in tok.split(","))}


def adjust_ap(c, ap):
    """zstd-format dictionary: the code reports the size of the whole buffer as dictSize (ds_code); the history a decoder
    has is the content behind the header, which is what the model and the rules are given"""
    if ap is not None and c.get("dict_hs") and "ds_code" not in ap:
        ap = dict(ap)
        ap["ds_code"] = ap["ds"]
        ap["ds"] = max(0, ap["ds"] - c["dict_hs"]) if ap["ds"] else 0
    return ap


def lower_bound(mm, producer):
    return 3 if (mm == 3 or producer) else 4


def common_len(h, a, b, maxlen):
    """length of the common prefix of h[a:a+maxlen] and h[b:b+maxlen]"""
    n, step = 0, 32
    while n < maxlen:
        k = min(step, maxlen - n)
        if h[a + n:a + n + k] == h[b + n:b + n + k]:
            n += k
            step *= 2
        else:
            for i in range(k):
                if h[a + n + i] != h[b + n + i]:
                    return n + i
            return n + k
    return n


def offset_allowed(off, pos, W, D):
    """format rule at the start of a match (repaired ZSTD_validateSequence rule; equivalence with R's offset_ok is a theorem)"""
    if off < 1:
        return False
    return off <= (W if pos > W else pos + D)


def offset_too_far(off, pos, W, D):
    """the documented rejection rule: offset > min(window, position) + dictionary at the match start (offset 0 is not covered by it)"""
    return off > (W if pos > W else pos + D)


def resolve(ob, ll, rep):
    """decoder-side repeat-offset rule (doc/zstd_compression_format.md) -> (offset, new history) or None"""
    r1, r2, r3 = rep
    if ob > 3:
        return ob - 3, (ob - 3, r1, r2)
    idx = ob + 1 if ll == 0 else ob
    if idx == 1:
        return r1, rep
    if idx == 2:
        return r2, (r2, r1, r3)
    if idx == 3:
        return r3, (r3, r1, r2)
    if r1 <= 1:
        return None
    return r1 - 1, (r1 - 1, r1, r2)


def walk_rep(rep, seqs):
    """history after a compressed block given R's trace sequences (ll, ml, off, ofcode)"""
    for ll, ml, off, ofc in seqs:
        r1, r2, r3 = rep
        if ofc >= 2:
            rep = (off, r1, r2)
        elif ofc == 0:                       # offset value 1
            if ll != 0:
                pass
            else:
                rep = (r2, r1, r3)
        else:                                # offset value 2 or 3
            cands = []
            for ofv in (2, 3):
                r = resolve(ofv, ll, rep)
                if r and r[0] == off:
                    cands.append(r[1])
            if cands:
                rep = cands[0]
    return rep


# --------------------------------------------------------------------------------------------------
# parsers producing valid parses by construction

class Parser:
    """greedy / randomised LZ parser over x with optional dictionary content in front"""

    def __init__(self, rng, x, dct, W, minml):
        self.rng, self.x, self.dct, self.W, self.minml = rng, x, dct, W, max(3, minml)
        self.h = dct + x
        self.D = len(dct)
        self.tab = {}
        self.recent = []
        self.indexed = 0
        step = max(1, self.D // 3000)
        for i in range(0, max(0, self.D - 3), step):
            self.tab.setdefault(self.h[i:i + 3], []).append(i)
        self.indexed = self.D

    def _index_upto(self, absend):
        h, tab = self.h, self.tab
        i = self.indexed
        if absend - i > 200:                 # sparse inside long runs
            for j in list(range(i, i + 64)) + list(range(absend - 16, absend)):
                if j + 3 <= len(h):
                    l = tab.setdefault(h[j:j + 3], [])
                    l.append(j)
                    if len(l) > 6:
                        del l[0]
        else:
            for j in range(i, absend):
                if j + 3 <= len(h):
                    l = tab.setdefault(h[j:j + 3], [])
                    l.append(j)
                    if len(l) > 6:
                        del l[0]
        self.indexed = max(self.indexed, absend)

    def parse(self, start, end, style):
        """parse x[start:end) -> (list of (off, ll, ml), trailing literal count); matches never cross `end`"""
        rng, h, D, W = self.rng, self.h, self.D, self.W
        seqs = []
        pos, ll = start, 0
        p_match = style.get("p_match", 0.9)
        while pos < end:
            self._index_upto(D + pos)
            best = None
            if end - pos >= self.minml and rng.random() < p_match:
                cands = []
                for off in self.recent[:4]:
                    cands.append(off)
                    if ll == 0:
                        cands.append(off - 1)
                key = h[D + pos:D + pos + 3]
                for a in reversed(self.tab.get(key, [])):
                    cands.append(D + pos - a)
                if style.get("far") and pos + D > 8:
                    cands.append(rng.randint(1, pos + D))
                for off in cands:
                    if not offset_allowed(off, pos, W, D):
                        continue
                    L = common_len(h, D + pos, D + pos - off, end - pos)
                    if L >= self.minml and (best is None or L > best[1] or (style.get("rep_bias") and off in self.recent[:3] and L >= best[1] - 2)):
                        best = (off, L)
                        if style.get("first_hit"):
                            break
            if best:
                off, L = best
                mode = style.get("ml", "max")
                if mode == "rand":
                    ml = rng.randint(self.minml, L)
                elif mode == "short":
                    ml = min(L, self.minml + rng.randint(0, 3))
                else:
                    ml = L
                cap = style.get("cap")
                if cap:
                    ml = max(self.minml, min(ml, cap))
                seqs.append((off, ll, ml))
                if off in self.recent:
                    self.recent.remove(off)
                self.recent.insert(0, off)
                del self.recent[4:]
                pos += ml
                ll = 0
            else:
                pos += 1
                ll += 1
        return seqs, ll


def check_parse(x, dct, W, seqs, minml):
    """independent validity check of a delimiter-free parse -> None or text of the first problem"""
    h = dct + x
    D, n = len(dct), len(x)
    pos = 0
    for i, (off, ll, ml) in enumerate(seqs):
        pos += ll
        if ml < minml:
            return "seq %d: matchLength %d < %d" % (i, ml, minml)
        if pos + ml > n:
            return "seq %d: runs past the end of the source" % i
        if not offset_allowed(off, pos, W, D):
            return "seq %d: offset %d not allowed at position %d (W=%d D=%d)" % (i, off, pos, W, D)
        if common_len(h, D + pos, D + pos - off, ml) < ml:
            return "seq %d: bytes do not match (off %d pos %d ml %d)" % (i, off, pos, ml)
        pos += ml
    return None


def split_blocks(seqs):
    """explicit-delimiter list -> list of (block sequences, delimiter or None)"""
    blocks, cur = [], []
    for s in seqs:
        if s[0] == 0 and s[2] == 0:
            blocks.append((cur, s))
            cur = []
        else:
            cur.append(s)
    if cur:
        blocks.append((cur, None))
    return blocks


def structural_violation(seqs, delims, n, W, D, bs, lower):
    """the documented validation rules (position taken at the match start), evaluated with exact integers.
    -> None | text.  Only sequences lying inside the source are considered in delimiter-free mode."""
    pos = 0
    if delims:
        i = 0
        while pos < n:
            # find delimiter (first offset == 0)
            j = i
            blen = 0
            found = False
            while j < len(seqs):
                blen += seqs[j][1] + seqs[j][2]
                if seqs[j][0] == 0:
                    if seqs[j][2] != 0:
                        return "ill-formed delimiter at %d" % j
                    found = True
                    break
                j += 1
            if not found:
                return "missing delimiter"
            if blen > bs:
                return "block of %d > block size %d" % (blen, bs)
            if blen > n - pos:
                return "block of %d > remaining %d" % (blen, n - pos)
            for k in range(i, j):
                off, ll, ml = seqs[k]
                pos += ll
                if offset_too_far(off, pos, W, D):
                    return "offset %d beyond the history at match start %d" % (off, pos)
                if ml < lower:
                    return "matchLength %d < %d" % (ml, lower)
                pos += ml
            pos += seqs[j][1]
            i = j + 1
        return None
    for off, ll, ml in seqs:
        if pos >= n or pos + ll + ml > n:      # never reached / overruns the source: outside the documented scope
            return None
        pos += ll
        if offset_too_far(off, pos, W, D):
            return "offset %d beyond the history at match start %d" % (off, pos)
        if ml < lower:
            return "matchLength %d < %d" % (ml, lower)
        pos += ml
    return None


def has_wrap(seqs):
    return any(o + 3 >= M32 or l + m >= M32 for o, l, m in seqs)


# --------------------------------------------------------------------------------------------------
# case construction

STYLES = [dict(ml="max"), dict(ml="rand"), dict(ml="short", p_match=0.97), dict(ml="max", rep_bias=True),
          dict(ml="rand", rep_bias=True, first_hit=True), dict(ml="max", far=True), dict(ml="max", p_match=0.5),
          dict(ml="rand", cap=40, rep_bias=True)]


def base_params(rng, delims, validate, mm=None, wlog=None, mbs=None, ers=None, level=None):
    p = {"blockDelimiters": 1 if delims else 0, "validateSequences": 1 if validate else 0}
    p["minMatch"] = mm if mm is not None else rng.choice([3, 3, 4, 4, 5, 6, 7])
    p["windowLog"] = wlog if wlog is not None else rng.choice([10, 10, 11, 12, 14, 17, 17, 20])
    mbs = mbs if mbs is not None else rng.choice([0, 0, 1024, 1024, 1024, 4096, 65536])
    if mbs:
        p["maxBlockSize"] = mbs
    ers = ers if ers is not None else rng.choice([0, 1, 1, 2, 2])
    if ers:
        p["extRepSearch"] = ers
    p["level"] = level if level is not None else rng.choice([1, 3, 3, 7, 12, 19])
    if rng.random() < 0.3:
        p["checksum"] = 1
    if rng.random() < 0.15:
        p["contentSize"] = 0
    return p


class Cases:
    def __init__(self, ctx, rng):
        self.ctx, self.rng = ctx, rng
        self.cases = []

    def add(self, **kw):
        kw["id"] = "q%d" % len(self.cases)
        kw.setdefault("dict", b"")
        kw.setdefault("dictmode", "-")
        kw.setdefault("expect", "model")
        self.cases.append(kw)
        return kw


def gen_dict(rng, x, size):
    """raw-content dictionary sharing material with x"""
    out = bytearray()
    while len(out) < size:
        if x and rng.random() < 0.7:
            a = rng.randrange(len(x))
            out += x[a:a + rng.randint(8, 200)]
        else:
            out += rng.randbytes(rng.randint(4, 60))
    return bytes(out[:size])


def make_valid_parse(rng, c, ap):
    """fill c['seqs'] with a valid parse of c['x'] for the applied parameters ap"""
    x, dct = c["x"], (c.get("dict_content", c["dict"]) if c["dictmode"] != "-" else b"")
    W, bs, mm = 1 << ap["wl"], ap["bs"], ap["mm"]
    minml = max(mm, 3)
    if c.get("shortml"):
        minml = 3
    pr = Parser(rng, x, dct, W, minml)
    if c.get("dict_rep"):
        pr.recent = list(c["dict_rep"])
    style = c.get("style") or rng.choice(STYLES)
    n = len(x)
    if c["delims"]:
        seqs, pos = [], 0
        mode = c.get("blockmode") or rng.choice(["full", "full", "rand", "mixed"])
        while pos < n:
            if mode == "full":
                sz = min(bs, n - pos)
            elif mode == "rand":
                sz = min(rng.randint(1, bs), n - pos)
            else:
                sz = min(rng.choice([0, 1, 6, 7, 8, bs, bs, bs - 1, rng.randint(1, bs)]), n - pos)
            s, tail = pr.parse(pos, pos + sz, style)
            seqs += s
            seqs.append((0, tail, 0))
            pos += sz
        if rng.random() < 0.1:
            seqs.append((0, 0, 0))         # trailing empty block after the end: never reached
        c["seqs"] = seqs
        flat = merge_py(seqs)
    else:
        s, tail = pr.parse(0, n, style)
        c["seqs"] = s
        flat = s
    bad = check_parse(x, dct, W, flat, 3)
    if bad:
        raise RuntimeError("generator produced an invalid parse: " + bad)
    c["flat"] = flat


def merge_py(seqs):
    """reference for ZSTD_mergeBlockDelimiters written from its documentation (exact integers)"""
    out, carry = [], 0
    for off, ll, ml in seqs:
        if off == 0 and ml == 0:
            carry += ll
        else:
            out.append((off, ll + carry, ml))
            carry = 0
    return out


CORRUPTIONS = ["off+1", "off-1", "off=0", "off=big", "off=max", "off=bound+1", "off=bound", "ml-1", "ml+1", "ml=0", "ml=1", "ml=2", "ml=max",
               "ll+1", "ll-1", "ll=max", "dropdelim", "dupdelim", "insdelim", "delimll+1", "delimll-1", "delimml", "droplast", "dupseq", "truncate"]
# "off=dicthdr" (round 2) is applied to every case with a zstd-format dictionary, see derive_corruptions


def corrupt(rng, c, ap, how):
    """one corruption of a valid parse; returns the new list (or None if not applicable)"""
    seqs = list(c["seqs"])
    if not seqs:
        return None
    W, D = 1 << ap["wl"], ap["ds"]
    real = [i for i, s in enumerate(seqs) if not (s[0] == 0 and s[2] == 0)]
    dl = [i for i, s in enumerate(seqs) if s[0] == 0 and s[2] == 0]
    if how.startswith(("off", "ml", "ll")) or how in ("dupseq",):
        if not real:
            return None
        i = rng.choice(real)
        off, ll, ml = seqs[i]
        # position of the match start (exact integers)
        pos = sum(s[1] + s[2] for s in seqs[:i]) + ll
        bound = W if pos > W else pos + D
        if how == "off+1":
            off += 1
        elif how == "off-1":
            off -= 1
        elif how == "off=0":
            off = 0
        elif how == "off=big":
            off = rng.choice([W + 1, W + D + 1, pos + D + 1, 1 << 31, (1 << 31) - 1])
        elif how == "off=max":
            off = rng.choice([M32 - 1, M32 - 2, M32 - 3, M32 - 4])
        elif how == "off=bound+1":
            off = bound + 1
        elif how == "off=bound":
            off = max(1, bound)
        elif how == "off=dicthdr":
            # between the end of the dictionary CONTENT and the end of the dictionary BUFFER (its header is no history)
            if not c.get("dict_hs") or pos > W:
                return None
            off = bound + rng.choice([1, 1, c["dict_hs"], rng.randint(1, c["dict_hs"])])
        elif how == "ml-1":
            ml -= 1
        elif how == "ml+1":
            ml += 1
        elif how == "ml=0":
            ml = 0
        elif how == "ml=1":
            ml = 1
        elif how == "ml=2":
            ml = 2
        elif how == "ml=max":
            ml = rng.choice([M32 - 1, M32 - ll, (M32 - ll + ml) % M32, 1 << 31])
        elif how == "ll+1":
            ll += 1
        elif how == "ll-1":
            ll -= 1
        elif how == "ll=max":
            ll = rng.choice([M32 - 1, (M32 - ml) % M32, (M32 + ll - 0) % M32 + 0, M32 - ml + ll if ml > ll else M32 - 1])
        elif how == "dupseq":
            seqs.insert(i, seqs[i])
            return seqs
        if min(off, ll, ml) < 0 or max(off, ll, ml) >= M32:
            return None
        seqs[i] = (off, ll, ml)
        return seqs
    if how == "truncate":
        k = rng.randrange(len(seqs))
        return seqs[:k]
    if how == "droplast":
        return seqs[:-1]
    if not dl:
        if how == "insdelim":
            seqs.insert(rng.randrange(len(seqs) + 1), (0, 0, 0))
            return seqs
        return None
    i = rng.choice(dl)
    off, ll, ml = seqs[i]
    if how == "dropdelim":
        del seqs[i]
    elif how == "dupdelim":
        seqs.insert(i, seqs[i])
    elif how == "insdelim":
        seqs.insert(rng.randrange(len(seqs) + 1), (0, rng.choice([0, 0, 1]), 0))
    elif how == "delimll+1":
        seqs[i] = (0, ll + 1, 0)
    elif how == "delimll-1":
        if ll == 0:
            return None
        seqs[i] = (0, ll - 1, 0)
    elif how == "delimml":
        seqs[i] = (0, ll, rng.choice([1, 3, 4]))
    return seqs


# --------------------------------------------------------------------------------------------------
# the ZSTD_compressSequences tie

class Env:
    def __init__(self, ctx, variant="o1"):
        self.ctx = ctx
        self.variant = variant
        try:
            self.exe = core.build_harness("c17_seq", ["c17_seq.c"], variant=variant, extra_flags=["-w"])
            self.units = True
        except RuntimeError as e:
            core.log("c17_seq with unit-level commands does not build any more (%s); building without them" % str(e)[-300:])
            self.exe = core.build_harness("c17_seq", ["c17_seq.c"], variant=variant, extra_flags=["-w"], extra_defs=["-DC17_NO_UNITS"])
            self.units = False
        self.ml = core.build_extracted("c17model", "Extract/Extract_C17.v", "c17_driver.ml")
        self.cd = None
        self.reported = set()
        self.fixed = None        # which of the two modelled variants of the copiers the code implements
        self.f4_fixed = self.rep_fixed = self.wrap_fixed = None
        self.gfix = False

    def codec(self):
        if self.cd is None:
            self.cd = codec.Codec(self.ctx)
        return self.cd

    def impl(self, lines, timeout=900):
        return run_lines(self.exe, lines, timeout=timeout)

    def model(self, lines):
        out, crashes = run_lines(self.ml, lines, timeout=1200)
        if crashes:
            raise RuntimeError("extracted C17 model crashed: %r" % (crashes[:2],))
        return out

    def report(self, replay, what, key=None, no_input=False):
        """one report per (key or what-prefix)"""
        tag = key or what[:60]
        if tag in self.reported:
            return
        self.reported.add(tag)
        self.ctx.violation(replay, what=what, key=key, no_input=no_input)


def q_line(c):
    return "Q %s %s %s %s %s %s %d" % (c["id"], codec.params_str(c["params"]), c["dictmode"], codec.hx(c["dict"]) if c["dictmode"] != "-" else "-",
                                       seqs_str(c["seqs"]), codec.hx(c["x"]), c.get("cap", 0))


def a_line(c):
    return "A %s %s %s %s %d" % (c["id"], codec.params_str(c["params"]), c["dictmode"], codec.hx(c["dict"]) if c["dictmode"] != "-" else "-", len(c["x"]))


def model_q_line(c, ap, fixed, dec, tag=""):
    rep = c.get("dict_rep") or (1, 4, 8)
    return "Q %s%s %d %d %d 0 %d %d %d %d %d %d %d %d.%d.%d %s %s" % (
        c["id"], tag, ap["wl"], ap["mm"], ap["val"], ap["ds"], ap["maxnb"], 1 if fixed else 0, ap["delim"],
        1 if ap["ers"] == 1 else 0, ap["bs"], len(c["x"]), rep[0], rep[1], rep[2], dec or "-", seqs_str(c["seqs"]))


def parse_model_blocks(rest):
    t = rest.split(" ")
    if t[0] != "OK":
        return (t[0], int(t[1]) if len(t) > 1 else -1)
    blks = []
    if len(t) > 1 and t[1] != "-":
        for b in t[1].split("|"):
            size, lastll, tiny, last, rep, sq = b.split("/")
            seqs = [] if sq == "-" else [tuple(int(v) for v in q.split(".")) for q in sq.split(";")]
            blks.append(dict(size=int(size), lastLL=int(lastll), tiny=int(tiny), last=int(last),
                             rep=tuple(int(v) for v in rep.split(".")), seqs=seqs))
    return ("OK", blks)


def case_replay(c, extra=None):
    r = dict(kind="compressSequences", params=c["params"], dictmode=c["dictmode"], dict_hex=c["dict"].hex() if c["dictmode"] != "-" else "",
             seqs=seqs_str(c["seqs"])[:400000], input_hex=c["x"].hex()[:400000], origin=c.get("origin", ""))
    if c.get("dict_hs"):
        r["dict_hs"] = c["dict_hs"]
        r["dict_rep"] = list(c.get("dict_rep") or (1, 4, 8))
    if extra:
        r.update(extra)
    return r


def detect_rule(env):
    """which of the two modelled offset-validation rules does the code implement?  The F4 witness decides."""
    rng = random.Random(4)
    pat = rng.randbytes(50)
    x = (pat * 80)[:4000]
    par = codec.params_str({"blockDelimiters": 1, "validateSequences": 1})
    lines = ["Q f4 %s - - 50:0:100,100:0:3900,0:0:0 %s 0" % (par, x.hex()),
             "Q f4c %s - - 101:0:100,100:0:3900,0:0:0 %s 0" % (par, x.hex()),
             "Q f4n %s - - 50:0:100,100:0:3900 %s 0" % (codec.params_str({"validateSequences": 1}), x.hex())]
    out, crashes = env.impl(lines)
    acc = out.get("f4", "").startswith("OK")
    accn = out.get("f4n", "").startswith("OK")
    ctrl = out.get("f4c", "").startswith("ERR")
    env.f4_out = {k: v[-160:] for k, v in out.items()}
    env.f4_fixed = not (acc or accn)
    if acc or accn:
        env.report(dict(kind="compressSequences", params={"blockDelimiters": 1, "validateSequences": 1}, dictmode="-", dict_hex="",
                        seqs="50:0:100,100:0:3900,0:0:0", input_hex=x.hex(), observed=env.f4_out),
                   what="finding F4: with validateSequences=1 the sequence {off 50, ll 0, ml 100} at position 0 is accepted (offset bound computed "
                        "from the position after the match): result %s / delimiter-free %s; control {off 101} %s"
                        % (out.get("f4", "?")[-40:], out.get("f4n", "?")[-40:], out.get("f4c", "?")[:40]), key=KEY_F4)
    # second witness, independent of the first: offset 8 == initial repeat offset 3 at position 0, match of 3 bytes: even the
    # end-of-match position (3) gives a bound below 8; delimiter-free mode always substitutes repcodes
    x2 = rng.randbytes(100)
    parn = codec.params_str({"validateSequences": 1, "minMatch": 3})
    l2 = ["Q rp %s - - 8:0:3 %s 0" % (parn, x2.hex()), "Q rpc %s - - 9:0:3 %s 0" % (parn, x2.hex())]
    out2, _ = env.impl(l2)
    env.rep_fixed = not out2.get("rp", "").startswith("OK")
    if not env.rep_fixed:
        env.report(dict(kind="compressSequences", params={"validateSequences": 1, "minMatch": 3}, dictmode="-", dict_hex="",
                        seqs="8:0:3", input_hex=x2.hex(), observed={k: v[-120:] for k, v in out2.items()}),
                   what="with validateSequences=1 the sequence {off 8, ll 0, ml 3} at position 0 is accepted: the offset test is applied "
                        "to the code after repcode substitution (8 == initial repeat offset 3 -> repeat code), so a raw offset equal to a repeat "
                        "offset is never compared with the available history: result %s; control {off 9} %s" % (out2.get("rp", "?")[-40:], out2.get("rpc", "?")[:40]), key=KEY_REP)
    if not ctrl:
        env.report(dict(kind="compressSequences", seqs="101:0:100,100:0:3900,0:0:0", input_hex=x.hex(), params={"blockDelimiters": 1, "validateSequences": 1},
                        dictmode="-", dict_hex=""),
                   what="offset 101 at position 0 of a 4000-byte source accepted with validateSequences=1: %s" % out.get("f4c", "?")[:80])
    # third witness (does not crash): matchLength 2^32-6 + litLength 10 wraps to 4 in U32; with the size_t length test it is refused
    z = bytes(4000)
    out3, cr3 = env.impl(["Q wr %s - - 1:10:4294967290,0:3996:0 %s 0" % (par, z.hex())])
    env.wrap_fixed = out3.get("wr", "").startswith("ERR")
    if not env.wrap_fixed:
        env.report(dict(kind="compressSequences", params={"blockDelimiters": 1, "validateSequences": 1}, dictmode="-", dict_hex="",
                        seqs="1:10:4294967290,0:3996:0", input_hex=z.hex(), observed={k: v[-120:] for k, v in out3.items()}),
                   what="with validateSequences=1 the sequence {off 1, ll 10, ml 4294967290} in a 4000-byte source is accepted: litLength+matchLength "
                        "is added in 32 bits (wraps to 4); the variant {off 1, ll 4294967295, ml 5} makes ZSTD_storeSeq copy ~4 GiB (heap overflow): %s"
                        % out3.get("wr", str(cr3))[-60:], key=KEY_WRAP)
    env.fixed = bool(env.f4_fixed and env.rep_fixed and env.wrap_fixed)
    if not env.fixed and (env.f4_fixed or env.rep_fixed or env.wrap_fixed):
        core.log("validation only partly repaired (F4 %s, repcode %s, wrap %s): the model has the snapshot variant and the fully repaired one; "
                 "using the snapshot variant" % (env.f4_fixed, env.rep_fixed, env.wrap_fixed))
    return env.fixed


def run_q(env, cases, tierlabel=""):
    """run ZSTD_compressSequences cases through real code, R and the model; judge"""
    ctx = env.ctx
    if not cases:
        return
    out, crashes = env.impl([q_line(c) for c in cases])
    crashed = {i: (rc, err) for i, rc, err in crashes}
    # R on accepted frames
    rcases = []
    for c in cases:
        r = out.get(c["id"])
        c["real"] = None
        if c["id"] in crashed:
            c["real"] = ("CRASH", crashed[c["id"]])
            continue
        if r is None:
            c["real"] = ("MISSING",)
            continue
        t = r.split(" ")
        if t[0] == "OK":
            ap = adjust_ap(c, parse_applied(t[2]))
            c["real"] = ("OK", codec.unhx(t[1]), ap, t[3] if len(t) > 3 else "", t[4] if len(t) > 4 else "")
            fl = ["seqs", "w=%d" % (1 << 31)]
            if c["params"].get("format"):
                fl.append("magicless")
            if c["dictmode"] != "-" and not c.get("dict_hs"):
                fl.append("rawdict")
            rcases.append((c["id"], ",".join(fl), c["dict"] if c["dictmode"] != "-" else None, c["real"][1]))
        else:
            c["real"] = ("ERR", t[1], adjust_ap(c, parse_applied(t[2])) if len(t) > 2 else None)
    mres = env.codec().model(rcases) if rcases else {}
    # model, with the commit decisions read off R's trace
    mlines = []
    for c in cases:
        if c["real"][0] in ("CRASH", "MISSING"):
            ap = c.get("ap")
        else:
            ap = c["real"][2]
        c["ap2"] = ap
        if ap is None:
            continue
        dec = ""
        m = mres.get(c["id"])
        c["rtrace"] = None
        if m and m[0] == "OK":
            fr = codec.parse_trace(m[2])
            if len(fr) == 1 and fr[0]["kind"] == "zstd":
                c["rtrace"] = fr[0]
                dec = "".join("1" if b["type"] == 2 else "0" for b in fr[0]["blocks"] if b["rsize"] >= 7)
        mlines.append(model_q_line(c, ap, env.fixed, dec))
        if "ds_code" in ap:         # the code's own view of the dictionary size: tells finding KEY_DICTHDR from anything else
            mlines.append(model_q_line(c, dict(ap, ds=ap["ds_code"]), env.fixed, dec, tag="~h"))
        if not env.fixed:
            mlines.append(model_q_line(c, ap, True, dec, tag="~r"))          # the repaired rules
    mout = env.model(mlines)
    for c in cases:
        judge_q(env, c, mres.get(c["id"]), mout)


def judge_q(env, c, rres, mout):
    ctx = env.ctx
    real = c["real"]
    ap = c.get("ap2")
    x = c["x"]
    if ap is None:
        if real[0] == "CRASH":
            env.report(case_replay(c, dict(stderr=real[1][1][-800:])), what="c17_seq crashed (rc %s) in ZSTD_compressSequences: %s" % (real[1][0], real[1][1][-300:].replace("\n", " ")))
        return
    mod = parse_model_blocks(mout.get(c["id"], "MISSING"))
    altr = parse_model_blocks(mout.get(c["id"] + "~r", mout.get(c["id"], "MISSING")))

    def finding_key(want):
        """is a disagreement between the code and the documented rule explained by the modelled defects of the unrepaired
        validation (want = verdict of the repaired rules)?  F4 (end position) and the repcode bypass are told apart by
        whether the offending offset equals a repeat offset; both are reported under the F4 key unless the witness of the
        repcode bypass alone still fires"""
        if mod[0] == want or altr[0] != want:
            return None
        return KEY_REP if (env.f4_fixed and not env.rep_fixed) else KEY_F4
    W, D, bs = 1 << ap["wl"], ap["ds"], ap["bs"]
    lower = lower_bound(ap["mm"], False)
    wrap = has_wrap(c["seqs"])
    hdr_key = None
    if "ds_code" in ap and (c["id"] + "~h") in mout:
        mirror = parse_model_blocks(mout[c["id"] + "~h"])
        if mirror[0] != mod[0] and mirror[0] == ("OK" if real[0] == "OK" else "INVALID"):
            hdr_key = KEY_DICTHDR      # the code follows the model given the size of the whole dictionary buffer
    sig_extra = (c.get("origin", ""), ap["delim"], ap["val"], ap["ers"], c["dictmode"] != "-", min(ap["mm"], 5))
    # ---------- memory safety / crash
    if real[0] == "CRASH" and not ap["val"] and c["expect"] != "valid":
        # documented: without validation "invalid sequences cause undefined behavior"
        ctx.count(("crash-without-validation", mod[0]) + sig_extra, nontrivial=False)
        return
    if real[0] == "CRASH":
        key = KEY_WRAP if wrap else (KEY_OVERRUN if (mod[0] == "OOB" and mod[1] in (7, 8)) else None)
        env.report(case_replay(c, dict(stderr=real[1][1][-1200:], model=str(mod[:2])[:200])), key=key,
                   what="memory-safety: ZSTD_compressSequences crashed / sanitizer report (rc %s, validateSequences=%d, model says %s): %s"
                        % (real[1][0], ap["val"], mod[0], real[1][1][-400:].replace("\n", " ")))
        ctx.count(("crash", mod[0]) + sig_extra)
        return
    if real[0] == "MISSING":
        env.report(case_replay(c), what="no result line from c17_seq for a ZSTD_compressSequences case", no_input=True)
        return
    # ---------- class agreement model vs implementation
    if wrap and real[0] == "ERR":
        ctx.count(("wrap-rejected", real[1][:12]) + sig_extra)      # refusing a list whose 32-bit sums wrap is always right
        return
    wkey = KEY_WRAP if wrap else None
    if wrap and not ap["val"] and c["expect"] != "valid":
        # a field whose 32-bit sum wraps (offset 2^32-3 becomes code 0 ...), validation off: documented undefined behaviour
        ctx.count(("wrap-without-validation", real[0]) + sig_extra, nontrivial=False)
        return
    if mod[0] == "OOB":
        # undefined behaviour predicted: an error return is fine; anything else is reported (validation on) / ignored (validation off)
        if real[0] == "OK" and ap["val"]:
            env.report(case_replay(c, dict(model=str(mod))), key=KEY_WRAP if wrap else (KEY_OVERRUN if mod[1] in (7, 8) else None),
                       what="model predicts an out-of-bounds copy (site %s) with validateSequences=1 but the call returned success" % (mod[1],))
        ctx.count(("oob", real[0]) + sig_extra)
        return
    if mod[0] == "INVALID":
        if real[0] == "OK" and hdr_key:
            env.report(case_replay(c, dict(model=str(mod), applied=ap, decode=real[3:5])), key=hdr_key,
                       what="validateSequences=1 counts the HEADER of a zstd-format dictionary as history: dictionary of %d bytes = header %d + content %d, "
                            "list with an offset beyond the content accepted (the model given the content size refuses at site %d, given the buffer size it "
                            "accepts); decoding with a DDict: %s, with ZSTD_decompress_usingDict: %s"
                            % (ap["ds_code"], c["dict_hs"], ap["ds"], mod[1], real[3], real[4] if len(real) > 4 else "?"))
        elif real[0] == "OK":
            env.report(case_replay(c, dict(model=str(mod), applied=ap)), key=wkey,
                       what="correspondence: model rejects the list (site %d) but ZSTD_compressSequences accepted it (delims=%d validate=%d %s)"
                            % (mod[1], ap["delim"], ap["val"], c.get("origin", "")))
        elif real[1] != INVALID and mod[1] != 98:
            env.report(case_replay(c, dict(model=str(mod), error=real[1])),
                       what="correspondence: model predicts externalSequences_invalid (site %d), implementation returned %s" % (mod[1], real[1]))
        else:
            ctx.count(("reject", mod[1]) + sig_extra)
            ctx.cov["traces_validated_against_impl"] += 1
    elif mod[0] == "OK":
        if real[0] == "ERR":
            env.report(case_replay(c, dict(error=real[1], applied=ap)),
                       what="correspondence: model accepts the list but ZSTD_compressSequences returned %s (delims=%d validate=%d %s)"
                            % (real[1], ap["delim"], ap["val"], c.get("origin", "")))
        else:
            compare_blocks(env, c, rres, mod[1], ap, sig_extra)
    else:
        env.report(case_replay(c, dict(model=str(mod))), what="the extracted model produced no answer: %r" % (mod,), no_input=True)
    # ---------- direct oracle (property statement on the real code)
    if c["expect"] == "valid":
        ok = (real[0] == "OK" and real[3] == "d=ok" and rres and rres[0] == "OK" and rres[1] == x
              and not (len(real) > 4 and real[4].startswith("u=") and real[4] != "u=ok"))
        if not ok:
            key = None
            why = "?"
            if real[0] == "ERR":
                why = "refused with " + real[1]
                if c["dictmode"] == "prefix" and ap["val"]:
                    key = KEY_PREFIX
                elif (c.get("origin", "").startswith("generateSequences") and ap["val"] and c.get("gen_ldm_opt")
                      and any(q[0] and q[2] < lower for q in c["seqs"])):
                    # (round 3) the library's own parse contains a match below what ZSTD_validateSequence asks for the same parameters
                    key = KEY_GEN_LDM3
                    why += " (ZSTD_generateSequences with long-distance matching and an optimal-parser strategy returned matchLength %d, applied minMatch %d)" % (
                        min(q[2] for q in c["seqs"] if q[0]), ap["mm"])
                else:
                    key = finding_key("OK")
            elif real[3] != "d=ok":
                why = "libzstd decoding: " + real[3]
            elif len(real) > 4 and real[4].startswith("u=") and real[4] != "u=ok":
                why = "ZSTD_decompress_usingDict: " + real[4]
            elif not rres or rres[0] != "OK":
                why = "R rejects the frame: %s" % (rres[1:] if rres else "?",)
            else:
                why = "R decodes other bytes"
            env.report(case_replay(c, dict(applied=ap, result=why)), key=key,
                       what="valid parse does not round-trip through ZSTD_compressSequences (%s; delims=%d validate=%d dict=%s %s)"
                            % (why, ap["delim"], ap["val"], c["dictmode"], c.get("origin", "")))
    elif ap["val"] and c["expect"] == "corrupt":
        sv = structural_violation(c["seqs"], ap["delim"], len(x), W, D, bs, lower)
        if sv and real[0] == "OK":
            key = None
            if wrap:
                key = KEY_WRAP
            elif hdr_key:
                key = hdr_key
            else:
                key = finding_key("INVALID")
            env.report(case_replay(c, dict(applied=ap, rule=sv, decode=real[3])), key=key,
                       what="validateSequences=1 accepted a list with a structural violation (%s); decoding: %s" % (sv, real[3]))
        ctx.count(("oracle", "viol" if sv else "noviol", real[0]) + sig_extra)


def compare_blocks(env, c, rres, blks, ap, sig_extra):
    """accepted by both: per-block sequences of the frame (R's trace) vs the model's seqStores"""
    ctx = env.ctx
    real = c["real"]
    x = c["x"]
    tr = c.get("rtrace")
    valid = c["expect"] == "valid"
    if tr is None:
        if valid or (rres and rres[0] == "OK"):
            env.report(case_replay(c, dict(r=str(rres)[:300])), what="reference decoder R does not decode an accepted frame of a valid parse: %s" % (str(rres[:3])[:200] if rres else "?"))
        else:
            ctx.count(("accepted-undecodable",) + sig_extra, nontrivial=False)
        return
    tb = tr["blocks"]
    if len(x) == 0:
        ok = len(tb) == 1 and tb[0]["rsize"] == 0 and blks == []
        if not ok:
            env.report(case_replay(c), what="empty source: frame has blocks %r, model %r" % (tb, blks))
        ctx.count(("empty",) + sig_extra, nontrivial=False)
        return
    if [b["rsize"] for b in tb] != [b["size"] for b in blks]:
        env.report(case_replay(c, dict(frame_blocks=[b["rsize"] for b in tb][:50], model_blocks=[b["size"] for b in blks][:50], applied=ap)),
                   what="correspondence: block sizes of the frame differ from the model's (transcription / match splitting): frame %s model %s"
                        % ([b["rsize"] for b in tb][:12], [b["size"] for b in blks][:12]))
        return
    nsplit = 0
    shapes = set()
    for k, (t, b) in enumerate(zip(tb, blks)):
        if t["type"] != 2:
            shapes.add(("raw/rle", b["tiny"]))
            continue
        got = t["seqs"] or []
        exp = []
        rep = b["rep"]
        bad = None
        for ll, ml, ob in b["seqs"]:
            r = resolve(ob, ll, rep)
            if r is None:
                bad = "model code %d with history %r is not decodable" % (ob, rep)
                break
            exp.append((ll, ml, r[0], ob.bit_length() - 1))
            rep = r[1]
        if bad is None and [tuple(g) for g in got] != exp:
            j = next((i for i, (g, e) in enumerate(zip(got, exp)) if tuple(g) != e), min(len(got), len(exp)))
            bad = "block %d seq %d: frame %s model %s (n %d vs %d)" % (k, j, got[j] if j < len(got) else None, exp[j] if j < len(exp) else None, len(got), len(exp))
        if bad:
            env.report(case_replay(c, dict(applied=ap, detail=bad)),
                       what="correspondence: sequences of a compressed block differ from the model's seqStore (%s; delims=%d ers=%d)" % (bad, ap["delim"], ap["ers"]))
            return
        codes = set(min(ob, 4) * 2 + (ll == 0) for ll, ml, ob in b["seqs"])
        shapes.add(("cmp", len(codes), b["lastLL"] == 0))
    ctx.cov["traces_validated_against_impl"] += 1
    nb = len(blks)
    ctx.count(("accept", min(nb, 3), tuple(sorted(shapes))[:4]) + sig_extra, nontrivial=len(x) > 0)
    if len(x) < 80 and c["seqs"]:
        ctx.sample(dict(params=c["params"], seqs=seqs_str(c["seqs"]), input_hex=x.hex(), frame_hex=real[1].hex(), model_blocks=str(blks)[:300]))


# --------------------------------------------------------------------------------------------------
# case generation for the compressSequences tie

def build_q_cases(ctx, rng, env, scale):
    cs = Cases(ctx, rng)
    kinds = ["rep3", "rep3", "selfcopy", "text", "period", "zeros", "rle", "lowent", "mixed", "longdist"]

    def add_valid(kind, size, delims, validate, dictmode="-", dsize=0, **kw):
        x = codec.gen_input(rng, kind, size)
        pk = {k: kw.pop(k) for k in ("mm", "wlog", "mbs", "ers", "level") if k in kw}
        p = base_params(rng, delims, validate, **pk)
        d = gen_dict(rng, x, dsize) if dictmode != "-" else b""
        if kw.get("style", 0) is None:
            kw.pop("style")
        return cs.add(x=x, params=p, delims=delims, dict=d, dictmode=dictmode, expect="valid", origin="parser:" + kind, kind=kind, **kw)

    # --- corpus: boundary cases first
    for size in [0, 1, 2, 6, 7, 8, 100, 1023, 1024, 1025, 2047, 2048, 2049]:
        for delims in (0, 1):
            add_valid(rng.choice(["text", "rep3", "zeros"]), size, delims, 1, mbs=1024, wlog=10)
    for kind in ("zeros", "period", "rle"):           # matches far longer than a block: repeated splitting
        for mm in (3, 4, 7):
            add_valid(kind, rng.choice([5000, 9000]), 0, rng.choice([0, 1]), mbs=1024, mm=mm, wlog=rng.choice([10, 12]))
    for mm in (3, 4, 5, 6, 7):                        # split points around the minMatch adjustment
        add_valid("period", 1024 * 3 + rng.randint(0, 9), 0, 1, mbs=1024, mm=mm, wlog=17, style=dict(ml="rand"))
        add_valid("selfcopy", 6000, 0, 0, mbs=1024, mm=mm, wlog=17, style=dict(ml="max"))
    for ers in (1, 2):
        for delims in (0, 1):
            add_valid("rep3", 6000, delims, 1, ers=ers, mbs=1024, style=dict(ml="rand", cap=40, rep_bias=True, first_hit=True))
            add_valid("rep3", 3000, delims, 0, ers=ers, mbs=0, style=dict(ml="short", p_match=0.97, rep_bias=True))
    for dm in ("load", "cdict", "prefix"):
        for delims in (0, 1):
            for val in (0, 1):
                add_valid("text", 3000, delims, val, dictmode=dm, dsize=rng.choice([300, 2000]), wlog=rng.choice([10, 17]), mbs=1024)
    # round 2: dictionaries in zstd format (header with entropy tables and three repeat offsets, then the content); the content is
    # what a decoder has as history, the repeat offsets start the history of the first block
    for dm in ("load", "cdict", "loadref"):
        for delims in (0, 1):
            for rep in (None, (5, 17, 300), (2, 3, 100)):
                add_valid(rng.choice(["text", "rep3"]), rng.choice([600, 3000]), delims, 1, dictmode=dm, dsize=rng.choice([400, 2000]),
                          wlog=rng.choice([10, 17]), mbs=1024, fulldict=rep or (1, 4, 8),
                          style=dict(ml="rand", cap=40, rep_bias=True, first_hit=True) if rep else None)
    add_valid("zeros", 131072 + 5000, 0, 1, mbs=0, wlog=17, mm=4)      # match crossing the 128 KiB block edge
    add_valid("period", 131072 * 2 + 77, 0, 0, mbs=0, wlog=20, mm=3)
    add_valid("text", 140000, 1, 1, mbs=0, wlog=18, blockmode="full")
    # --- seeded volume
    nsmall, nmed = scale
    for _ in range(nsmall):
        size = rng.choice([rng.randint(1, 64), rng.randint(64, 1500), rng.randint(1500, 7000), rng.randint(1020, 1030), rng.randint(2040, 2056)])
        dm = rng.choice(["-", "-", "-", "load", "cdict"])
        add_valid(rng.choice(kinds), size, rng.choice([0, 1]), rng.choice([0, 1, 1]), dictmode=dm, dsize=rng.choice([64, 500, 3000]),
                  shortml=rng.random() < 0.15, fulldict=((1, 4, 8) if dm != "-" and rng.random() < 0.3 else None))
    for _ in range(nmed):
        size = rng.choice([20000, 40000, 65536, 70000])
        add_valid(rng.choice(kinds), size, rng.choice([0, 1]), rng.choice([0, 1]), mbs=rng.choice([0, 1024, 4096, 65536]))
    make_full_dicts(env, cs.cases)
    return cs.cases


def make_full_dicts(env, cases):
    """cases flagged fulldict=(r0,r1,r2): their raw content becomes a zstd-format dictionary (harness command D =
    ZDICT_finalizeDictionary) whose three repeat offsets are set to the given values"""
    todo = [c for c in cases if c.get("fulldict") and c["dictmode"] != "-" and len(c["dict"]) >= 64]
    for c in cases:
        if c.get("fulldict") and c not in todo:
            c["fulldict"] = None
    if not todo:
        return
    out, _ = env.impl(["D %s %s %d %d.%d.%d" % (c["id"], c["dict"].hex(), 1000 + k, c["fulldict"][0], c["fulldict"][1], c["fulldict"][2])
                       for k, c in enumerate(todo)])
    for c in todo:
        t = out.get(c["id"], "").split(" ")
        if len(t) < 3 or t[0] != "OK":
            env.report(dict(kind="dict", content_hex=c["dict"].hex()[:4000], result=" ".join(t)[:200]),
                       what="ZDICT_finalizeDictionary failed on a %d-byte content: %s" % (len(c["dict"]), " ".join(t)[:100]), no_input=True)
            c["fulldict"] = None
            continue
        full = codec.unhx(t[1])
        hs = int(t[2][3:])
        c["dict_content"] = full[hs:]
        c["dict"] = full
        c["dict_hs"] = hs
        c["dict_rep"] = tuple(c["fulldict"])
        # the source starts with short copies at the dictionary's repeat offsets: first block of a frame using them as repeat codes
        h = bytearray(c["dict_content"])
        order = list(c["dict_rep"])
        env_rng = random.Random(len(full) * 31 + hs)
        env_rng.shuffle(order)
        for r in order:
            if env_rng.random() < 0.5:
                h += env_rng.randbytes(1)
            for _ in range(env_rng.randint(4, 12)):
                h.append(h[len(h) - r])
        c["x"] = bytes(h[len(c["dict_content"]):]) + c["x"]


def finish_parses(env, rng, cases):
    """applied parameters from the real code, then parses"""
    out, crashes = env.impl([a_line(c) for c in cases])
    good = []
    for c in cases:
        r = out.get(c["id"], "")
        if not r.startswith("OK"):
            env.report(dict(kind="init", params=c["params"], result=r), what="ZSTD_CCtx_init_compressStream2 failed for an accepted parameter set: %s" % r[:100], no_input=True)
            continue
        c["ap"] = adjust_ap(c, parse_applied(r.split(" ")[1]))
        if c.get("shortml") and c["ap"]["mm"] > 3:
            c["expect"] = "model"      # matches shorter than minMatch: documented as the caller's obligation; model agreement only
        make_valid_parse(rng, c, c["ap"])
        good.append(c)
    return good


def derive_corruptions(rng, cases, per_case, idbase):
    res = []
    pool = [c for c in cases if c["seqs"] and len(c["x"]) <= 8000]
    for c in pool:
        hows = rng.sample(CORRUPTIONS, min(per_case, len(CORRUPTIONS)))
        if c.get("dict_hs"):
            hows = ["off=dicthdr", "off=dicthdr", "off=bound"] + hows
        for how in hows:
            s = corrupt(rng, c, c["ap"], how)
            if s is None or s == c["seqs"]:
                continue
            p = dict(c["params"])
            if rng.random() < 0.85 or how == "off=dicthdr":
                p["validateSequences"] = 1
            d = dict(c)
            d.update(id="%s%d" % (idbase, len(res)), seqs=s, params=p, expect="corrupt" if p["validateSequences"] else "model",
                     origin="corrupt:" + how)
            d.pop("real", None)
            res.append(d)
    return res


# --------------------------------------------------------------------------------------------------
# ZSTD_generateSequences / ZSTD_mergeBlockDelimiters

def _lz_source(rng, n):
    """source with LZ structure: literal runs over a small alphabet and copies at repeat / near / far offsets"""
    x = bytearray()
    rep = [1, 4, 8]
    alpha = rng.choice([4, 40, 256])
    while len(x) < n:
        if not x or rng.random() < 0.35:
            x += bytes(rng.randrange(alpha) for _ in range(rng.randint(1, 12)))
        else:
            c = rng.randrange(10)
            off = rep[rng.randrange(3)] if c < 4 else (rep[0] + 1 if c < 5 else (rng.randint(1, 32) if c < 7 else rng.randint(1, len(x))))
            off = min(max(off, 1), len(x))
            ln = rng.randint(3, 600) if rng.random() < 0.2 else rng.randint(3, 14)
            for _ in range(ln):
                x.append(x[len(x) - off])
            if off != rep[0]:
                rep = [off, rep[0], rep[1]]
    return bytes(x[:n])


# 1743 bytes on which ZSTD_generateSequences (windowLog 10, btultra, long-distance matching with ldmMinMatch 4 / ldmHashLog 6, applied
# minMatch 4) returns {off 27, ll 0, ml 3} as entry 20 of its second block (found by build/wip/C17r3/hunt.c, minimised by min1.py)
LDM3_WITNESS_HEX = (
    "020201000303000303000301030003010300030103000103020202020202020202020202020202020202020202020203000300000301020202020203"
    "000300000301020202020203000300000301020202020203000300000301020202020203000300000301020202020203000300000301020202020203"
    "000300000301020202020203000300000301020202020203000300000301020202020203000300000301020202020203000300000301020202020203"
    "000300000301020202020203000300000301020202020203000300000301020202020203000300000301020202020203000300000301020202020203"
    "000300000301020202020203000300000301020202020203000300000301020202020203000300000301020202020203000300000301020202020203"
    "000300000301020202020203000300000301020202020203000300000301020202020203000300000301020202020203000300000301020202020203"
    "000300000301020202020203000300000301020202020203000300000301020202020203000300000301020202020203000300000301020202020203"
    "000300000301020202020203000300000301020202020203000300000301020202020203000300000301020202020203000300000301020202030102"
    "020202020300030000030202030003000003020203000300000302020300030000030202030003000003020203000300000302020300030000030202"
    "030003000003020203000300000302020300030000030202030003000003020203000300000302020300030000030202030003000003020203000300"
    "000302020300030000030202030003000003020203000300000302020300030000030202030003000003020203000300000302020300030000030202"
    "030003000003020203000300000302020300030000030202030003000003020203000300000302020300030000030202030003000003020203000300"
    "000302020300030000030202030003000003020203000300000302020300030000030202030003000003020203000300000302020300030000030202"
    "030003000003020203000300000302020300030000030202030003000003020203000300000302020203000302030302030201030300000300000302"
    "020300030000030202020300030203030203020103030000030000030202030003000003020202030003020303020302010303000003000003020203"
    "000300000302020203000302030302030201030300000300000302020300030000030202020300030203030203020103030000030000030202030003"
    "000003020202030003020303020302010303000003000003020203000300000302020203000302030302030201030300000300000302020300030000"
    "030202020300030203030203020103030000030000030202030003000003020202030003020303020302010303000003000003020203000300000302"
    "020203000302030302030201030300000300000302020300030000030202020300030203030203020103030000030000030202030003000003020202"
    "030003020303020302010303000003000003020203000300000302020203000302030302030201030300000300000302020300030000030202020300"
    "030203030203020103030000030000030202030003000003020202030003020303020302010303000003000003020203000300000302020203000302"
    "030302030201030300000300000302020300030000030202020300030203030203020103030000030000030202030003000003020202030003020303"
    "020302010303000003000003020203000300000302020203000302030302030201030300000300000302020300030000030202020300030203030203"
    "020103030000030000030202030003000003020202030003020303020302010303000003000003020203000002020201020001000100000300010200"
    "020100000300010200020100000300010200020100000300010200020100000300010200020100000300010200020100000300010200020100000300"
    "010200020100000300010200020100000300010200020100000300010200020100000300010200020100000300010200020100000300010200020100"
    "000300010200020100000300010200020100000300010200020100000300010200020100000300010200020100000300010200020100000300010200"
    "020100000300010200020100000300010200020100000001020002010103020302030001020202030001000203020201020303000103020201010002"
    "030001020103020201010101000201010101020000000300010303010002030003030302000303020302020200030102030002020303020101020302"
    "000200"
)


def run_generate(env, rng, n):
    ctx = env.ctx
    gens = []
    for i in range(n):
        kind = rng.choice(["text", "rep3", "selfcopy", "period", "mixed", "lowent", "zeros", "longdist"])
        size = rng.choice([0, 1, 50, 1000, 5000, 20000, 40000, 131072 + 300, 70000])
        if i < 3:
            size = [131072 + 300, 20000, 5000][i]
        x = codec.gen_input(rng, kind, size)
        p = {"level": rng.choice([1, 3, 5, 7, 12, 16, 19]), "minMatch": rng.choice([3, 4, 5, 6]), "windowLog": rng.choice([10, 12, 17, 20])}
        if rng.random() < 0.4:
            p["maxBlockSize"] = rng.choice([1024, 4096, 65536])
        if rng.random() < 0.3:
            p["blockSplitter"] = rng.choice([1, 2])
        gens.append(dict(id="g%d" % i, x=x, params=p, kind=kind, dict=b"", dictmode="-"))
    # (round 3) long-distance matching, strategy overrides and raw-content dictionaries: the parse ZSTD_generateSequences
    # returns must be accepted back by ZSTD_compressSequences with the same parameters, validation on and off
    nx = max(8, n // 2) if env.ctx.quick else n
    for i in range(nx):
        kind = rng.choice(["text", "rep3", "selfcopy", "mixed", "lowent", "longdist", "lz"])
        size = rng.choice([700, 1800, 5000, 5000, 20000]) + rng.randint(0, 40)
        x = _lz_source(rng, size) if kind == "lz" else codec.gen_input(rng, kind, size)
        p = {"level": rng.choice([1, 3, 3, 5, 7]), "windowLog": rng.choice([10, 10, 12, 17, 20])}
        if rng.random() < 0.5:
            p["minMatch"] = rng.choice([3, 4, 5, 6, 7])
        if rng.random() < 0.7:
            p["strategy"] = rng.choice([1, 2, 3, 4, 5, 6, 7, 8, 9, 7, 8, 9])
        ldm = rng.random() < 0.7
        if ldm:
            p.update(ldm=1, ldmMinMatch=rng.choice([4, 4, 4, 5, 8, 16]), ldmHashLog=rng.choice([6, 6, 7, 10]), ldmHashRateLog=rng.choice([0, 0, 1, 2]))
        if rng.random() < 0.4:
            p["maxBlockSize"] = rng.choice([1024, 2048, 4096])
        if rng.random() < 0.3:
            p["chainLog"] = rng.choice([6, 10])
        dm = rng.choice(["-", "-", "load", "cdict"])
        d = gen_dict(rng, x, rng.choice([60, 300, 3000])) if dm != "-" else b""
        gens.append(dict(id="gx%d" % i, x=x, params=p, kind=kind, dict=d, dictmode=dm, ldm_opt=bool(ldm)))
    # directed: the minimised witness of finding KEY_GEN_LDM3 (btultra + LDM, applied minMatch 4: entry {off 27, ll 0, ml 3})
    gens.append(dict(id="gw0", x=bytes.fromhex(LDM3_WITNESS_HEX), params={"windowLog": 10, "strategy": 8, "ldm": 1, "ldmMinMatch": 4, "ldmHashLog": 6},
                     kind="witness", dict=b"", dictmode="-", ldm_opt=True))
    lines = []
    for g in gens:
        dh = codec.hx(g["dict"]) if g["dictmode"] != "-" else "-"
        lines.append("G %s %s %s %s %s 0 0" % (g["id"], codec.params_str(g["params"]), g["dictmode"], dh, codec.hx(g["x"])))
        lines.append("G %sm %s %s %s %s 1 0" % (g["id"], codec.params_str(g["params"]), g["dictmode"], dh, codec.hx(g["x"])))
    out, crashes = env.impl(lines)
    for i, rc, err in crashes:
        env.report(dict(kind="generateSequences", id=i, stderr=err[-800:]), what="c17_seq crashed in ZSTD_generateSequences: %s" % err[-300:].replace("\n", " "))
    qcases, mlines = [], []
    for g in gens:
        r, rm = out.get(g["id"], ""), out.get(g["id"] + "m", "")
        if not r.startswith("OK") or not rm.startswith("OK"):
            # documented: "not guaranteed to succeed, there are several cases where it will give up and fail" (e.g. a block < 7 bytes)
            ctx.count(("generate-gave-up", (r or rm)[:40]), nontrivial=False)
            ctx.notes["generate_gave_up"] = ctx.notes.get("generate_gave_up", 0) + 1
            continue
        full = [tuple(int(v) for v in q.split(":")) for q in r.split(" ")[1].split(",")] if r.split(" ")[1] != "-" else []
        merged = [tuple(int(v) for v in q.split(":")) for q in rm.split(" ")[1].split(",")] if rm.split(" ")[1] != "-" else []
        ap = parse_applied(r.split(" ")[2])
        s3 = [q[:3] for q in full]
        m3 = [q[:3] for q in merged]
        g["full"], g["merged"] = s3, m3
        W = 1 << ap["wl"]
        # (validated per run) the library's own extracted sequences are a valid parse of x
        bad = check_parse(g["x"], g["dict"], W, merge_py(s3), 3)
        tot = sum(l + m for o, l, m in s3)
        if bad or tot != len(g["x"]):
            env.report(dict(kind="generateSequences", params=g["params"], input_hex=g["x"].hex()[:200000], seqs=seqs_str(s3)[:100000], problem=bad or "lengths sum to %d" % tot),
                       what="ZSTD_generateSequences output is not a valid parse of its input: %s" % (bad or "lengths sum to %d, source has %d" % (tot, len(g["x"]))))
            continue
        if m3 != merge_py(s3):
            env.report(dict(kind="mergeBlockDelimiters", seqs=seqs_str(s3)[:100000], got=seqs_str(m3)[:100000]),
                       what="ZSTD_mergeBlockDelimiters on generated sequences differs from its documented result")
        mlines.append("M %s %s" % (g["id"], seqs_str(s3)))
        # the `rep` field must describe the offset w.r.t. the running history
        ctx.count(("generate", g["kind"], min(len(s3), 3), ap["mm"]), nontrivial=len(s3) > 1)
        for delims, lst in ((1, s3), (0, m3)):
            for val in (1, 0):
                p = dict(g["params"])
                p.update(blockDelimiters=delims, validateSequences=val)
                if rng.random() < 0.5:
                    p["extRepSearch"] = rng.choice([1, 2])
                p.pop("ldm", None)          # long-distance matching plays no part in ZSTD_compressSequences; the other parameters stay
                for k in ("ldmMinMatch", "ldmHashLog", "ldmHashRateLog"):
                    p.pop(k, None)
                qcases.append(dict(id="%s_%d%d" % (g["id"], delims, val), x=g["x"], params=p, delims=delims, dict=g["dict"], dictmode=g["dictmode"],
                                   seqs=lst, expect="valid", origin="generateSequences" + ("+merge" if not delims else ""), kind=g["kind"],
                                   gen_ldm_opt=g.get("ldm_opt", False)))
    mout = env.model(mlines)
    for g in gens:
        if "full" in g and g["id"] in mout:
            mm = parse_seqs(mout[g["id"]].split(" ")[1])
            if mm != g["merged"]:
                env.report(dict(kind="mergeBlockDelimiters", seqs=seqs_str(g["full"])[:100000], model=seqs_str(mm)[:50000], got=seqs_str(g["merged"])[:50000]),
                           what="correspondence: ZSTD_mergeBlockDelimiters differs from merge_delims of the model")
            else:
                ctx.cov["traces_validated_against_impl"] += 1
    # output capacity: exactly enough succeeds with the same list, one less is refused (never written past the array:
    # the harness allocates exactly outcap entries, visible to the sanitizer build)
    clines = []
    for g in gens:
        if "full" in g and len(g["full"]) >= 2:
            k = len(g["full"])
            dh = codec.hx(g["dict"]) if g["dictmode"] != "-" else "-"
            clines.append("G %sx %s %s %s %s 0 %d" % (g["id"], codec.params_str(g["params"]), g["dictmode"], dh, codec.hx(g["x"]), k))
            clines.append("G %sy %s %s %s %s 0 %d" % (g["id"], codec.params_str(g["params"]), g["dictmode"], dh, codec.hx(g["x"]), k - 1))
    cout, ccr = env.impl(clines)
    for i, rc, err in ccr:
        env.report(dict(kind="generateSequences", id=i, stderr=err[-800:]), what="c17_seq crashed in ZSTD_generateSequences with a small output array: %s" % err[-300:].replace("\n", " "))
    for g in gens:
        if "full" in g and len(g["full"]) >= 2 and g["id"] + "x" in cout:
            a, b = cout.get(g["id"] + "x", ""), cout.get(g["id"] + "y", "")
            ok = a.startswith("OK") and [q[:3] for q in ([tuple(int(v) for v in q.split(":")) for q in a.split(" ")[1].split(",")])] == g["full"]
            if not ok or not b.startswith("ERR"):
                env.report(dict(kind="generateSequences", params=g["params"], input_hex=g["x"].hex()[:200000], exact=a[:200], one_less=b[:200]),
                           what="ZSTD_generateSequences output capacity: with exactly %d entries %s, with one less %s" % (len(g["full"]), a[:40], b[:60]))
            else:
                ctx.count(("generate-capacity", min(len(g["full"]), 3)), nontrivial=True)
    return qcases


def run_merge_random(env, rng, n):
    """ZSTD_mergeBlockDelimiters alone on arbitrary lists (incl. leading / consecutive / trailing delimiters, wrap)"""
    lines, mlines, keep = [], [], {}
    for i in range(n):
        k = rng.choice([0, 1, 2, 3, 5, 9, 30])
        s = []
        for _ in range(k):
            r = rng.random()
            if r < 0.4:
                s.append((0, rng.choice([0, 0, 1, 7, 100, M32 - 1, M32 - 5]), 0))
            else:
                s.append((rng.choice([0, 1, 5, 1000, M32 - 1]), rng.choice([0, 1, 9, 65536, M32 - 1]), rng.choice([0, 3, 4, 100, M32 - 1])))
        keep["m%d" % i] = s
        lines.append("M m%d %s" % (i, seqs_str(s)))
        mlines.append("M m%d %s" % (i, seqs_str(s)))
    out, crashes = env.impl(lines)
    mout = env.model(mlines)
    for i, s in keep.items():
        a, b = out.get(i, "?"), mout.get(i, "?")
        if a != b:
            env.report(dict(kind="mergeBlockDelimiters", seqs=seqs_str(s), got=a, model=b), what="correspondence: ZSTD_mergeBlockDelimiters %s vs model %s on %s" % (a[:80], b[:80], seqs_str(s)[:120]))
        else:
            env.ctx.count(("merge", len(s) > 0, any(q[0] == 0 and q[2] == 0 for q in s), len(s) > 1 and s[-1][0] == 0), nontrivial=len(s) > 0)


# --------------------------------------------------------------------------------------------------
# unit-level ties (direct calls of the static functions)

def detect_gen_rule(env):
    """ZSTD_copyBlockSequences: is the history updated with the truncated 16-bit litLength (as found) or the corrected one?"""
    if not env.units:
        return
    out, _ = env.impl(["U gk k 1.4.8 0 65536.4.2;1.4.1"])
    r = out.get("gk", "")
    # sequence 1: 65536 literals, repeat code 2 -> offset 4, history (4,1,8); sequence 2: repeat code 1 -> offset 4
    if r.startswith("OK 4:65536:4:2,4:1:4:1"):
        env.gfix = True
    elif r.startswith("OK 4:65536:4:2,8:1:4:1"):
        env.gfix = False
        env.report(dict(kind="unit", line="U gk k 1.4.8 0 65536.4.2;1.4.1", got=r),
                   what="ZSTD_copyBlockSequences (ZSTD_generateSequences): a sequence with litLength == 65536 updates the repcode history as if "
                        "litLength were 0 (the truncated 16-bit seqDef field is tested): seqStore {ll 65536, ml 4, repcode 2}, {ll 1, ml 4, repcode 1} "
                        "with history 1/4/8 yields offsets 4, 8 instead of 4, 4: %s" % r[:80], key=KEY_GEN)
    else:
        env.report(dict(kind="unit", line="U gk k 1.4.8 0 65536.4.2;1.4.1", got=r), what="ZSTD_copyBlockSequences probe: unexpected answer %s" % r[:100], no_input=True)


def run_units(env, rng, n):
    if not env.units:
        return
    ctx = env.ctx
    lines = []
    vals = [0, 1, 2, 3, 4, 5, 7, 8, 9, 50, 1023, 1024, 1025, 1027, 1028, 4096, 65535, 65536, 131072, (1 << 31) - 1, 1 << 31, M32 - 4, M32 - 3, M32 - 2, M32 - 1]
    for i in range(n):
        wl = rng.choice([10, 10, 12, 17, 27, 31])
        W = 1 << wl
        mm = rng.choice([3, 4, 5, 7])
        pr = rng.choice([0, 0, 1])
        ds = rng.choice([0, 0, 1, 100, 5000, 1 << 20])
        pos = rng.choice([0, 1, 2, 50, W - 1, W, W + 1, W + 2, 2 * W, rng.randrange(4 * W)])
        bound = W if pos > W else pos + ds
        ob = rng.choice([bound + 3, bound + 4, bound + 2, bound, bound + 1, 0, 1, 2, 3, 4, rng.choice(vals), rng.randrange(1, bound + 10)])
        ob = min(ob, M32 - 1)
        ml = rng.choice([0, 1, 2, 3, 4, 5, 100, M32 - 1])
        lines.append("U v%d v %d %d %d %d %d %d %d" % (i, wl, mm, pr, ds, ob, ml, pos))
    for i in range(n):
        reps = [rng.choice([1, 2, 4, 8, 9, 50, 51, 1000, M32 - 1]) for _ in range(3)]
        if rng.random() < 0.3:
            reps[rng.randrange(3)] = reps[rng.randrange(3)]
        raw = rng.choice(reps + [reps[0] - 1, reps[0] + 1, reps[1] - 1, rng.choice(vals), max(1, reps[0] - 1)])
        raw = max(0, min(raw, M32 - 1))
        ll0 = rng.choice([0, 1])
        if (raw + 3) % M32 == 0:
            ll0 = 1       # offBase wraps to 0: with ll0 == 0 ZSTD_updateRep indexes rep[0xFFFFFFFF] (outside the contract of the static function: the process dies)
        lines.append("U f%d f %d %d.%d.%d %d" % (i, raw, reps[0], reps[1], reps[2], ll0))
    for i, sz in enumerate([0, 1, 2, 3, 5, 6, 1023, 1024, 1025, 3071, 3072, 131071, 131072, 131073, 1000000, M32 - 1] + [rng.randrange(1 << 22) for _ in range(20)]):
        lines.append("U b%d b %d" % (i, sz))
    ppbuf = {}
    for i in range(n // 2):
        cap = rng.choice([1, 2, 3, 5, 8])
        k = rng.randint(0, cap)
        s = [(rng.choice([0, 5, 9]), rng.choice([0, 1, 7]), rng.choice([0, 0, 3, 4])) for _ in range(k)]
        nb = rng.choice([k, k, k, 0, cap, cap + 1, M32, (1 << 64) - 1, max(0, k - 1)])
        src = rng.choice([0, 0, 1, 100])
        if nb <= cap and nb > k:
            s = s + [(0, 0, 0)] * (nb - k)       # calloc'ed buffer content
        lines.append("U p%d p %d %d %d %s" % (i, nb, cap, src, seqs_str(s)))
    kcases = {}
    for i in range(n // 2):
        k = rng.choice([0, 1, 2, 3, 6, 20])
        rep = [rng.choice([1, 2, 4, 8, 9, 50, 1000]) for _ in range(3)]
        st = []
        longused = False
        for _ in range(k):
            ll = rng.choice([0, 0, 1, 5, 300])
            ml = rng.choice([3, 4, 5, 100, 65538])
            if not longused and rng.random() < 0.1:
                if rng.random() < 0.5:
                    ll = rng.choice([65536, 70000, 131071])
                else:
                    ml = rng.choice([65539, 65540, 131074])
                longused = True
            elif ml > 65538 or ll > 65535:
                ml, ll = 7, 2
            ob = rng.choice([1, 2, 3, 1, 2, 3, 4, 5, 12, 1003, 65539])
            st.append((ll, ml, ob))
        lines.append("U k%d k %d.%d.%d %d %s" % (i, rep[0], rep[1], rep[2], rng.choice([0, 0, 3, 70000]), ";".join("%d.%d.%d" % t for t in st) if st else "-"))
    out, crashes = env.impl(lines)
    for i, rc, err in crashes:
        env.report(dict(kind="unit", id=i, stderr=err[-600:]), what="c17_seq unit command crashed: %s" % err[-200:].replace("\n", " "), no_input=True)
    mlines = []
    for l in lines:
        t = l.split(" ")
        if t[2] == "v":
            mlines.append(" ".join(t[:3] + ["1" if env.fixed else "0"] + t[3:]))
        elif t[2] in ("f", "b"):
            mlines.append(l)
        elif t[2] == "k":
            mlines.append("G %s %d %s %s %s" % (t[1], 1 if env.gfix else 0, t[3], t[4], t[5]))
        elif t[2] == "p":
            nbv, capv = int(t[3]), int(t[4])
            mlines.append("PP %s %d %s %s %s" % (t[1], nbv if nbv <= capv else capv + 1, t[4], t[5], t[6]))
    mout = env.model(mlines)
    for l in lines:
        t = l.split(" ")
        i = t[1]
        a, b = out.get(i), mout.get(i)
        if a is None:
            continue
        if t[2] == "f" and b and b.startswith("0 ") and t[5] == "0":
            continue      # offBase wrapped to 0 and ll0 == 0: ZSTD_updateRep indexes rep[0xFFFFFFFF] (undefined)
        if a != b:
            env.report(dict(kind="unit", line=l, got=a, model=b),
                       what="correspondence (unit level, %s): real %s vs model %s for '%s'" % (
                           {"v": "ZSTD_validateSequence", "f": "ZSTD_finalizeOffBase+ZSTD_updateRep", "b": "ZSTD_sequenceBound",
                            "p": "ZSTD_postProcessSequenceProducerResult", "k": "ZSTD_copyBlockSequences"}[t[2]], a[:80], (b or "?")[:80], l[:120]))
        else:
            ctx.count(("unit", t[2], a[:12]), nontrivial=True)
            ctx.cov["traces_validated_against_impl"] += 1


# --------------------------------------------------------------------------------------------------
# external sequence producer through ZSTD_compress2

def producer_huge_lengths(env):
    """fixed corpus: a registered producer whose reported lengths reach or pass 2^32 (a wrapped trailing literal count,
    a literals-only block of 0xFFFFFFFF, two matches of 2^31): ZSTD_compress2 must come back - an error code, or with the
    fallback a frame that decodes to the source - never crash"""
    x = (b"abcdefgh" * 600)[:4096]
    scripts = ["S8:32:40,0:4294967280:0", "S0:4294967295:0,0:1:0", "S8:32:40,0:4294967295:0", "S8:32:40,8:0:2147483648,8:0:2147483648,0:4024:0",
               "S8:4294967295:40,0:4024:0", "S8:32:4294967295,0:4024:0"]
    lines, meta = [], {}
    for fb in (0, 1):
        for val in (0, 1):
            for j, sc in enumerate(scripts):
                p = {"level": 1, "maxBlockSize": 4096, "windowLog": 12, "minMatch": 4, "validateSequences": val, "seqProducerFallback": fb, "blockSplitter": 2}
                i = "h%d.%d.%d" % (fb, val, j)
                meta[i] = (p, sc)
                lines.append("P %s %s %s %s 0" % (i, codec.params_str(p), sc, codec.hx(x)))
    out, crashes = env.impl(lines)
    for i, rc, err in crashes:
        p, sc = meta.get(i, ({}, "?"))
        env.report(dict(kind="producer", params=p, script=sc, input_hex=x.hex(), rc=rc, stderr=str(err)[-400:]),
                   "ZSTD_compress2 with a sequence producer reporting lengths that pass 2^32 (%s, fallback %s, validate %s) did not come back: harness terminated with status %s"
                   % (sc, p.get("seqProducerFallback"), p.get("validateSequences"), rc), key=None)
    for i, (p, sc) in meta.items():
        r = out.get(i)
        if r is None:
            continue
        t = r.split(" ")
        if t[0] == "OK" and "d=ok" not in r:
            env.report(dict(kind="producer", params=p, script=sc, input_hex=x.hex(), result=r[:300]),
                       "ZSTD_compress2 accepted producer lengths that pass 2^32 (%s) and emitted a frame that does not decode to the source" % sc)
        env.ctx.count(("producer-huge", t[0], p["seqProducerFallback"], p["validateSequences"]), nontrivial=True)


def detect_producer_position(env):
    """does validation of a producer's answer use the position of the block in the FRAME (documented rule) or restart at 0 in
    every block (ZSTD_buildSeqStore hands the copier a fresh ZSTD_sequencePosition)?
    Witness 1 (false rejection): 2 blocks of 1024 bytes, the second a copy of the first, answered by {0,1024,0} and
    {off 1024, ll 0, ml 1024},{0,0,0} - a valid parse.
    Witness 2 (false acceptance): windowLog 10, raw dictionary of 2000 bytes, block 5 (frame position 5120) answered with
    {off 2500, ll 1000, ml 24}: the match exists, but 2500 bytes back at position 6120 is far outside the 1 KiB window."""
    x = random.Random(17).randbytes(1024) * 2
    sc = "S0:1024:0;S1024:0:1024,0:0:0"
    res = {}
    for val in (0, 1):
        p = {"level": 1, "maxBlockSize": 1024, "windowLog": 17, "validateSequences": val, "blockSplitter": 2}
        out, crashes = env.impl(["P w%d %s %s %s 0" % (val, codec.params_str(p), sc, x.hex())])
        res[val] = out.get("w%d" % val, "CRASH %r" % (crashes[:1],))
    ok0 = res[0].startswith("OK") and "d=ok" in res[0]
    w1_fixed = res[1].startswith("OK") and "d=ok" in res[1]
    # witness 2
    r2 = random.Random(5)
    dct = r2.randbytes(2000)
    y = bytearray(r2.randbytes(6 * 1024 + 500))
    y[5120:6120] = bytes([97 + (i * 7) % 3 for i in range(1000)])      # compressible literals: block 5 is emitted as a compressed block
    y[6120:6144] = y[6120 - 2500:6144 - 2500]
    sc2 = ";".join("S2500:1000:24,0:0:0" if k == 5 else ("S0:500:0" if k == 6 else "S0:1024:0") for k in range(7))
    p2 = {"level": 1, "windowLog": 10, "maxBlockSize": 1024, "validateSequences": 1, "blockSplitter": 2}
    out2, cr2 = env.impl(["R w2 %s load %s %s %s 0" % (codec.params_str(p2), dct.hex(), sc2, bytes(y).hex())])
    res2 = out2.get("w2", "CRASH %r" % (cr2[:1],))
    w2_fixed = res2.startswith("ERR " + INVALID)
    rverdict = "-"
    if res2.startswith("OK"):
        m = env.codec().model([("w2", "seqs,w=%d,rawdict" % (1 << 31), dct, codec.unhx(res2.split(" ")[1]))])
        rverdict = " ".join(str(v) for v in m.get("w2", ("?",))[:1]) if m.get("w2") and m["w2"][0] != "OK" else "OK"
        if m.get("w2") and m["w2"][0] != "OK":
            rverdict = "%s %s" % (m["w2"][0], m["w2"][1:3])
    env.prodpos_fixed = w1_fixed and w2_fixed
    env.prodpos_out = dict(w1_validate0=res[0].split(" calls=")[0][-100:], w1_validate1=" ".join(res[1].split(" ")[:2]), w2=" ".join(res2.split(" ")[:1] + res2.split(" ")[-3:-1])[:200], w2_reference_decoder=rverdict)
    if not ok0:
        env.report(dict(kind="producer", script=sc, input_hex=x.hex(), result=res[0][-300:]),
                   what="producer witness without validation does not round-trip: %s" % res[0][-120:])
    elif not env.prodpos_fixed:
        env.report(dict(kind="producer", params={"maxBlockSize": 1024, "validateSequences": 1, "blockSplitter": 2}, script=sc, input_hex=x.hex(),
                        observed=env.prodpos_out, witness2=dict(params=p2, dictmode="load", dict_hex=dct.hex(), script=sc2, input_hex=bytes(y).hex())),
                   key=KEY_PRODPOS,
                   what="validation of a registered producer's answer restarts its position at 0 in every block (ZSTD_buildSeqStore: ZSTD_sequencePosition "
                        "{0,0,0}), so ZSTD_validateSequence compares offsets with the position inside the BLOCK: (1) a VALID parse is refused as soon as a "
                        "match reaches into an earlier block [block 1 = {off 1024, ll 0, ml 1024} over a copy of block 0: %s; round-trips with validateSequences=0]%s"
                        % (" ".join(res[1].split(" ")[:2]) if not w1_fixed else "accepted",
                           "; (2) with a dictionary an offset far outside the window is ACCEPTED [windowLog 10, 2000-byte dictionary, {off 2500, ll 1000, ml 24} "
                           "at frame position 5120: %s, reference decoder: %s]" % (res2.split(" ")[0], rverdict) if not w2_fixed else ""))
    return env.prodpos_fixed


def run_context_histories(env, rng, n):
    """round 2: what the copiers and the collector read from the CONTEXT rather than from their arguments.
    (a) ZSTD_c_nbWorkers >= 1: a source above the multithreading threshold makes the transparent initialisation take the
        multithreaded branch, which does not prepare the block state ZSTD_compressSequences uses: must round-trip or be refused;
    (b) ZSTD_generateSequences followed by ZSTD_compress2 on the same context: the caller's array must not be written again and
        the frame must be the one a fresh context produces;
    (c) two ZSTD_compressSequences calls on one context (the first one failing at a random point, or succeeding): the second
        must return exactly what a fresh context returns, and a ZSTD_compress2 after it as well."""
    ctx = env.ctx
    # ---- (a)
    unit = bytes(range(97, 113))
    lines, meta = [], {}
    for i, (nw, size, delims) in enumerate([(1, 600 * 1024, 0), (1, 600 * 1024, 1), (2, 524288 + 1, 0), (1, 524288, 0), (1, 3000, 1)]):
        x = (unit * (size // 16 + 1))[:size]
        p = {"nbWorkers": nw, "blockDelimiters": delims, "validateSequences": 1, "windowLog": 20}
        if delims:
            seqs, pos = [], 0
            while pos < size:
                sz = min(131072, size - pos)
                seqs += [(16, 16, sz - 16), (0, 0, 0)] if pos == 0 else [(16, 0, sz), (0, 0, 0)]
                pos += sz
        else:
            seqs = [(16, 16, size - 16)]
        c = dict(id="mt%d" % i, x=x, params=p, dictmode="-", dict=b"", seqs=seqs, origin="parser:nbWorkers")
        meta[c["id"]] = c
        lines.append(q_line(c))
    out, crashes = env.impl(lines)
    for i, rc, err in crashes:
        c = meta.get(i)
        if c:
            env.report(dict(kind="compressSequences", params=c["params"], dictmode="-", dict_hex="", seqs=seqs_str(c["seqs"]), input_len=len(c["x"]),
                            input_unit_hex=unit.hex(), rc=rc, stderr=str(err)[-600:]), key=KEY_MT,
                       what="ZSTD_compressSequences with ZSTD_c_nbWorkers=%d on a valid parse of %d bytes crashed (status %s): above ZSTDMT_JOBSIZE_MIN the "
                            "initialisation takes the multithreaded branch and leaves blockState / seqStore / blockSize of the context unset: %s"
                            % (c["params"]["nbWorkers"], len(c["x"]), rc, str(err)[-200:].replace("\n", " ")))
    for i, c in meta.items():
        r = out.get(i)
        if r is None:
            continue
        t = r.split(" ")
        if t[0] == "OK" and "d=ok" in t:
            ctx.count(("ctx", "nbWorkers", "roundtrip", len(c["x"]) > 524288), nontrivial=True)
        elif t[0] == "ERR" and t[1].startswith("Unsupported"):
            ctx.count(("ctx", "nbWorkers", "refused", len(c["x"]) > 524288), nontrivial=True)     # a clean, documented refusal
        else:
            env.report(dict(kind="compressSequences", params=c["params"], seqs=seqs_str(c["seqs"])[:2000], input_len=len(c["x"]), input_unit_hex=unit.hex(),
                            result=" ".join(t[:1] + t[2:])[-300:]), key=KEY_MT,
                       what="ZSTD_compressSequences with nbWorkers=%d on a valid parse of %d bytes: %s" % (c["params"]["nbWorkers"], len(c["x"]), " ".join(t[:2])[:120]))
    # ---- (b)
    lines, meta = [], {}
    for i in range(max(3, n // 4)):
        kind = rng.choice(["text", "rep3", "period", "mixed"])
        x = codec.gen_input(rng, kind, rng.choice([100, 4000, 20000, 140000]))
        p = {"level": rng.choice([1, 3, 7])}
        if rng.random() < 0.4:
            p["maxBlockSize"] = rng.choice([1024, 4096])
        meta["kc%d" % i] = (p, x)
        # every third case: an output array that is too small, ZSTD_generateSequences fails in the middle of the inner compression
        lines.append("K kc%d %s %s %d" % (i, codec.params_str(p), codec.hx(x), rng.choice([1, 2, 3]) if i % 3 == 1 and len(x) >= 4000 else 0))
    out, crashes = env.impl(lines)
    for i, rc, err in crashes:
        p, x = meta.get(i, ({}, b""))
        env.report(dict(kind="generate-then-compress2", params=p, input_hex=x.hex()[:200000], rc=rc, stderr=str(err)[-600:]), key=KEY_COLLECT,
                   what="ZSTD_compress2 after ZSTD_generateSequences on the same context crashed: %s" % str(err)[-200:].replace("\n", " "))
    for i, (p, x) in meta.items():
        r = out.get(i)
        if r is None:
            continue
        kv = dict(q.split("=", 1) for q in r.split(" ")[1:] if "=" in q)
        if kv.get("sentinel") != "intact" or kv.get("same") != "1" or kv.get("d") != "ok":
            env.report(dict(kind="generate-then-compress2", params=p, input_hex=x.hex()[:200000], result=r[:300]), key=KEY_COLLECT,
                       what="after a %s ZSTD_generateSequences the context keeps collecting: a later ZSTD_compress2 on it %s and %s where a fresh "
                            "context returns %s bytes (seqCollector.collectSequences still set)"
                            % ("failed" if kv.get("gen", "E").startswith("E") else "successful",
                               "writes into the caller's old sequence array (entry %s)" % kv.get("sentinel", "?").split("@")[-1]
                               if kv.get("sentinel") != "intact" else "leaves the array alone",
                               ("fails with " + kv.get("c2", "?")[1:]) if kv.get("c2", "").startswith("E") else "returns %s bytes" % kv.get("c2"), kv.get("fresh")))
        else:
            ctx.count(("ctx", "collector", "clean", "generate-failed" if kv.get("gen", "E").startswith("E") else "generate-ok"), nontrivial=True)
    # ---- (c)
    lines, meta = [], {}
    for i in range(n):
        kind = rng.choice(["text", "rep3", "period", "zeros"])
        delims = rng.choice([0, 1])
        val = rng.choice([0, 1, 1])
        p = base_params(rng, delims, val, mbs=rng.choice([0, 1024]), wlog=rng.choice([10, 17]))
        dm = rng.choice(["-", "-", "load", "cdict"])
        cs = []
        for j in range(2):
            x = codec.gen_input(rng, kind, rng.choice([0, 5, 300, 2500, 5000]))
            d = gen_dict(rng, x, 300) if dm != "-" else b""
            cs.append(dict(id="zc%d.%d" % (i, j), x=x, params=p, delims=delims, dict=d, dictmode=dm, expect="valid"))
        cs[1]["dict"] = cs[0]["dict"]
        meta["zc%d" % i] = cs
    al = [a_line(c) for cs in meta.values() for c in cs]
    aout, _ = env.impl(al)
    for i, cs in meta.items():
        okc = True
        for c in cs:
            r = aout.get(c["id"], "")
            if not r.startswith("OK"):
                okc = False
                break
            c["ap"] = parse_applied(r.split(" ")[1])
            make_valid_parse(rng, c, c["ap"])
        if not okc:
            continue
        first = cs[0]
        how = rng.choice(["valid", "valid"] + CORRUPTIONS)
        first["how"] = how
        if how != "valid":
            s1 = corrupt(rng, first, first["ap"], how)
            if s1 is not None:
                first["seqs"] = s1
        lines.append("Z %s %s %s %s %s %s %s %s" % (i, codec.params_str(first["params"]), first["dictmode"], codec.hx(first["dict"]) if first["dictmode"] != "-" else "-",
                                                   seqs_str(first["seqs"]), codec.hx(first["x"]), seqs_str(cs[1]["seqs"]), codec.hx(cs[1]["x"])))
    out, crashes = env.impl(lines)
    crashed = {i: (rc, err) for i, rc, err in crashes}
    session_open = 0
    for i, cs in meta.items():
        if "ap" not in cs[1] or "how" not in cs[0]:
            continue
        rp = dict(kind="history", params=cs[0]["params"], dictmode=cs[0]["dictmode"], dict_hex=cs[0]["dict"].hex(), first_seqs=seqs_str(cs[0]["seqs"])[:100000],
                  first_input_hex=cs[0]["x"].hex(), second_seqs=seqs_str(cs[1]["seqs"])[:100000], second_input_hex=cs[1]["x"].hex(), first_corruption=cs[0]["how"])
        if i in crashed:
            if cs[0]["params"].get("validateSequences") or cs[0]["how"] == "valid":
                env.report(dict(rp, stderr=crashed[i][1][-600:]), what="two ZSTD_compressSequences calls on one context crashed: %s" % crashed[i][1][-200:].replace("\n", " "))
            continue
        r = out.get(i)
        if r is None:
            continue
        kv = dict(q.split("=", 1) for q in r.split(" ")[1:] if "=" in q)
        first_failed = kv.get("r1", "").startswith("E")
        if kv.get("r2same") != "1" or (not kv.get("r2", "E").startswith("E") and kv.get("d2d") != "ok") or kv.get("r2", "E").startswith("E"):
            env.report(dict(rp, result=r[:400]), what="ZSTD_compressSequences of a valid parse after a %s call on the same context differs from a fresh context: %s"
                       % ("failed" if first_failed else "successful", r[:200]))
        elif kv.get("c2same") != "1":
            env.report(dict(rp, result=r[:400]), what="ZSTD_compress2 after two ZSTD_compressSequences calls on the same context differs from a fresh context: %s" % r[:200])
        else:
            ctx.count(("ctx", "history", "failed-first" if first_failed else "ok-first", cs[0]["dictmode"] != "-", cs[0]["delims"]), nontrivial=True)
        if kv.get("setp", "ok") != "ok":
            session_open += 1
            if not first_failed:
                # regression scenario for fix cc66b21: a completed frame closes its session (as after ZSTD_compress2)
                env.report(dict(rp, result=r[:400]), key=KEY_SESSION,
                           what="after a SUCCESSFUL ZSTD_compressSequences the context stays in the loading stage: ZSTD_CCtx_setParameter(ZSTD_c_checksumFlag) "
                                "returns %s (the transparent initialisation is never undone; ZSTD_compressStream2 would continue the finished frame)" % kv.get("setp"))
    ctx.notes["session_left_open_after_failed_compressSequences"] = session_open


def compress_bound(n):
    return n + (n >> 8) + (((128 << 10) - n) >> 11 if n < (128 << 10) else 0)


def producer_many_short(env, rng):
    """regression scenarios for the block splitter fed by a producer (fix: commits 3960417, 65eb70d): a valid parse made of
    tens of thousands of 3-byte matches with no literals between them, offset statistics alternating every ~160 sequences (so
    that the splitter's size estimates favour a split at every level of its recursion), block splitter ON, destination of
    exactly ZSTD_compressBound(n) bytes: must succeed and decode to the source; and the same shape in 1 KiB blocks."""
    lines, meta = [], {}
    for j, (n, mbs, wl) in enumerate([(131072, 0, 17), (131072 + 70000, 0, 18), (8192, 1024, 17)]):
        bs = mbs or 131072
        x = bytearray(rng.randbytes(300))
        resp, cur, ll = [], [], 300
        blk_start = 0
        while len(x) < n:
            pos = len(x)
            if pos - blk_start == bs or (pos - blk_start + 3 > bs) or pos + 3 > n:
                # finish the block with literals
                end = min(blk_start + bs, n)
                fill = end - pos
                x += rng.randbytes(fill)
                cur.append((0, ll + fill, 0))
                resp.append("S" + seqs_str(cur))
                cur, ll, blk_start = [], 0, end
                continue
            inblk = pos - blk_start                      # validation restarts per block (known finding): stay inside the block
            region = (pos // 480) % 2
            lim = inblk if j != 1 else pos
            if lim < 16:
                x += rng.randbytes(1)
                ll += 1
                continue
            off = rng.randint(4, 12) if region == 0 else rng.randint(max(13, lim // 2), lim)
            for _ in range(3):
                x.append(x[len(x) - off])
            cur.append((off, ll, 3))
            ll = 0
        if cur or ll:
            cur.append((0, ll, 0))
            resp.append("S" + seqs_str(cur))
        x = bytes(x[:n])
        for val in ((0, 1) if j != 1 else (0,)):
            p = {"level": 3, "windowLog": wl, "validateSequences": val, "blockSplitter": 1, "seqProducerFallback": 0}
            if mbs:
                p["maxBlockSize"] = mbs
            i = "ms%d.%d" % (j, val)
            meta[i] = (p, x, sum(r.count(",") for r in resp))
            lines.append("P %s %s %s %s %d" % (i, codec.params_str(p), ";".join(resp), codec.hx(x), compress_bound(n)))
    out, crashes = env.impl(lines)
    for i, rc, err in crashes:
        p, x, nseq = meta.get(i, ({}, b"", 0))
        env.report(dict(kind="producer-splitter", params=p, input_hex=x.hex()[:400000], rc=rc, stderr=str(err)[-600:]),
                   what="ZSTD_compress2 with a producer giving %d three-byte matches and the block splitter enabled crashed (status %s): %s" % (nseq, rc, str(err)[-200:].replace("\n", " ")))
    for i, (p, x, nseq) in meta.items():
        r = out.get(i)
        if r is None:
            continue
        t = r.split(" ")
        if t[0] != "OK" or "d=ok" not in t:
            env.report(dict(kind="producer-splitter", params=p, input_hex=x.hex()[:400000], result=" ".join(t[:2] if t[0] != "OK" else t[2:])[:300]),
                       what="ZSTD_compress2 with a producer giving a valid parse of %d three-byte matches, block splitter enabled, destination of ZSTD_compressBound(%d) bytes: %s"
                            % (nseq, len(x), " ".join(t[:2])[:100] if t[0] != "OK" else [q for q in t if q.startswith("d=")]))
        else:
            env.ctx.count(("producer-splitter", nseq > 10000, p["validateSequences"], p.get("maxBlockSize", 0)), nontrivial=True)


def offcode_of(off, ll, bitlen, hist):
    """offset code (offBase) of a decoded sequence from R's trace: resolved offset + bit length of the code + decoder history"""
    if bitlen >= 2:
        return off + 3 if (off + 3).bit_length() - 1 == bitlen else None
    for ob in (1, 2, 3):
        if ob.bit_length() - 1 == bitlen:
            r = resolve(ob, ll, hist)
            if r and r[0] == off:
                return ob
    return None


def producer_frame_line(env, cid, ap, fb, calls, plan, blocks):
    """(round 3) one PF line for the extracted producer_frame_fb: the whole frame, blocks that fell back to the internal parser
    included (their seqStore is read off R's trace; the history kept after them is the model's fallback_history).
    blocks = R's trace blocks of >= 7 bytes, aligned with the producer calls.  Returns (line, histories) or None."""
    hist = (1, 4, 8)
    hists, parts, dec = [], [], ""
    for k, ((srcsz, cap, wsz), b) in enumerate(zip(calls, blocks)):
        if k >= len(plan):
            kind, seqs, ret = "ret", [], (1 << 64) - 1
        else:
            kind, seqs, ret = plan[k][:3]
        if kind == "seqs":
            nb, buf = min(len(seqs), cap), seqs[:cap]
        elif kind == "cap+":
            nb, buf = cap + ret, []
        else:
            nb, buf = ret, []
        if nb >= (1 << 62):
            nb = cap + 1
        hists.append(hist)
        stored, lastll = "-", 0
        if b["type"] == 2:
            st, h = [], hist
            for ll, ml, off, ofc in (b["seqs"] or []):
                ob = offcode_of(off, ll, ofc, h)
                if ob is None:
                    return None
                st.append("%d.%d.%d" % (ll, ml, ob))
                h = resolve(ob, ll, h)[1]
            stored = ";".join(st) if st else "-"
            lastll = b["rsize"] - sum(q[0] + q[1] for q in (b["seqs"] or []))
            hist = h
            dec += "1"
        else:
            dec += "0"
        parts.append("%d/%d/%d/%s/%s/%d" % (nb, cap, srcsz, seqs_str(buf), stored, lastll))
    line = "PF %s~f %d %d %d %d %d %d %d %d 1 %d 1.4.8 %s %s" % (
        cid, ap["wl"], ap["mm"], ap["val"], ap.get("ds", 0), ap["maxnb"], 1 if env.fixed else 0, 1 if ap["ers"] == 1 else 0, fb,
        1 if getattr(env, "prodpos_fixed", False) else 0, dec or "-", "|".join(parts) if parts else "-")
    return line, hists


def judge_producer_frame(env, cid, rp, mline, hists, blocks):
    """frame accepted by the real code and decoded by R: the model's frame (history threaded by the model itself, through
    producer blocks, fallback blocks and uncommitted blocks) must show the same codes in every compressed block"""
    ctx = env.ctx
    mod = parse_model_blocks(mline)
    if mod[0] != "OK":
        env.report(dict(rp, model=str(mod)[:200]), what="correspondence (producer frame): compress2 accepted the frame, the model of the whole frame says %s %s" % (mod[0], mod[1]))
        return False
    if len(mod[1]) != len(blocks):
        env.report(dict(rp, model_blocks=len(mod[1]), blocks=len(blocks)), what="correspondence (producer frame): %d blocks in the model, %d in the frame" % (len(mod[1]), len(blocks)))
        return False
    for k, (mb, b) in enumerate(zip(mod[1], blocks)):
        nfb = sum(1 for j in (rp.get("fallback_blocks") or []) if j < k)
        if mb["rep"] != tuple(hists[k]):
            env.report(dict(rp, block=k, model_history=mb["rep"], decoder_history=hists[k]),
                       what="correspondence (producer frame): at block %d the model's context history is %s, the decoder's history (R's trace) is %s"
                            % (k, mb["rep"], tuple(hists[k])))
            return False
        if b["type"] != 2:
            continue
        exp, h = [], mb["rep"]
        for ll, ml, ob in mb["seqs"]:
            r = resolve(ob, ll, h)
            if r is None:
                exp = None
                break
            exp.append((ll, ml, r[0], ob.bit_length() - 1))
            h = r[1]
        got = [tuple(g) for g in (b["seqs"] or [])]
        if exp is not None and got != exp:
            j = next((i for i, (g, e) in enumerate(zip(got, exp)) if g != e), min(len(got), len(exp)))
            env.report(dict(rp, block=k, got=got[j:j + 3], model=exp[j:j + 3], history=mb["rep"]),
                       key=KEY_FALLBACK_REP if nfb else None,
                       what="correspondence (producer frame): block %d sequence %d: frame %s, model of the whole frame %s (history at block start %s%s)"
                            % (k, j, got[j:j + 1], exp[j:j + 1], mb["rep"], "; a block before it fell back to the internal parser" if nfb else ""))
            return False
    ctx.cov["traces_validated_against_impl"] += 1
    return True


def producer_splitter_adversarial(env, rng):
    """(round 3) the block splitter and the super-block writer driven by a producer whose answers are valid parses built to make
    the splitter cut as often as it can (harness command X, the scenario family of C06's c06_r2; regression shapes of fix: 3960417
    [1 KiB blocks whose two halves both end up raw: 6 bytes of expansion where ZSTD_compressBound pays 4] and fix: 65eb70d [39000
    sequences whose halves differ at every level of the recursion: 197 split points for a table of 196]).  Destination of exactly
    ZSTD_compressBound(n) bytes: the call must succeed, decode to the source (dictionary of 2^26 bytes), use at most one wire block per
    full KiB of a source block, and the split table derived again for the block must stay inside ZSTD_MAX_NB_BLOCK_SPLITS entries.
    depth 10: a raw partition followed by a partition that codes offsets of the raw one as repeat codes (ZSTD_seqStore_resolveOffCodes)."""
    fam = [(1024, 128, 1, 24, 25, 100, 1, 0), (1100, 60, 1, 24, 25, 100, 1, 0), (2048, 32, 2, 24, 25, 100, 1, 0), (4096, 24, 3, 23, 25, 100, 1, 0),
           (131072, 1, 9, 2, 25, 92, 1, 0), (131072, 1, 9, 2, 25, 100, 1, 0), (131072, 1, 8, 2, 25, 89, 1, 0), (131072, 2, 8, 22, 25, 100, 1, 0),
           (1024, 64, 1, 24, 25, 100, 1, 1340), (4096, 16, 3, 20, 25, 100, 0, 1340), (1024, 64, 1, 24, 25, 100, 2, 0),
           # depth 10 = repeat-offset reconciliation: first half of every block incompressible (raw partition, the decoder's history stays),
           # second half made of long matches at the last three offsets of the first half (repeat codes for the copier)
           (8192, 8, 10, 24, 25, 100, 1, 0), (16384, 4, 10, 22, 25, 100, 1, 0), (131072, 1, 10, 23, 25, 100, 1, 0), (8192, 6, 10, 24, 25, 100, 1, 2000)]
    for _ in range(4 if env.ctx.quick else 40):
        B = rng.choice([1024, 1025, 1279, 1535, 1536, 2047, 3000, 4096, 8192, 32768, 131072])
        depth = rng.randint(1, 8) if B >= 4096 else rng.randint(1, 2)
        hi = 25 - (rng.randrange(4) if rng.random() < 0.3 else 0)
        lo = max(2, hi - rng.randrange(4) - (4 + rng.randrange(12) if depth > 3 else 0))
        fam.append((B, max(1, (B if B >= 32768 else rng.randint(20000, 120000)) // B), depth, lo, hi, rng.choice([100, 100, 60 + rng.randrange(41)]),
                    rng.choice([1, 1, 1, 1, 0]), rng.choice([0, 0, 0, 1340 + rng.randrange(3000)])))
    lines, meta = [], {}
    for j, (B, nb, depth, lo, hi, dens, split, tcbs) in enumerate(fam):
        val = 1 if j % 3 else 0
        i = "xs%d" % j
        meta[i] = dict(kind="producer-splitter-adversarial", B=B, nblocks=nb, seed=env.ctx.seed, depth=depth, codeLo=lo, codeHi=hi, density=dens, split=split,
                       targetCBlockSize=tcbs, validateSequences=val,
                       command="X %s %d %d %d %d %d %d %d %d %d %d" % (i, B, nb, env.ctx.seed, depth, lo, hi, dens, split, tcbs, val))
        lines.append(meta[i]["command"])
    out, crashes = run_lines(env.exe, lines, nproc=2)
    for i, rc, err in crashes:
        env.report(dict(meta.get(i, {}), rc=rc, stderr=str(err)[-600:]),
                   what="ZSTD_compress2 with a producer driving the block splitter crashed (status %s): %s" % (rc, str(err)[-200:].replace("\n", " ")))
    for i, m in meta.items():
        r = out.get(i)
        if r is None:
            continue
        t = r.split(" ")
        kv = dict(q.split("=", 1) for q in t[1:] if "=" in q)
        if t[0] != "OK":
            env.report(dict(m, result=r[:200]), what="ZSTD_compress2 into ZSTD_compressBound(%d) bytes with a producer giving valid parses (B=%d, block splitter %s, "
                       "targetCBlockSize %d): %s" % (m["B"] * m["nblocks"], m["B"], {0: "auto", 1: "on", 2: "off"}[m["split"]], m["targetCBlockSize"], " ".join(t[:2])))
            continue
        perblock = max(1, m["B"] >> 10)
        problems = []
        if kv.get("d") != "ok":
            problems.append("frame does not decode to the source (%s)" % kv.get("d"))
        if int(kv["csize"]) > int(kv["bound"]):
            problems.append("frame of %s bytes exceeds ZSTD_compressBound = %s" % (kv["csize"], kv["bound"]))
        if not m["targetCBlockSize"] and int(kv["blocks"]) > m["nblocks"] * perblock:
            problems.append("%s wire blocks for %d source blocks of %d bytes (more than one per full KiB)" % (kv["blocks"], m["nblocks"], m["B"]))
        if "over" in kv and (int(kv["over"]) or int(kv["splits"]) + 1 > int(kv["limit"])):
            problems.append("ZSTD_deriveBlockSplits left %s split points (+ terminator) in a table of %s entries, %s entries written beyond it (%s sequences)"
                            % (kv["splits"], kv["limit"], kv["over"], kv.get("nbseq")))
        if problems:
            env.report(dict(m, result=r[:300]), what="producer + block splitter: " + "; ".join(problems))
        else:
            env.ctx.count(("producer-splitter-adversarial", min(m["B"] >> 10, 128), m["split"], m["targetCBlockSize"] != 0, int(kv["raw"]) == int(kv["blocks"]),
                           int(kv["blocks"]) > m["nblocks"], min(int(kv.get("splits", 0)) // 64, 3)), nontrivial=True)


def producer_fallback_history(env, rng, n):
    """a block that falls back to the internal parser between two producer blocks: the internal parsers below btopt keep two
    repeat offsets only, the copier of the next producer block consults three.  Block 0 (producer) leaves the history
    [c, b, a]; block 1 (producer error -> internal parser) is `period` bytes repeated, so the decoder's history becomes
    [period, c, b]; block 2 (producer) uses offset a, b or c again after literals.  All parses are valid: the frame must
    decode to the source."""
    lines, meta = [], {}
    for i in range(n):
        a, b, c = rng.sample([5, 9, 17, 37, 64, 90], 3) if i else (5, 37, 64)
        period = rng.choice([150, 200, 333])
        level = rng.choice([1, 3, 5, 7, 12]) if i else 1
        x = bytearray()

        def run(seqs, size):
            start = len(x)
            out = []
            for off, ll, ml in seqs:
                x.extend(rng.randbytes(ll))
                for _ in range(ml):
                    x.append(x[len(x) - off])
                out.append((off, ll, ml))
            tail = size - (len(x) - start)
            x.extend(rng.randbytes(tail))
            return out + [(0, tail, 0)]
        b0 = run([(a, 120, 100), (b, 3, 100), (c, 3, 100), (a, 2, 60), (b, 2, 60), (c, 2, 60)], 1024)
        chunk = rng.randbytes(period)
        x.extend((chunk * (1024 // period + 1))[:1024])
        use = rng.choice([a, b, c]) if i else a
        b2 = run([(use, rng.randint(1, 9), 40), (rng.choice([a, b, c]), 2, 30), (use, 1, 25)], 150)
        p = {"level": level, "maxBlockSize": 1024, "windowLog": 17, "validateSequences": rng.choice([0, 1]) if i else 0, "seqProducerFallback": 1,
             "blockSplitter": 2, "extRepSearch": 1}
        sc = "S%s;E%d;S%s" % (seqs_str(b0), (1 << 64) - 1, seqs_str(b2))
        meta["fh%d" % i] = (p, sc, bytes(x), (a, b, c, period, use))
        lines.append("P fh%d %s %s %s 0" % (i, codec.params_str(p), sc, bytes(x).hex()))
    out, crashes = env.impl(lines)
    for i, rc, err in crashes:
        p, sc, x, info = meta.get(i, ({}, "", b"", None))
        env.report(dict(kind="producer", params=p, script=sc, input_hex=x.hex(), rc=rc, stderr=str(err)[-400:]), what="producer/fallback/producer frame crashed: %s" % str(err)[-200:].replace("\n", " "))
    okframes = []
    for i, (p, sc, x, info) in meta.items():
        r = out.get(i)
        if r is None:
            continue
        t = r.split(" ")
        if t[0] == "OK" and "d=ok" in t:
            env.ctx.count(("producer-fallback-history", p["level"] >= 12, p["validateSequences"]), nontrivial=True)
            okframes.append((i, p, sc, x, t))
        elif t[0] == "ERR" and p["validateSequences"] and not getattr(env, "prodpos_fixed", True):
            env.ctx.count(("producer-fallback-history", "refused-by-position-finding"), nontrivial=False)
        else:
            env.report(dict(kind="producer", params=p, script=sc, input_hex=x.hex(), offsets=info, result=" ".join(t[:2] if t[0] != "OK" else t[2:])[:300]),
                       key=KEY_FALLBACK_REP if t[0] == "OK" else None,
                       what="producer block / block falling back to the internal parser / producer block, all three valid parses (history offsets %s, fallback block of "
                            "period %d, third block uses offset %d): %s - the internal parser leaves its third repeat offset stale and the copier of the next producer "
                            "block codes an offset against it" % (info[:3], info[3], info[4], "frame decodes to OTHER bytes (%s)" % [q for q in t if q.startswith("d=")]
                                                                   if t[0] == "OK" else " ".join(t[:2])))

    # (round 3) the same frames through the model of the whole frame (producer_frame_fb): block 1 is the internal parser's
    mres = env.codec().model([(i, "seqs", None, codec.unhx(t[1])) for i, p, sc, x, t in okframes]) if okframes else {}
    flines, fmeta = [], {}
    for i, p, sc, x, t in okframes:
        m = mres.get(i)
        if not m or m[0] != "OK":
            continue
        fr = codec.parse_trace(m[2])
        if len(fr) != 1 or fr[0]["kind"] != "zstd":
            continue
        blocks = [b for b in fr[0]["blocks"] if b["rsize"] >= 7]
        calls = [tuple(int(v) for v in q.split(":")) for q in t[-1][len("calls="):].split(";") if q and q != "-"] if t[-1].startswith("calls=") else []
        if len(blocks) != len(calls) or len(calls) != 3:
            continue
        parts = sc.split(";")
        plan = [("seqs", parse_seqs(parts[0][1:]), None), ("ret", [], (1 << 64) - 1), ("seqs", parse_seqs(parts[2][1:]), None)]
        r = producer_frame_line(env, i, parse_applied(t[2]), 1, calls, plan, blocks)
        if r:
            flines.append(r[0])
            fmeta[i] = (dict(kind="producer", params=p, script=sc, input_hex=x.hex(), fallback_blocks=[1]), r[1], blocks)
    fout = env.model(flines) if flines else {}
    for i, (rp, hists, blocks) in fmeta.items():
        if judge_producer_frame(env, i, rp, fout.get(i + "~f", "MISSING"), hists, blocks):
            env.ctx.count(("producer-frame-fallback-history", blocks[1]["type"] == 2, blocks[2]["type"] == 2), nontrivial=True)


def run_producer(env, rng, n):
    ctx = env.ctx
    cases = []
    for i in range(n):
        kind = rng.choice(["text", "rep3", "selfcopy", "period", "zeros", "mixed"])
        nblocks = rng.choice([1, 1, 2, 3, 5])
        mbs = rng.choice([1024, 1024, 4096])
        size = rng.choice([0, 1, 5, 100, mbs - 1, mbs, mbs + 1, mbs * nblocks - rng.randint(0, 50), mbs * nblocks + rng.randint(1, 50)])
        x = codec.gen_input(rng, kind, size)
        fb = rng.choice([0, 1])
        wl = rng.choice([10, 12, 17])
        p = {"level": rng.choice([1, 3, 7]), "maxBlockSize": mbs, "windowLog": wl, "minMatch": rng.choice([3, 4, 5, 7]),
             "validateSequences": rng.choice([0, 1, 1]), "seqProducerFallback": fb, "blockSplitter": 2}
        ers = rng.choice([0, 1, 2])
        if ers:
            p["extRepSearch"] = ers
        if rng.random() < 0.3:
            p["checksum"] = 1
        # (round 3) raw-content dictionaries: the producer's offsets may reach into the dictionary (while the position is inside the
        # first window); the model is given the dictionary size the copier sees
        dm = rng.choice(["-", "-", "-", "load", "cdict"]) if size > 8 else "-"
        d = gen_dict(rng, x, rng.choice([150, 700, 2500])) if dm != "-" else b""
        cases.append(dict(id="p%d" % i, x=x, params=p, kind=kind, mbs=mbs, fb=fb, dictmode=dm, dict=d))
    # applied parameters (block size) first
    out, _ = env.impl(["A %s %s %s %s %d" % (c["id"], codec.params_str(c["params"]), c["dictmode"], codec.hx(c["dict"]) if c["dictmode"] != "-" else "-", len(c["x"]))
                       for c in cases])
    lines = []
    for c in cases:
        r = out.get(c["id"], "")
        if not r.startswith("OK"):
            continue
        ap = parse_applied(r.split(" ")[1])
        c["ap"] = ap
        x = c["x"]
        W = 1 << ap["wl"]
        bs = ap["bs"]
        pr = Parser(rng, x, c["dict"], W, 3)
        resp, plan = [], []
        pos = 0
        failed = False
        while pos < len(x):
            sz = min(bs, len(x) - pos)
            if sz < 7:                      # ZSTD_buildSeqStore: blocks below MIN_CBLOCK_SIZE+header+2 never reach the producer
                pos += sz
                continue
            s, tail = pr.parse(pos, pos + sz, rng.choice(STYLES))
            r = rng.random()
            if r < 0.6:
                form = rng.choice(["delim", "nodelim", "nodelim"]) if tail == 0 else "delim"
                seqs = s + ([(0, tail, 0)] if form == "delim" else [])
                if not seqs:
                    seqs = [(0, tail, 0)]
                resp.append("S" + seqs_str(seqs))
                plan.append(("seqs", seqs, None, True))
            elif r < 0.78:
                how = rng.choice(["E", "C1", "E0", "Ebig"])
                if how == "E":
                    resp.append("E%d" % ((1 << 64) - 1))
                    plan.append(("ret", [], (1 << 64) - 1, True))
                elif how == "C1":
                    resp.append("C1")
                    plan.append(("cap+", [], 1, True))
                elif how == "Ebig":
                    v = rng.choice([1 << 40, (1 << 64) - 2, 1 << 32])
                    resp.append("E%d" % v)
                    plan.append(("ret", [], v, True))
                else:
                    resp.append("E0")
                    plan.append(("ret", [], 0, True))
            else:
                # corrupted answer
                seqs = s + [(0, tail, 0)]
                how = rng.choice(["off", "ml", "sum", "middelim", "toolong", "huge", "huge"])
                if how == "off" and s:
                    k = rng.randrange(len(s))
                    o, l, m = s[k]
                    pm = sum(a[1] + a[2] for a in s[:k]) + l        # match start inside this block
                    seqs[k] = (rng.choice([pm + 1, pos + pm + 1, W + pm + 1]), l, m)
                elif how == "ml" and s:
                    k = rng.randrange(len(s))
                    o, l, m = s[k]
                    seqs[k] = (o, l + (m - 2), 2)
                elif how == "sum":
                    seqs[-1] = (0, tail + rng.choice([1, 2, 100]), 0)
                elif how == "huge":
                    # lengths whose sum reaches or passes 2^32 (a 32-bit running sum would wrap back to a plausible value)
                    v = rng.choice(["ff", "m16", "wrap", "first"])
                    if v == "ff":
                        seqs[-1] = (0, 0xFFFFFFFF, 0)
                    elif v == "m16":
                        seqs[-1] = (0, (tail - 16) & 0xFFFFFFFF if tail < 16 else 0xFFFFFFF0, 0)
                    elif v == "wrap":
                        seqs = seqs[:-1] + [(1, 0, 1 << 31), (1, 0, 1 << 31), (0, tail, 0)]
                    else:
                        seqs = [(0, 0xFFFFFFFF, 0)] + seqs
                elif how == "middelim" and len(s) >= 2:
                    seqs.insert(rng.randrange(1, len(s)), (0, 0, 0))
                else:
                    seqs = seqs + [(5, 1, 4)]
                resp.append("S" + seqs_str(seqs))
                plan.append(("seqs", seqs, None, False))
            pos += sz
        c["plan"] = plan
        if c["dictmode"] != "-":
            lines.append("R %s %s %s %s %s %s 0" % (c["id"], codec.params_str(c["params"]), c["dictmode"], codec.hx(c["dict"]), ";".join(resp) if resp else "-", codec.hx(x)))
        else:
            lines.append("P %s %s %s %s 0" % (c["id"], codec.params_str(c["params"]), ";".join(resp) if resp else "-", codec.hx(x)))
    out, crashes = env.impl(lines)
    crashed = {i: (rc, err) for i, rc, err in crashes}
    rcases = []
    for c in cases:
        if "plan" not in c:
            continue
        if c["id"] in crashed:
            env.report(dict(kind="producer", params=c["params"], input_hex=c["x"].hex()[:100000], plan=str(c["plan"])[:5000], stderr=crashed[c["id"]][1][-800:]),
                       what="compress2 with a registered sequence producer crashed: %s" % crashed[c["id"]][1][-300:].replace("\n", " "))
            c.pop("plan")
            continue
        r = out.get(c["id"], "")
        t = r.split(" ")
        c["res"] = t
        if t and t[0] == "OK":
            rcases.append((c["id"], "seqs,rawdict" if c["dictmode"] != "-" else "seqs", c["dict"] if c["dictmode"] != "-" else None, codec.unhx(t[1])))
    mres = env.codec().model(rcases) if rcases else {}
    # model: per producer call
    mlines = []
    for c in cases:
        if "plan" not in c or "res" not in c:
            continue
        t = c["res"]
        calls = [tuple(int(v) for v in q.split(":")) for q in t[-1][len("calls="):].split(";") if q and q != "-"] if t[-1].startswith("calls=") else []
        c["calls"] = calls
        ap = c["ap"]
        try:        # parameters as applied WITH the producer registered (maxNbSeq uses divider 3 then)
            ap = parse_applied(t[2])
            c["ap"] = ap
        except (IndexError, ValueError):
            pass
        # history at the start of each block from R's trace (accepted frames only)
        reps = None
        m = mres.get(c["id"])
        if m and m[0] == "OK":
            fr = codec.parse_trace(m[2])
            if len(fr) == 1 and fr[0]["kind"] == "zstd":
                c["trace"] = fr[0]
                rep = (1, 4, 8)
                reps = []
                c["cblocks"] = []
                for b in fr[0]["blocks"]:
                    if b["rsize"] >= 7:
                        reps.append(rep)
                        c["cblocks"].append(b)
                    if b["type"] == 2:
                        rep = walk_rep(rep, b["seqs"] or [])
        c["reps"] = reps
        for k, (srcsz, cap, wsz) in enumerate(calls):
            if k >= len(c["plan"]):
                kind, seqs, ret, _ = "ret", [], (1 << 64) - 1, True
            else:
                kind, seqs, ret, _ = c["plan"][k]
            if kind == "seqs":
                nb = min(len(seqs), cap)
                buf = seqs[:cap]
            elif kind == "cap+":
                nb, buf = cap + ret, []
            else:
                nb, buf = ret, []
            rep = reps[k] if reps and k < len(reps) else (1, 4, 8)
            nbs = str(nb) if nb < (1 << 62) else str((1 << 62) - 1)      # any value above the capacity is an error code
            if nb >= (1 << 62):
                nbs = str(cap + 1)
            mlines.append("P %s.%d %d %d %d %d %d %d %d %d %s %d %d %d.%d.%d %s" % (
                c["id"], k, ap["wl"], ap["mm"], ap["val"], ap.get("ds", 0), ap["maxnb"], 1 if env.fixed else 0, 1 if ap["ers"] == 1 else 0, c["fb"],
                nbs, cap, srcsz, rep[0], rep[1], rep[2], seqs_str(buf)))
            # the same block at its position in the frame (every block before it is a full block: splitter disabled, one-shot call)
            mlines.append("PA %s.%d~a %d %d %d %d %d %d %d %d %s %d %d %d.%d.%d %d %s" % (
                c["id"], k, ap["wl"], ap["mm"], ap["val"], ap.get("ds", 0), ap["maxnb"], 1 if env.fixed else 0, 1 if ap["ers"] == 1 else 0, c["fb"],
                nbs, cap, srcsz, rep[0], rep[1], rep[2], sum(q[0] for q in calls[:k]), seqs_str(buf)))
    mout = env.model(mlines)
    for c in cases:
        if "calls" not in c:
            continue
        judge_producer(env, c, mout, mres.get(c["id"]))
    # (round 3) the whole frame through producer_frame_fb: history threaded by the model across producer blocks, blocks that
    # fell back to the internal parser (fallback_history) and blocks emitted raw / RLE
    flines, fmeta = [], {}
    for c in cases:
        if not c.get("frame_tie"):
            continue
        r = producer_frame_line(env, c["id"], c["ap"], c["fb"], c["calls"], c["plan"], c["cblocks"])
        if r:
            flines.append(r[0])
            fmeta[c["id"]] = (c, r[1])
    fout = env.model(flines) if flines else {}
    for cid, (c, hists) in fmeta.items():
        if judge_producer_frame(env, cid, c["frame_tie"], fout.get(cid + "~f", "MISSING"), hists, c["cblocks"]):
            ctx.count(("producer-frame", len(c["frame_tie"]["fallback_blocks"]) > 0, min(len(c["calls"]), 4),
                       any(b["type"] != 2 for b in c["cblocks"])), nontrivial=len(c["calls"]) > 1)


def judge_producer(env, c, mout, rres):
    ctx = env.ctx
    t = c["res"]
    x = c["x"]
    ap = c["ap"]
    calls = c["calls"]
    rp = dict(kind="producer", params=c["params"], dictmode=c.get("dictmode", "-"), dict_hex=c.get("dict", b"").hex(), input_hex=x.hex()[:200000], plan=[(k, seqs_str(s)[:20000], r) for k, s, r, _ in c["plan"]], result=" ".join(t)[-300:], calls=calls)
    # capacity handed to the producer must be ZSTD_sequenceBound(block size)  (T-tie of the bound used by post-processing)
    verdicts = []
    expect_fail = None
    for k, (srcsz, cap, wsz) in enumerate(calls):
        v = mout.get("%s.%d" % (c["id"], k), "MISSING").split(" ")
        va = mout.get("%s.%d~a" % (c["id"], k), "MISSING").split(" ")
        if getattr(env, "prodpos_fixed", False):
            v = va          # the code validates at the position in the frame
        elif v[0] == "FAILINVALID" and va[0] == "STORE" and k < len(c["plan"]) and c["plan"][k][3] and c["plan"][k][0] == "seqs":
            # direct oracle: a valid parse from the producer must be accepted; the code (and its mirror, position 0) refuses it
            env.report(dict(rp, failing_call=k, block_position=sum(q[0] for q in calls[:k])), key=KEY_PRODPOS,
                       what="producer answer %d is a valid parse (accepted by the model at the block's position %d in the frame) but validation, restarted "
                            "at position 0 for the block, refuses it: %s" % (k, sum(q[0] for q in calls[:k]), " ".join(t[:2])))
        verdicts.append(v[0])
        if wsz != 1 << ap["wl"]:
            env.report(rp, what="producer was handed windowSize %d, applied windowLog is %d" % (wsz, ap["wl"]))
        if v[0] in ("FAILPRODUCER", "FAILINVALID"):
            expect_fail = (k, v)
            break
        if v[0] == "OOB":
            expect_fail = (k, v)
            break
    sig = ("producer", tuple(sorted(set(verdicts))), c["fb"], ap["val"], ap["ers"], c.get("dictmode", "-") != "-")
    if expect_fail:
        k, v = expect_fail
        if v[0] == "OOB":
            ctx.count(sig + ("oob",))
            return
        want = PRODFAIL if v[0] == "FAILPRODUCER" else INVALID
        if t[0] != "ERR" or t[1] != want or len(calls) != k + 1:
            env.report(dict(rp, model=" ".join(v), failing_call=k),
                       what="correspondence (producer): model says the call fails with %s at producer call %d (fallback=%d), implementation: %s after %d calls"
                            % (want, k, c["fb"], " ".join(t[:2]), len(calls)))
        else:
            ctx.count(sig + ("fail",))
            ctx.cov["traces_validated_against_impl"] += 1
        return
    if t[0] != "OK":
        env.report(dict(rp, verdicts=verdicts), what="correspondence (producer): model accepts every block (%s) but compress2 returned %s" % (verdicts, " ".join(t[:2])))
        return
    # accepted: must round trip (fallback blocks and accepted producer parses alike), through libzstd and R
    dtok = [q for q in t if q.startswith("d=")]
    stored_valid = all(c["plan"][k][3] for k, v in enumerate(verdicts) if v == "STORE" and k < len(c["plan"]))
    if (dtok and dtok[0] != "d=ok") or not rres or rres[0] != "OK" or rres[1] != x:
        # an answer that passes the copier without being a valid parse may yield a corrupt frame ("data corruption may occur if the
        # parse is not valid"): only calls whose stored answers were all valid parses are judged
        if stored_valid:
            after_fallback = any(v == "FALLBACK" for v in verdicts[:-1]) and "STORE" in verdicts[verdicts.index("FALLBACK"):]
            env.report(rp, key=KEY_FALLBACK_REP if after_fallback and dtok and dtok[0] == "d=diff" else None,
                       what="compress2 with a sequence producer giving valid parses: frame does not decode to the source (%s, R %s)%s"
                            % (dtok, rres[:1] if rres else None, "; a producer block follows a block that fell back to the internal parser" if after_fallback else ""))
        else:
            ctx.count(sig + ("stored-invalid-parse",), nontrivial=False)
        return
    tb = c.get("cblocks")
    if tb is None:
        return
    if len(tb) != len(calls):
        env.report(dict(rp, blocks=len(tb)), what="producer calls (%d) and frame blocks of >= 7 bytes (%d) differ with the block splitter disabled" % (len(calls), len(tb)))
        return
    for k, b in enumerate(tb):
        v = mout.get("%s.%d" % (c["id"], k), "MISSING").split(" ")
        if v[0] != "STORE" or b["type"] != 2:
            continue
        lastll, rep, sq = v[1].split("/")
        st = [] if sq == "-" else [tuple(int(a) for a in q.split(".")) for q in sq.split(";")]
        hist = c["reps"][k]
        exp = []
        ok = True
        for ll, ml, ob in st:
            r = resolve(ob, ll, hist)
            if r is None:
                ok = False
                break
            exp.append((ll, ml, r[0], ob.bit_length() - 1))
            hist = r[1]
        got = [tuple(g) for g in (b["seqs"] or [])]
        if ok and got != exp:
            j = next((i for i, (g, e) in enumerate(zip(got, exp)) if g != e), min(len(got), len(exp)))
            env.report(dict(rp, block=k, got=got[j:j + 3], model=exp[j:j + 3]),
                       what="correspondence (producer): block %d sequences differ from the model's seqStore at %d: frame %s model %s" % (k, j, got[j:j + 1], exp[j:j + 1]))
            return
    ctx.count(sig + ("ok", min(len(calls), 3)))
    ctx.cov["traces_validated_against_impl"] += 1
    c["frame_tie"] = dict(rp, fallback_blocks=[k for k, v in enumerate(verdicts) if v == "FALLBACK"])


# --------------------------------------------------------------------------------------------------

def replay(env, ctx):
    obj = json.load(open(ctx.replay_file))
    rp = obj.get("replay", {})
    if rp.get("kind") != "compressSequences":
        core.log("replay: kind %r is re-executed by a full run only" % rp.get("kind"))
        return False
    c = dict(id="r0", x=bytes.fromhex(rp.get("input_hex", "")), params=rp["params"], dictmode=rp.get("dictmode", "-"),
             dict=bytes.fromhex(rp.get("dict_hex", "")), seqs=parse_seqs(rp.get("seqs", "-")), expect="model", origin="replay:" + rp.get("origin", ""))
    c["delims"] = c["params"].get("blockDelimiters", 0)
    if rp.get("dict_hs"):
        c["dict_hs"] = rp["dict_hs"]
        c["dict_rep"] = tuple(rp.get("dict_rep") or (1, 4, 8))
        c["dict_content"] = c["dict"][c["dict_hs"]:]
    o = rp.get("origin", "")
    if o.startswith("parser") or o.startswith("generateSequences"):
        c["expect"] = "valid"
    elif o.startswith("corrupt") and c["params"].get("validateSequences"):
        c["expect"] = "corrupt"
    out, _ = env.impl([a_line(c)])
    if out.get("r0", "").startswith("OK"):
        c["ap"] = adjust_ap(c, parse_applied(out["r0"].split(" ")[1]))
    run_q(env, [c])
    core.log("replay: real result %s" % (str(c.get("real"))[:300],))
    return True


def run(ctx):
    ctx.cov["rule"] = (
        "cases = (source kind x size clustered at block edges 1 KiB / 128 KiB) x (parse: randomised greedy parser [max / random / short match "
        "lengths, repcode-biased, far offsets], the library's own ZSTD_generateSequences output with and without ZSTD_mergeBlockDelimiters, "
        "scripted external producer answers) x (blockDelimiters, validateSequences, searchForExternalRepcodes, minMatch 3..7, windowLog, "
        "maxBlockSize, raw-content dictionary via load/cdict/prefix) + single-field corruptions (offset/matchLength/litLength +-1, 0, bound, "
        "bound+1, 2^31, 2^32-1..4; delimiter dropped / duplicated / inserted / lengths not summing / ill-formed) + unit-level grids for "
        "ZSTD_validateSequence, ZSTD_finalizeOffBase+ZSTD_updateRep, ZSTD_postProcessSequenceProducerResult, ZSTD_copyBlockSequences, "
        "ZSTD_sequenceBound.  Every case runs on the real code and on the extracted model; accepted frames are decoded by R and libzstd.  "
        "distinct = distinct (verdict class, model reject site / block-shape set [compressed vs raw, number of distinct offset-code classes "
        "used, last literals present], origin, delimiter mode, validation, repcode-search mode, dictionary, minMatch class); non-trivial = "
        "non-empty source / non-empty list")
    ctx.prove()
    env = Env(ctx)
    rng = random.Random(ctx.seed)
    detect_rule(env)
    ctx.notes["copier_variant_detected"] = ("repaired (size_t length test, raw offset tested at the match start)" if env.fixed else
                                            "snapshot (F4 repaired: %s, repcode bypass repaired: %s, U32 wrap repaired: %s)" % (env.f4_fixed, env.rep_fixed, env.wrap_fixed))
    if ctx.replay_file:
        replay(env, ctx)
        ctx.proof_verdict(None)
        return
    quick = ctx.quick
    detect_gen_rule(env)
    run_units(env, rng, 400 if quick else 4000)
    run_merge_random(env, rng, 150 if quick else 1500)
    cases = build_q_cases(ctx, rng, env, (150, 10) if quick else (1500, 120))
    cases = finish_parses(env, rng, cases)
    run_q(env, cases)
    cor = derive_corruptions(rng, cases, 4 if quick else 12, "k")
    run_q(env, cor)
    gq = run_generate(env, rng, 12 if quick else 100)
    run_q(env, gq)
    producer_huge_lengths(env)
    detect_producer_position(env)
    producer_many_short(env, rng)
    producer_splitter_adversarial(env, rng)
    producer_fallback_history(env, rng, 12 if quick else 100)
    run_producer(env, rng, 60 if quick else 600)
    run_context_histories(env, rng, 24 if quick else 200)
    ctx.notes["origins"] = {}
    for c in cases + cor + gq:
        o = c.get("origin", "?").split(":")[0]
        ctx.notes["origins"][o] = ctx.notes["origins"].get(o, 0) + 1
    if not quick:
        # sanitizer variant: arbitrary arrays
        aenv = Env(ctx, variant="asan")
        aenv.fixed, aenv.f4_fixed, aenv.rep_fixed, aenv.wrap_fixed = env.fixed, env.f4_fixed, env.rep_fixed, env.wrap_fixed
        aenv.reported = env.reported
        cor2 = derive_corruptions(rng, cases, 10, "z")
        run_q(aenv, cor2)

    def search(broken):
        # a broken theorem: the direct oracle has already been run over the whole case set above
        return []
    ctx.proof_verdict(search)
