"""C16 round 2 - composite setters, pledged source size, applied parameters (cctx->appliedParams, mtctx->params),
dictionary calls on both sides: generators, the direct oracle (documentation-derived rules evaluated on the real outputs)
and the scenarios of the repaired findings F27, F29-F33.  Used by zv/props/c16.py."""

UNK = (1 << 64) - 1
PLEDGES = [0, 100, 200, 300, 99, 101, 5000, 524288, 524289, 600000, 1 << 32, (1 << 32) + 100, UNK, UNK - 1, 1 << 63]
C_OBS = ("cvec", "cxvec", "cavec", "cmvec")
OBSERVERS = ("cvec", "cxvec", "cavec", "cmvec", "cuse", "pvec", "dvec", "dxvec")
CPAR_NAMES = ["windowLog", "chainLog", "hashLog", "searchLog", "minMatch", "targetLength", "strategy"]
COPIED = ["format", "checksumFlag", "dictIDFlag", "forceMaxWindow", "forceAttachDict", "literalCompressionMode", "jobSize", "overlapLog",
          "rsyncable", "enableDedicatedDictSearch", "targetCBlockSize", "srcSizeHint", "blockDelimiters", "validateSequences",
          "deterministicRefPrefix", "prefetchCDictTables", "enableSeqProducerFallback"]
INIT_OPS = ("cinit", "cinitsrc", "cinitdict", "cinitcdict", "cinitcdictadv", "cinitadv", "cresetcs")      # round 3
FRAME_OPS = ("cbegin", "cend", "cframe", "cfail", "cfxwin", "csimple")
SIZES = {"cframe": 300, "cfxwin": 5000, "csimple": 300}

# (key, what) of the repaired findings whose scenario must keep agreeing with the model
KEYS = {
    "F27": ("C16-oneshot-pledge-leak", "a single-call compression leaves its source size pledged for the next streamed frame"),
    "F29": ("C16-refmulti-stale-dictid", "ZSTD_decompressStream selects among the referenced DDicts by the dictID of the PREVIOUS frame"),
    "F30": ("C16-refmulti-oneshot-tables", "one-shot decompression with several referenced DDicts decodes the frame with the previously active DDict"),
    "F31": ("C16-refused-midframe-set-reparametrises-mt", "a refused mid-frame ZSTD_CCtx_setParameter re-parametrises the running multithreaded frame"),
    "F32": ("C16-fparams-negative-checksumflag", "a negative ZSTD_frameParameters.checksumFlag yields a frame whose header does not announce the checksum that is appended"),
    "F33": ("C16-cparamschanged-survives-frame", "a parameter update made during one frame re-parametrises the next multithreaded frame"),
    "R3a": ("C16-ddictset-survives-parameter-reset", "ZSTD_DCtx_reset(parameters) keeps the DDicts referenced for ZSTD_d_refMultipleDDicts: a dropped DDict is selected again"),
    "R3b": ("C16-refmulti-select-bypasses-dictid-check", "with ZSTD_d_refMultipleDDicts the selection of a referenced DDict vouches for whatever dictionary was loaded: the dictID check passes"),
    "R3d": ("C16-refmulti-select-destroys-loaded-dictionary", "decoding a frame that names a referenced DDict destroys the dictionary loaded into the context"),
    "R3e": ("C16-d-maxblocksize-ignored-by-bufferless-decoding", "ZSTD_d_maxBlockSize is not in force for frames decoded with ZSTD_decompressBegin / ZSTD_decompressContinue"),
    "R3h": ("C16-prefix-used-up-by-failing-frame-start", "a pending prefix is used up by a frame start / single call that fails"),
    "R3c": ("C16-simple-api-leaves-stream-open", "a single-call compression on a context with an open streaming frame leaves the session open"),
}


def cobs(o, use=False):
    return ["cvec %d" % o, "cxvec %d" % o, "cavec %d" % o, "cmvec %d" % o] + (["cuse %d" % o] if use else [])


def dobs(o):
    return ["dvec %d" % o, "dxvec %d" % o]


def with_obs(ops):
    """every call followed by the observers of its object (the oracles judge a call between two vectors of its object)"""
    out = []
    for op in ops:
        t = op.split()
        out.append(op)
        if t[0] in OBSERVERS or t[0] in ("new", "cover", "fixture"):
            continue
        if t[0][0] == "c":
            out += cobs(int(t[1]), t[0] in ("cend", "cframe", "csimple", "cfxwin"))
        elif t[0][0] == "d":
            out += dobs(int(t[1]))
        elif t[0][0] == "p":
            out.append("pvec")
    return out


def cheap_cpar(rng, env, c16, bad=None):
    """seven cParams, cheap to allocate; bad = (index, kind) puts one field out of bounds"""
    vals = []
    for n in CPAR_NAMES:
        lo, hi = env.cb[env.cid[n]]
        v = c16.cheap_value(rng, n, False)
        if v == 0 and n != "targetLength":
            v = lo
        vals.append(v)
    if bad is not None:
        i, kind = bad
        lo, hi = env.cb[env.cid[CPAR_NAMES[i]]]
        vals[i] = {"lo-1": lo - 1, "hi+1": hi + 1, "zero": 0 if CPAR_NAMES[i] != "targetLength" else -1, "neg": -1,
                   "intmax": 2 ** 31 - 1, "intmin": -2 ** 31, "lo": lo, "hi": hi}[kind]
    return vals


def scenarios(env):
    """the repaired findings: (tag, ops).  Every line is compared with the model like any other case."""
    nbw, hl, lvl, rm = env.cid["nbWorkers"], env.cid["hashLog"], env.cid["compressionLevel"], env.did["refMultipleDDicts"]
    out = []
    out.append(("F27", ["new", "csimple 0"] + cobs(0) + ["cbegin 0"] + cobs(0) + ["cend 0"] + cobs(0, True)))
    # F29: dict-1 frame, then loadDictionary(2) / refPrefix(1), streaming and one-shot
    for attach, f in (("dload 0 2", 2), ("drefprefix 0 1", 3)):
        for dec in ("ddec", "ddec1"):
            out.append(("F29", ["new", "dset 0 %d 1" % rm, "drefddict 0 1", "ddec 0 1"] + dobs(0) + [attach] + dobs(0) + ["%s 0 %d" % (dec, f)] + dobs(0)))
    # F30: both referenced, one-shot of the one that is not active; multi-frame inputs; explicit DDict
    for last, f in ((2, 1), (1, 2)):
        out.append(("F30", ["new", "dset 0 %d 1" % rm, "drefddict 0 %d" % (3 - last), "drefddict 0 %d" % last] + dobs(0) + ["ddec1 0 %d" % f] + dobs(0) + ["ddec1 0 %d" % f] + dobs(0)))
    for fs in ((1, 2, 0), (2, 0, 1), (0, 0, 1), (2, 1, 2)):
        out.append(("F30", ["new", "dset 0 %d 1" % rm, "drefddict 0 1", "drefddict 0 2", "ddecm 0 %d %d %d" % fs] + dobs(0)))
    out.append(("F30", ["new", "dset 0 %d 1" % rm, "drefddict 0 1", "drefddict 0 2", "ddecu 0 2 1"] + dobs(0) + ["ddecu 0 1 2"] + dobs(0)))
    out.append(("F30", ["new", "dset 0 %d 1" % rm, "drefddict 0 1", "dload 0 1"] + dobs(0) + ["ddec1 0 1"] + dobs(0)))
    # F31: refused mid-frame set in a multithreaded frame shaped by a prefix / by a pledge
    for shape in (["crefprefix 0 1"], ["cpl 0 600000"], ["crefprefix 0 2", "cpl 0 700000"]):
        out.append(("F31", ["new", "cset 0 %d 1" % nbw] + shape + ["cbegin 0"] + cobs(0) + ["cset 0 %d 99" % hl] + cobs(0) + ["cbegin 0"] + cobs(0)
                    + ["cset 0 %d 7" % hl] + cobs(0) + ["cbegin 0"] + cobs(0)))
    # F32: negative / large raw frame-parameter flags through ZSTD_CCtxParams_init_advanced
    for ck in (-1, -2 ** 31, 2, 2 ** 31 - 1):
        out.append(("F32", ["new", "pinitadv 17 12 12 1 4 0 1 1 %d 0" % ck, "pvec", "capply 0"] + cobs(0) + ["cframe 0"] + cobs(0, True)
                    + ["cbegin 0"] + cobs(0) + ["cend 0"] + cobs(0, True)))
    # F33: accepted update in a single-thread frame, then a multithreaded frame with a prefix
    out.append(("F33", ["new", "cbegin 0", "cset 0 %d 3" % lvl] + cobs(0) + ["cend 0"] + cobs(0) + ["cset 0 %d 1" % nbw, "crefprefix 0 1", "cbegin 0"] + cobs(0)
                + ["cend 0"] + cobs(0, True)))
    out.append(("F33", ["new", "cset 0 %d 3" % lvl, "cset 0 %d 1" % nbw, "crefprefix 0 1", "cbegin 0"] + cobs(0) + ["cend 0"] + cobs(0, True)))
    # R3a (round 3): a parameter reset drops the set of referenced DDicts; the dropped one is not selected again
    for rs in (2, 3):
        for dec in ("ddec", "ddec1"):
            out.append(("R3a", ["new", "dset 0 %d 1" % rm, "drefddict 0 1", "dreset 0 %d" % rs, "%s 0 1" % dec, "dset 0 %d 1" % rm, "drefddict 0 2",
                                "%s 0 1" % dec, "%s 0 2" % dec, "ddecm 0 2 1 0", "ddecu 0 2 1"]))
    out.append(("R3a", ["new", "dset 0 %d 1" % rm, "drefddict 0 1", "drefddict 0 2", "dreset 0 2", "dset 0 %d 1" % rm, "dload 0 2", "ddec 0 1", "ddec1 0 1", "ddec 0 2"]))
    # the parameter off, then the reset: the set of referenced DDicts goes all the same
    out.append(("R3a", ["new", "dset 0 %d 1" % rm, "drefddict 0 1", "dset 0 %d 0" % rm, "dreset 0 2", "dset 0 %d 1" % rm, "drefddict 0 2", "ddec 0 1", "ddec1 0 1", "ddec 0 2"]))
    out.append(("R3a", ["new", "dset 0 %d 1" % rm, "drefddict 0 2", "drefddict 0 1", "dset 0 %d 0" % rm, "drefddict 0 2", "dreset 0 3", "dset 0 %d 1" % rm, "drefddict 0 2", "ddec1 0 1"]))
    # R3b (round 3): raw dictionary bytes given to a context that references DDicts: the dictID check is not bypassed
    for refs in (["drefddict 0 1"], ["drefddict 0 1", "drefddict 0 2"], ["drefddict 0 2", "dload 0 2"], ["drefddict 0 1", "drefprefix 0 1"]):
        out.append(("R3b", ["new", "dset 0 %d 1" % rm] + refs + ["ddecr 0 2 1", "ddecr 0 1 1", "ddecr 0 0 1", "ddecr 0 1 2", "ddecr 0 2 2", "ddecr 0 0 0", "ddecr 0 1 3", "ddec 0 1"]))
    out.append(("R3b", ["new", "dset 0 %d 1" % rm, "drefddict 0 1", "dset 0 %d 1" % env.did["forceIgnoreChecksum"], "ddecr 0 2 1", "ddecr 0 1 1"]))
    # R3d (round 3): a loaded dictionary (or a prefix) next to referenced DDicts stays in force whatever frames are decoded
    for hold in ("dload 0 2", "dload 0 1"):
        for dec in ("ddec", "ddec1"):
            out.append(("R3d", ["new", "dset 0 %d 1" % rm, "drefddict 0 1", hold, "%s 0 2" % dec, "%s 0 1" % dec, "%s 0 2" % dec, "%s 0 1" % dec, "ddecm 0 2 2 0"]))
    out.append(("R3d", ["new", "dset 0 %d 1" % rm, "drefddict 0 1", "drefddict 0 2", "drefprefix 0 1", "ddec 0 1", "ddec 0 3", "ddec 0 1", "drefddict 0 1", "ddec 0 2", "ddec 0 1"]))
    # R3e (round 3): ZSTD_d_maxBlockSize on every decoding path (G2 starts with a 4096-byte block)
    mb = env.did["maxBlockSize"]
    for v in (1024, 4095, 4096, 0, 131072):
        out.append(("R3e", ["new", "dset 0 %d %d" % (mb, v), "dfx 0 2", "dfxb 0 2", "dfx 0 0", "dfxb 0 0", "dreset 0 2", "dfxb 0 2"]))
    out.append(("R3e", ["new", "dset 1 %d 2048" % mb, "dfxb 1 2", "dfx 1 2", "dfxb 1 0", "dfxb 1 3", "dfxb 1 1", "dfxb 1 4"]))
    # R3h (round 3, fixes b15fdb6 / b87b37f found by C02): a failing start keeps the prefix pending, the retry uses it
    mw = env.did["windowLogMax"]
    out.append(("R3h", ["new", "dset 0 %d 10" % mw, "drefprefix 0 1", "dfx 0 2", "dset 0 %d 12" % mw, "dfx 0 2", "dfx 0 0"]))
    out.append(("R3h", ["new", "drefprefix 0 1", "dfx 0 4", "ddec 0 3", "ddec 0 3"]))
    out.append(("R3h", ["new", "drefprefix 0 2", "ddec1 0 1", "ddec1 0 4", "ddec1 0 4"]))
    out.append(("R3h", ["new", "drefprefix 0 1", "ddecm 0 3 1 0", "ddec1 0 3", "ddec1 0 0"]))
    out.append(("R3h", ["new", "dbegin 0", "ddec1 0 0", "dset 0 %d 11" % mw, "dbegin 0", "ddecr 0 1 1", "drefddict 0 1", "ddec 0 1"]))
    # R3c (round 3): ZSTD_compressCCtx in the middle of a streamed frame closes the session
    for tail in (["cbegin 0", "cend 0"], ["cend 0"], ["cset 0 %d 1" % env.cid["checksumFlag"], "cframe 0"], ["cpl 0 200", "cbegin 0", "cbegin 0", "cend 0"]):
        out.append(("R3c", ["new", "cbegin 0", "csimple 0"] + tail))
    out.append(("R3c", ["new", "cpl 0 300", "cbegin 0", "csimple 0", "cbegin 0", "cend 0"]))
    out.append(("R3c", ["new", "cload 0 1", "cbegin 0", "csimple 0", "cframe 0"]))
    out.append(("R3c", ["new", "cfail 0", "csimple 0", "cbegin 0", "cend 0"]))
    return [(tag, with_obs([o for o in ops if o.split()[0] not in OBSERVERS])) for tag, ops in out]


def gen_grid2(rng, env, tier, c16):
    """boundary grid of the round-2 calls; each cell one case: (ops, signature)"""
    cases = []
    stages = {k: v for k, v in c16.C_STAGES.items()}
    quick = tier == "quick"
    cs_names = ["fresh", "dirty", "mid", "after-failed-compress2", "after-frame-stream", "mid+reset-session", "after-simple-api"] if quick else list(stages)

    def setup(o, sname, dirty=True):
        s = stages[sname](o)
        ops = ["new"]
        if s is not None:
            ops += (c16.dirty_c(rng, env, o, 0.35) if dirty else []) + s
        return ops

    # ---- composite setters: every field at its boundaries, in every stage
    kinds = ["lo-1", "hi+1", "zero", "neg", "intmax", "intmin", "lo", "hi"]
    for o in (0, 1):
        for sname in cs_names:
            if quick and o == 1 and sname not in ("fresh", "mid", "dirty"):
                continue
            probes = []
            for i in range(7):
                for kind in (kinds if not quick else ["lo-1", "hi+1", "zero", "lo", "hi"]):
                    probes.append(("csetcp", "csetcp %d %s" % (o, " ".join(map(str, cheap_cpar(rng, env, c16, (i, kind))))), CPAR_NAMES[i] + ":" + kind))
            for _ in range(2 if quick else 8):
                probes.append(("csetcp", "csetcp %d %s" % (o, " ".join(map(str, cheap_cpar(rng, env, c16)))), "valid"))
            for fp in ((0, 0, 0), (1, 1, 1), (1, 0, 0), (5, -3, 7), (0, 2 ** 31 - 1, -2 ** 31)):
                probes.append(("csetfp", "csetfp %d %d %d %d" % ((o,) + fp), "raw" if max(map(abs, fp)) > 1 else "01"))
            for bad in (None, (0, "hi+1"), (6, "zero"), (3, "lo-1")):
                fp = rng.choice([(0, 1, 0), (1, 0, 1), (3, -1, 2)])
                probes.append(("csetp", "csetp %d %s %d %d %d" % ((o, " ".join(map(str, cheap_cpar(rng, env, c16, bad)))) + fp), "valid" if bad is None else "bad"))
            for kind, probe, cls in probes:
                ops = setup(o, sname) + cobs(o) + [probe] + cobs(o)
                if rng.random() < 0.3:
                    ops += ["cframe %d" % o] + cobs(o, True)
                cases.append((ops, ("X", o, sname, kind, cls)))
            # ---- pledge
            for v in (PLEDGES if not quick else [0, 100, 200, 300, 101, 600000, UNK, 1 << 63]):
                for follow in (["cbegin", "cend"], ["cbegin", "cbegin", "cend"], ["cend"], ["cframe"], ["csimple"], ["creset 1", "cbegin", "cend"],
                               ["creset 2", "cbegin", "cend"], ["cbegin", "cbegin", "cbegin", "cend"], ["cfxwin"], ["cfail", "creset 1", "cbegin", "cend"]):
                    if quick and rng.random() < 0.55:
                        continue
                    ops = setup(o, sname, dirty=rng.random() < 0.5) + cobs(o) + ["cpl %d %d" % (o, v)] + cobs(o)
                    for f in follow:
                        t = f.split()
                        ops += ["%s %d%s" % (t[0], o, "".join(" " + x for x in t[1:]))] + cobs(o, t[0] in ("cend", "cframe", "csimple", "cfxwin"))
                    cases.append((ops, ("PL", o, sname, "unk" if v == UNK else "big" if v > 10 ** 6 else str(v), "+".join(follow))))
    # ---- round 3: the deprecated stream initialisers x stage x arguments x following frames
    def init_probes(o):
        good = " ".join(map(str, cheap_cpar(rng, env, c16)))
        out = []
        for lv in (0, 1, 3, -5, 22, 23, -(1 << 17) - 1, 2 ** 31 - 1, -2 ** 31):
            out.append("cinit %d %d" % (o, lv))
        for lv, pss in ((1, 0), (3, 100), (2, 200), (1, UNK), (0, 300), (-1, 1 << 63), (19, 5000)):
            out.append("cinitsrc %d %d %d" % (o, lv, pss))
        for k in (0, 1, 2):
            out.append("cinitdict %d %d %d" % (o, k, rng.choice([1, 2, 3, 0, -1])))
            out.append("cinitcdict %d %d" % (o, k))
            for fp in ((0, 0, 0), (1, 1, 1), (1, 0, 0), (0, 1, 0)):
                out.append("cinitcdictadv %d %d %d %d %d %d" % ((o, k) + fp + (rng.choice([0, 100, 200, 300, UNK]),)))
            for bad in (None, None, (0, "hi+1"), (6, "zero"), (3, "lo-1"), (1, "intmax")):
                fp = rng.choice([(0, 0, 0), (1, 1, 1), (1, 0, 1), (0, 1, 0)])
                out.append("cinitadv %d %d %s %d %d %d %d" % ((o, k, " ".join(map(str, cheap_cpar(rng, env, c16, bad)))) + fp + (rng.choice([0, 0, 100, 200, 300, UNK]),)))
        for pss in (0, 100, 200, 300, UNK, 1 << 63, 101):
            out.append("cresetcs %d %d" % (o, pss))
        return out
    for o in (0, 1):
        for sname in cs_names:
            if quick and o == 1 and sname not in ("fresh", "mid", "dirty"):
                continue
            for probe in init_probes(o):
                if quick and rng.random() < (0.5 if o == 0 else 0.75):
                    continue
                ops = setup(o, sname, dirty=rng.random() < 0.6)
                if rng.random() < 0.3:
                    ops += [rng.choice(["cload", "crefcdict", "crefprefix"]) + " %d %d" % (o, rng.randint(1, 2))] if "mid" not in sname else []
                ops += [probe]
                ops += [x + " %d" % o for x in rng.choice([["cbegin", "cend"], ["cframe"], ["cend"], ["cbegin", "cbegin", "cend"], ["cbegin", "cbegin", "cbegin", "cend"],
                                                           ["cbegin", "cinit", "cbegin", "cend"], ["cframe", "cframe"], ["csimple", "cbegin", "cend"]]) if x != "cinit"]
                cases.append((with_obs([x for x in ops if x.split()[0] not in OBSERVERS]), ("INIT", o, sname, probe.split()[0], c16.vclass(int(probe.split()[2]), -5, 22) if probe.split()[0] in ("cinit", "cinitsrc") else probe.split()[2])))
    # direct rule: feeding beyond the pledge must fail (no model)
    for o in (0, 1):
        for pledged, fed in ((0, 1), (0, 100), (50, 100), (99, 100), (100, 101), (1000, 5000), (4999, 5000)):
            cases.append((["new", "cover %d %d %d" % (o, pledged, fed)], ("OVER", o, pledged, fed)))
    # ---- ZSTD_CCtxParams_init_advanced
    for dirty in (False, True):
        for i in range(7):
            for kind in kinds:
                ops = ["new"] + (["pset %d %d" % (j, c16.cheap_value(rng, env.cname[j], False)) for j in env.cids if rng.random() < 0.5] if dirty else [])
                ops += ["pvec", "pinitadv %s %d %d %d" % (" ".join(map(str, cheap_cpar(rng, env, c16, (i, kind)))), rng.randint(0, 1), rng.randint(0, 1), rng.randint(0, 1)), "pvec"]
                cases.append((ops, ("PIA", dirty, CPAR_NAMES[i], kind)))
        for wl, st in ((14, 3), (15, 3), (16, 5), (17, 7), (17, 2), (14, 9)):   # thresholds of the resolved switches (cheap side)
            for fp in ((1, 0, 0), (0, 1, 1), (2, 3, 4)):
                ops = ["new", "pvec", "pinitadv %d 12 12 2 4 8 %d %d %d %d" % ((wl, st) + fp), "pvec", "capply 0"] + cobs(0) + ["cframe 0"] + cobs(0, True)
                cases.append((ops, ("PIA", dirty, "resolve", "%d/%d" % (wl, st))))
    # ---- dictionary calls of a compression context: call x k x stage x what was attached before; frames show what is used
    attach = ["cload", "crefcdict", "crefprefix"]
    for o in (0, 1):
        for sname in cs_names:
            if quick and o == 1 and sname not in ("fresh", "mid"):
                continue
            for first in [None] + [(a, k) for a in attach for k in (1, 2)]:
                for second in [(a, k) for a in attach for k in (0, 1, 2)]:
                    if quick and rng.random() < 0.6:
                        continue
                    ops = setup(o, sname, dirty=False) + cobs(o)
                    if first:
                        ops += ["%s %d %d" % (first[0], o, first[1])] + cobs(o)
                    ops += ["%s %d %d" % (second[0], o, second[1])] + cobs(o)
                    tail = rng.choice([["cframe", "cframe"], ["cbegin", "cend", "cframe"], ["cend", "cbegin", "cend"], ["cframe", "creset 1", "cframe"],
                                       ["creset 1", "cframe", "cframe"], ["creset 2", "cframe"], ["cfail", "cframe"], ["csimple", "cframe"],
                                       ["cbegin", "creset 1", "cframe", "cframe"], ["cframe", "creset 3", "cframe"]])
                    for f in tail:
                        t = f.split()
                        ops += ["%s %d%s" % (t[0], o, "".join(" " + x for x in t[1:]))] + cobs(o, t[0] in ("cend", "cframe", "csimple"))
                    cases.append((ops, ("CD", o, sname, str(first), "%s%d" % second, "+".join(tail))))
    # dictID flag at load time / at frame time
    did = env.cid["dictIDFlag"]
    for a in (0, 1):
        for b in (0, 1):
            for att in ("cload 0 1", "crefcdict 0 2", "crefprefix 0 1"):
                ops = ["new", "cset 0 %d %d" % (did, a), att] + cobs(0) + ["cframe 0"] + cobs(0, True) + ["cset 0 %d %d" % (did, b)] + cobs(0) + ["cframe 0"] + cobs(0, True)
                cases.append((ops, ("CDID", a, b, att.split()[0])))
    # ---- mid-frame updates: the seven authorised parameters, accepted and refused, single-thread and multithreaded
    nbw = env.cid["nbWorkers"]
    for mt in (0, 1, 2):
        for shape in ([], ["crefprefix 0 1"], ["cpl 0 600000"], ["cpl 0 %d" % UNK, "crefprefix 0 2"]):
            for name in sorted(c16.AUTHORIZED):
                idv = env.cid[name]
                lo, hi = env.cb[idv]
                good = c16.cheap_value(rng, name, False)
                for v in ([good, hi + 1, lo - 1] if quick else [good, lo, hi + 1, lo - 1, 0, 2 ** 31 - 1]):
                    if quick and rng.random() < 0.5:
                        continue
                    ops = ["new", "cset 0 %d %d" % (nbw, mt)] + shape + ["cbegin 0"] + cobs(0) + ["cset 0 %d %d" % (idv, v)] + cobs(0) + ["cbegin 0"] + cobs(0)
                    ops += ["cset 0 %d %d" % (env.cid["windowLog"], 12)] + cobs(0) + ["cbegin 0"] + cobs(0) + ["cend 0"] + cobs(0, True) + ["cbegin 0"] + cobs(0)
                    cases.append((ops, ("MID", mt, len(shape), name, c16.vclass(v, lo, hi))))
    # the size below which a frame is not multithreaded: ZSTDMT_JOBSIZE_MIN itself is "too small"
    jm = env.k["ZSTDMT_JOBSIZE_MIN"]
    for w in (1, 2):
        for v in (jm - 1, jm, jm + 1, UNK):
            ops = ["new", "cset 0 %d %d" % (nbw, w)] + cobs(0) + ["cpl 0 %d" % v] + cobs(0) + ["cbegin 0"] + cobs(0) + ["creset 0 1"] + cobs(0)
            cases.append((ops, ("MTMIN", w, v - jm if v != UNK else "unk")))
    # ---- decoder side: dictionary calls x stage x previous state x refMultipleDDicts; decodes show what is used
    rm = env.did["refMultipleDDicts"]
    dattach = ["drefddict", "dload", "drefprefix"]
    for o in (0, 1):
        for sname in (["fresh", "dirty", "mid", "after-error", "after-frame", "mid+reset-session", "reset-parameters"] if quick else list(c16.D_STAGES)):
            for multi in (0, 1):
                if o == 1 and multi:
                    continue
                for first in [None] + [(a, k) for a in dattach for k in (1, 2)]:
                    for second in [(a, k) for a in dattach for k in (0, 1, 2)]:
                        if quick and rng.random() < 0.75:
                            continue
                        s = c16.D_STAGES[sname](o)
                        ops = ["new"] + (["dset %d %d 1" % (o, rm)] if multi else [])
                        if first:
                            ops += ["%s %d %d" % (first[0], o, first[1])] + dobs(o)
                        if s is not None:
                            ops += with_obs(s)
                        ops += dobs(o) + ["%s %d %d" % (second[0], o, second[1])] + dobs(o)
                        for _ in range(4):
                            d = rng.choice(["ddec", "ddec", "ddec1", "dframe", "dreset %d 1" % o, "dreset %d 2" % o, "dbegin", "dend", "dfx", "ddecr"])
                            if d.startswith("dreset"):
                                ops += [d]
                            elif d in ("ddec", "ddec1"):
                                ops += ["%s %d %d" % (d, o, rng.randint(0, 4))]
                            elif d == "ddecr":
                                ops += ["ddecr %d %d %d" % (o, rng.randint(0, 2), rng.randint(0, 4))]
                            elif d == "dfx":
                                ops += ["dfx %d %d" % (o, rng.randint(0, 4))]
                            else:
                                ops += ["%s %d" % (d, o)]
                            ops += dobs(o)
                        cases.append((ops, ("DD", o, sname, multi, str(first), "%s%d" % second)))
    # refMultipleDDicts: every order of references x every order of frames, streaming / one-shot / multi-frame / explicit DDict
    for refs in ((1, 2), (2, 1), (1,), (2,), (1, 2, 1)):
        for seq in ((1, 2, 0), (2, 1, 1), (0, 1, 2), (2, 2, 1), (3, 1, 2), (1, 4, 2)):
            for how in ("ddec", "ddec1", "mix"):
                ops = ["new", "dset 0 %d 1" % rm] + ["drefddict 0 %d" % r for r in refs] + dobs(0)
                for j, f in enumerate(seq):
                    ops += ["%s 0 %d" % (how if how != "mix" else ("ddec", "ddec1")[j % 2], f)] + dobs(0)
                ops += ["ddecm 0 %d %d %d" % seq] + dobs(0) + ["ddecu 0 %d %d" % (refs[0], seq[0])] + dobs(0)
                ops += ["ddecr 0 %d %d" % (3 - refs[0], seq[0])] + dobs(0) + ["ddecr 0 %d %d" % (refs[0], seq[1])] + dobs(0) + ["%s 0 %d" % ("ddec1" if how == "ddec1" else "ddec", seq[2])] + dobs(0)
                cases.append((ops, ("DM", refs, seq, how)))
    # round 3: a parameter reset in the middle of a multi-DDict history, then other references
    for refs in ((1,), (1, 2), (2, 1)):
        for rs in (2, 3):
            for again in ((), (2,), (1,), (2, 1)):
                for multi2 in (0, 1):
                    off = rng.random() < 0.5     # the parameter switched off before the reset: the set must go all the same
                    ops = ["new", "dset 0 %d 1" % rm] + ["drefddict 0 %d" % r for r in refs] + (["dset 0 %d 0" % rm] if off else []) + ["dreset 0 %d" % rs]
                    ops += (["dset 0 %d 1" % rm] if multi2 else []) + ["drefddict 0 %d" % r for r in again]
                    for f in (1, 2, 0):
                        ops += ["%s 0 %d" % (rng.choice(["ddec", "ddec1"]), f)]
                    ops += ["ddecr 0 %d %d" % (rng.randint(0, 2), rng.randint(0, 2))]
                    cases.append((with_obs(ops), ("DRS", refs, rs, again, multi2)))
    return cases


def gen_history2(rng, env, n, c16):
    """random history over all objects with the round-2 calls mixed in; every call is followed by the observers of its object"""
    ops = ["new"]
    sig = []
    for _ in range(n):
        c = rng.random()
        if c < 0.68:
            o = 0 if rng.random() < 0.75 else 1
            k = rng.random()
            if k < 0.25:
                idv = rng.choice(env.cids)
                if rng.random() < 0.4:
                    idv = env.cid[rng.choice(sorted(c16.AUTHORIZED))]
                b = env.cb[idv]
                v = c16.cheap_value(rng, env.cname[idv], o == 1) if rng.random() < 0.7 else c16.clip(c16.rand_value(rng, b[0], b[1]))
                op = "cset %d %d %d" % (o, idv, v)
            elif k < 0.32:
                op = "creset %d %d" % (o, rng.choice([1, 1, 2, 3, 0]))
            elif k < 0.62:
                op = rng.choice(["cbegin", "cbegin", "cbegin", "cend", "cend", "cframe", "cfail", "cbad", "csimple", "cfxwin"]) + " %d" % o
            elif k < 0.72:
                op = rng.choice(["cload", "crefcdict", "crefprefix"]) + " %d %d" % (o, rng.randint(0, 2))
            elif k < 0.75:
                op = "capply %d" % o
            elif k < 0.78:
                op = rng.choice(["cinit %d %d" % (o, rng.choice([1, 2, 3, 0, -1])), "cinitsrc %d %d %d" % (o, rng.choice([1, 2, 3]), rng.choice([0, 100, 200, 300, UNK])),
                                 "cinitdict %d %d %d" % (o, rng.randint(0, 2), rng.choice([1, 2, 3])), "cinitcdict %d %d" % (o, rng.randint(0, 2)),
                                 "cinitcdictadv %d %d %d %d %d %d" % (o, rng.randint(0, 2), rng.randint(0, 1), rng.randint(0, 1), rng.randint(0, 1), rng.choice([0, 100, 200, 300, UNK])),
                                 "cinitadv %d %d %s %d %d %d %d" % (o, rng.randint(0, 2), " ".join(map(str, cheap_cpar(rng, env, c16, None if rng.random() < 0.8 else (rng.randrange(7), "hi+1")))),
                                                                    rng.randint(0, 1), rng.randint(0, 1), rng.randint(0, 1), rng.choice([0, 100, 200, 300, UNK])),
                                 "cresetcs %d %d" % (o, rng.choice([0, 100, 200, UNK]))])
            elif k < 0.85:
                op = "cpl %d %d" % (o, rng.choice(PLEDGES))
            elif k < 0.90:
                op = "csetcp %d %s" % (o, " ".join(map(str, cheap_cpar(rng, env, c16, None if rng.random() < 0.7 else (rng.randrange(7), rng.choice(["lo-1", "hi+1", "zero", "neg"]))))))
            elif k < 0.95:
                op = "csetfp %d %d %d %d" % (o, rng.randint(0, 1), rng.randint(0, 1), rng.randint(0, 1))
            else:
                op = "csetp %d %s %d %d %d" % (o, " ".join(map(str, cheap_cpar(rng, env, c16, None if rng.random() < 0.7 else (rng.randrange(7), "hi+1")))),
                                              rng.randint(0, 1), rng.randint(0, 1), rng.randint(0, 1))
            ops += [op] + cobs(o, op.split()[0] in ("cend", "cframe", "csimple", "cfxwin"))
        elif c < 0.78:
            k = rng.random()
            if k < 0.5:
                idv = rng.choice(env.cids)
                op = "pset %d %d" % (idv, c16.cheap_value(rng, env.cname[idv], False))
            elif k < 0.6:
                op = "preset"
            elif k < 0.7:
                op = "pinit %d" % rng.choice([1, 3, -3, 0, 2])
            else:   # raw flags stay non-negative here: the negative checksum flag has its own scenario (F32)
                fp = (rng.randint(0, 1), rng.randint(0, 1), rng.randint(0, 1)) if rng.random() < 0.7 else (rng.choice([0, 2, 5]), rng.choice([0, 1, 2, 7]), rng.choice([0, 1, 2, -1]))
                op = "pinitadv %s %d %d %d" % ((" ".join(map(str, cheap_cpar(rng, env, c16, None if rng.random() < 0.75 else (rng.randrange(7), "hi+1")))),) + fp)
            ops += [op, "pvec"]
        else:
            o = 0 if rng.random() < 0.8 else 1
            k = rng.random()
            if k < 0.15:
                idv = rng.choice(env.dids)
                b = env.db[idv]
                name = env.dname[idv]
                v = rng.randint(b[0], b[1]) if name != "windowLogMax" else rng.randint(10, 31)
                if name == "stableOutBuffer":
                    v = 0
                if name == "format" and rng.random() < 0.7:
                    v = 0
                if name == "refMultipleDDicts" and rng.random() < 0.7:
                    v = 1
                op = "dset %d %d %d" % (o, idv, v)
            elif k < 0.22:
                op = "dreset %d %d" % (o, rng.choice([1, 1, 2, 3]))
            elif k < 0.40:
                op = rng.choice(["drefddict", "dload", "drefprefix"]) + " %d %d" % (o, rng.randint(0, 2))
            elif k < 0.70:
                op = rng.choice(["ddec", "ddec", "ddec1"]) + " %d %d" % (o, rng.randint(0, 4))
            elif k < 0.76:
                op = "ddecm %d %d %d %d" % (o, rng.randint(0, 4), rng.randint(0, 4), rng.randint(0, 4))
            elif k < 0.80:
                op = "ddecu %d %d %d" % (o, rng.randint(0, 2), rng.randint(0, 4))
            elif k < 0.84:
                op = "ddecr %d %d %d" % (o, rng.randint(0, 2), rng.randint(0, 4))
            else:
                op = rng.choice(["dbegin", "dend", "dbad", "dbadcall", "dframe", "dfx", "dfxb"]) + " %d" % o
                if op.startswith("dfx"):
                    op += " %d" % rng.randint(0, 4)
            ops += [op] + dobs(o)
        sig.append(op.split()[0])
    return ops, ("H2", tuple(sorted(set(sig))))


# --------------------------------------------------------------------------- the direct oracle (round-2 rules)

class SessionOracle:
    """zstd.h rules evaluated on the outputs of the real library; keeps per-object documented state while walking a case."""

    def __init__(self, env):
        self.e = env
        self.nc = len(env.cids)
        self.ix = {n: env.cids.index(i) for n, i in env.cid.items() if i in env.cids}
        self.dx = {n: env.dids.index(i) for n, i in env.did.items() if i in env.dids}

    def check(self, ops, real):
        e, bad = self.e, []
        st = {}      # per cctx: last cvec / cxvec / cavec / cmvec, documented dictionary, pledge notes

        def C(o):
            return st.setdefault(("c", o), dict(vec=None, x=None, a=None, m=None, att=("none", 0), used=None, midset=None, refused_mt=None))

        def D(o):
            return st.setdefault(("d", o), dict(vec=None, x=None, att=("none", 0), refs=set(), last_op=None))

        cur = None   # (kind, o, op, real line, index)
        seen = set() # (op index, observer kind) already judged
        for i, (op, r) in enumerate(zip(ops, real)):
            t, rr = op.split(), r.split()
            if not rr or r == "skip":
                cur = None if t[0] not in OBSERVERS else cur
                continue
            k0 = t[0]
            if k0 == "new":
                st.clear()
                cur = None
                continue
            if k0 == "cover":
                if rr[0] == "ok" and rr[1] == "ok" and rr[2] == "fed" and rr[3] == "ended":
                    bad.append("op %d (%s): more than the pledged size was accepted up to the end of the frame" % (i, op))
                continue
            if k0[0] == "c" and k0 not in ("cbounds",):
                o = int(t[1])
                s = C(o)
                if k0 in ("cvec", "cxvec", "cavec", "cmvec", "cuse"):
                    key = {"cvec": "vec", "cxvec": "x", "cavec": "a", "cmvec": "m", "cuse": "u"}[k0]
                    prev = s.get(key)
                    if cur and cur[0] == "c" and cur[1] == o and (cur[4], key) not in seen and not seen.add((cur[4], key)):
                        m = self.judge_c(cur, key, prev, rr[1:], s)
                        if m:
                            bad.append("op %d (%s -> %s): %s" % (cur[4], cur[2], cur[3], m))
                    s[key] = rr[1:]
                    continue
                cur = ("c", o, op, r, i)
                s["before"] = dict(vec=s.get("vec"), x=s.get("x"), a=s.get("a"), m=s.get("m"), att=s.get("att"))
                self.track_c(s, t, rr)
                continue
            if k0[0] == "d" and k0 not in ("dbounds",):
                o = int(t[1])
                s = D(o)
                if k0 in ("dvec", "dxvec"):
                    key = "vec" if k0 == "dvec" else "x"
                    prev = s.get(key)
                    if cur and cur[1] == o and cur[0] == "d" and (cur[4], key) not in seen and not seen.add((cur[4], key)):
                        m = self.judge_d(cur, key, prev, rr[1:], s)
                        if m:
                            bad.append("op %d (%s -> %s): %s" % (cur[4], cur[2], cur[3], m))
                    s[key] = rr[1:]
                    continue
                cur = ("d", o, op, r, i)
                s["before"] = dict(vec=s.get("vec"), x=s.get("x"))
                continue
            cur = None
        return bad

    # ---- compression side
    def track_c(self, s, t, rr):
        """what zstd.h says is attached to the context after this call (None: not determined by the documentation)"""
        k0, cls = t[0], rr[0]
        vec = s.get("vec")
        mid = vec is not None and vec[self.nc] == "1"
        att = s["att"]
        if k0 in ("cload", "crefcdict", "crefprefix"):
            if not mid:
                k = int(t[2])
                if cls == "ok":
                    att = ("none", 0) if k == 0 else ({"cload": "dict", "crefcdict": "dict", "crefprefix": "prefix"}[k0], k)
                else:
                    att = None
        elif k0 == "creset" and t[2] in ("2", "3") and cls == "ok":
            att = ("none", 0)
        elif k0 in ("cinit", "cinitsrc"):
            att = ("none", 0)
        elif k0 in ("cinitdict", "cinitcdict", "cinitcdictadv", "cinitadv"):
            k = int(t[2])
            if cls == "ok":
                att = ("none", 0) if k == 0 else ("dict", k)
            elif not (k0 == "cinitadv" and cls == "oob"):
                att = None
        elif k0 in ("cframe", "cfail", "cfxwin") or (k0 in ("cbegin", "cend") and not mid and cls != "skip"):
            s["used"] = att                       # the frame that starts now uses what is attached
            if att is not None and att[0] == "prefix":
                att = ("none", 0)                 # single use
        if k0 == "cset" and mid:
            s["midset"] = (int(t[2]), int(t[3])) if cls == "ok" else None
        elif k0 not in ("cbegin",):
            s["midset"] = None
        s["att"] = att

    def judge_c(self, cur, key, prev, now, s):
        e = self.e
        _, o, op, r, _ = cur
        t, rr = op.split(), r.split()
        k0, cls = t[0], rr[0]
        b = s["before"]
        vec0 = b["vec"]
        mid = vec0 is not None and vec0[self.nc] == "1"
        if key == "vec" and vec0 is not None and "E" not in now and "E" not in vec0:
            # composite setters
            if k0 in ("csetcp", "csetfp", "csetp"):
                if cls != "ok":
                    if now != vec0:
                        return "a refused composite call changed the context (not all-or-nothing)"
                    if mid and cls != "stage" and not (k0 != "csetfp" and cls == "oob"):
                        return "composite setter mid-frame: class %s" % cls
                else:
                    if mid:
                        return "composite setter accepted mid-frame"
                    want = list(vec0)
                    a = [int(x) for x in t[2:]]
                    if k0 in ("csetcp", "csetp"):
                        for n, v in zip(CPAR_NAMES, a[:7]):
                            lo, hi = e.cb[e.cid[n]]
                            if not lo <= v <= hi:
                                return "composite call accepted although %s=%d is outside [%d,%d]" % (n, v, lo, hi)
                            want[self.ix[n]] = str(v)
                    f = a[7:] if k0 == "csetp" else (a if k0 == "csetfp" else None)
                    if f is not None:
                        want[self.ix["contentSizeFlag"]] = str(int(f[0] != 0))
                        want[self.ix["checksumFlag"]] = str(int(f[1] != 0))
                        want[self.ix["dictIDFlag"]] = str(int(f[2] == 0))
                    if now != want:
                        return "composite call did not store exactly its arguments (not equivalent to the individual setters)"
                if not mid and cls == "stage":
                    return "stage_wrong in the init stage"
                if not mid and k0 != "csetfp":
                    a = [int(x) for x in t[2:9]]
                    inb = all(e.cb[e.cid[n]][0] <= v <= e.cb[e.cid[n]][1] for n, v in zip(CPAR_NAMES, a))
                    if inb != (cls == "ok"):
                        return "composite call with %s cParams: class %s" % ("valid" if inb else "invalid", cls)
            if k0 in INIT_OPS:
                m = self.judge_init(t, cls, vec0, now)
                if m:
                    return m
            if k0 == "cpl" and now != vec0:
                return "setPledgedSrcSize changed parameters / stage / dictionary"
            if k0 == "cend" and not mid and cls != "ok":
                return "ZSTD_e_end with all the input in one call failed: the size of that call must override any pledge (zstd.h, setPledgedSrcSize note 3)"
            if k0 in ("cframe", "cfxwin") and cls != "ok":
                return "ZSTD_compress2 failed: the size of the call must override any pledge"
        if key == "x" and b["x"] is not None:
            x0 = b["x"]
            if k0 in INIT_OPS and cls == "ok":
                U = 1 << 64
                a_ = [int(x) for x in t[2:]]
                want = {"cinit": 0, "cinitdict": 0, "cinitcdict": 0}.get(k0)
                if k0 in ("cinitsrc", "cresetcs"):
                    want = 0 if a_[-1] == 0 else (a_[-1] + 1) % U          # 0 means unknown for these two
                elif k0 == "cinitcdictadv":
                    want = (a_[-1] + 1) % U
                elif k0 == "cinitadv":
                    want = 0 if (a_[-1] == 0 and a_[8] == 0) else (a_[-1] + 1) % U
                if int(now[0]) != want:
                    return "stream initialiser: pledged size recorded as %s (expected %d)" % (now[0], want)
            if k0 == "cpl":
                if mid:
                    if cls != "stage" or now != x0:
                        return "setPledgedSrcSize mid-frame not refused / changed something"
                else:
                    if cls != "ok":
                        return "setPledgedSrcSize refused in the init stage (class %s)" % cls
                    if int(now[0]) != (int(t[2]) + 1) % (1 << 64):
                        return "pledged size not recorded"
            elif k0 in ("cframe", "cfxwin", "csimple") and cls == "ok" and now[0] != "0":
                return "the pledged size survives a completed frame (valid once only)"
            elif k0 == "cend" and cls == "ok" and now[0] != "0":
                return "the pledged size survives a completed frame (valid once only)"
            elif k0 == "creset" and t[2] in ("1", "3") and now[0] != "0":
                return "a session reset keeps the pledged size"
            elif k0 in ("cset", "cget", "cbad", "cload", "crefcdict", "crefprefix", "capply", "csetcp", "csetfp", "csetp") and now[0] != x0[0]:
                return "the pledged size changed by a call that is not a frame / reset / pledge"
            elif k0 == "cbegin" and cls == "ok" and not mid and now[0] != x0[0]:
                return "starting a frame with ZSTD_e_continue changed the pledged size"
            if k0 == "cset" and cls != "ok" and now != x0:
                return "a refused set changed the session (cParamsChanged / pledge / dictionary)"
        if key == "a" and b["a"] is not None:
            starts = k0 in ("cframe", "cfail", "cfxwin", "csimple") or (k0 in ("cbegin", "cend") and not mid)
            if not starts and now != b["a"]:
                return "appliedParams changed by a call that does not start a frame"
            if starts and rr[0] in ("ok",) and k0 != "csimple" and vec0 is not None and "E" not in vec0:
                for n in COPIED:
                    if now[self.ix[n]] != vec0[self.ix[n]]:
                        return "applied %s = %s differs from the requested %s at frame start" % (n, now[self.ix[n]], vec0[self.ix[n]])
        if key == "m" and b["m"] is not None:
            if k0 not in ("cbegin", "cend", "cframe", "cfail", "cfxwin") and now != b["m"]:
                return "the job parameters of the multithreaded frame changed outside ZSTD_compressStream2"
            if k0 in ("cbegin", "cend") and mid and b["m"] and now and b["m"] != ["none"] and now != ["none"] and now[1] != b["m"][1] and rr[0] == "ok":
                return "the window log of the running multithreaded frame changed"
            if s.get("refused_mt") is not None and k0 == "cbegin" and mid:
                if now != s["refused_mt"] and rr[0] == "ok":
                    s["refused_mt"] = None
                    return "a refused mid-frame set changed the job parameters of the running multithreaded frame"
            if k0 == "cbegin" and mid and rr[0] == "ok" and s.get("midset") and now != ["none"] and b["a"] is not None and b["a"][self.ix["nbWorkers"]] not in ("0", "E"):
                idv, v = s["midset"]
                name = e.cname.get(idv)
                cell = {"compressionLevel": 0, "chainLog": 2, "hashLog": 3, "searchLog": 4, "minMatch": 5, "targetLength": 6, "strategy": 7}.get(name)
                s["midset"] = None
                req = b["vec"][self.ix[name]] if (cell is not None and b["vec"] is not None) else "E"     # the value the requested vector holds (clamped / normalised)
                want = int(req) if req != "E" else None
                if cell is not None and want is not None and (name == "compressionLevel" or want != 0) and int(now[cell]) != want:
                    return "an accepted mid-frame update of %s to %d did not reach the job parameters of the multithreaded frame (they hold %s)" % (name, v, now[cell])
            if k0 == "cset":
                s["refused_mt"] = list(now) if (cls != "ok" and mid and s.get("changed0") == "0") else None
            elif k0 != "cbegin":
                s["refused_mt"] = None
        if key == "x":
            s["changed0"] = now[1]
        if key == "u":
            if now == ["none"] or cls != "ok" or k0 not in ("cend", "cframe", "cfxwin", "csimple"):
                return None      # `cuse` describes the last COMPLETED frame: only judged right after the call that completed it
            fcs, did, mask = int(now[0]), int(now[1]), int(now[2])
            if vec0 is not None and "E" not in vec0 and (k0 in SIZES or (k0 == "cend" and not mid)):
                csf = vec0[self.ix["contentSizeFlag"]] != "0" or k0 == "csimple"
                want = SIZES.get(k0, 0) if csf else -1
                if fcs != want:
                    return "frame of a single call announces content size %d (expected %d: the call overrides any pledge)" % (fcs, want)
            if mask == 0:
                return "the frame produced does not decode (with no dictionary, neither dictionary, neither prefix)"
            used = s.get("used") if k0 != "csimple" else ("none", 0)
            if used is not None and k0 in ("cend", "cframe", "cfxwin", "csimple"):
                bit = 0 if used[0] == "none" else (used[1] if used[0] == "dict" else 2 + used[1])
                if not (mask >> bit) & 1:
                    return "the frame does not decode with what zstd.h says was attached when it started (%s %d): it decodes with mask %d of {none, dictionary 1, 2, prefix 1, 2}" % (used[0], used[1], mask)
                if did != 0 and not (used[0] == "dict" and used[1] == did):
                    return "the frame names dictionary %d although %s %d was attached" % (did, used[0], used[1])
        return None

    def judge_init(self, t, cls, vec0, now):
        """the deprecated stream initialisers against what zstd.h gives as their modern equivalent"""
        e, nc, ix = self.e, self.nc, self.ix
        k0, o = t[0], int(t[1])
        a = [int(x) for x in t[2:]]
        if now[nc] != "0":
            return "after a stream initialiser the context is still in the middle of a frame"
        want = list(vec0[:nc])
        wdict = vec0[nc + 1]
        lid = e.cid["compressionLevel"]

        def lvl(v):
            lo, hi = e.cb[lid]
            v = min(max(v, lo), hi)
            return str(e.level_default if v == 0 else v)
        if k0 in ("cinit", "cinitsrc"):
            want[ix["compressionLevel"]] = lvl(a[0])
            wdict = "0"
            if cls != "ok":
                return "%s failed (class %s)" % (k0, cls)
        elif k0 == "cinitdict":
            want[ix["compressionLevel"]] = lvl(a[1])
            static_copy = o == 1 and a[0] != 0
            if (cls == "ok") == static_copy:
                return "%s: class %s" % (k0, cls)
            wdict = "0" if (a[0] == 0 or static_copy) else "1"
        elif k0 in ("cinitcdict", "cinitcdictadv"):
            if cls != "ok":
                return "%s failed (class %s)" % (k0, cls)
            wdict = "0" if a[0] == 0 else "3"
            if k0 == "cinitcdictadv" and all(x in (0, 1) for x in a[1:4]):
                want[ix["contentSizeFlag"]], want[ix["checksumFlag"]], want[ix["dictIDFlag"]] = str(a[1]), str(a[2]), str(1 - a[3])
            elif k0 == "cinitcdictadv":
                return None
        elif k0 == "cinitadv":
            inb = all(e.cb[e.cid[n]][0] <= v <= e.cb[e.cid[n]][1] for n, v in zip(CPAR_NAMES, a[1:8]))
            static_copy = o == 1 and a[0] != 0
            if not inb:
                if cls != "oob":
                    return "cinitadv with invalid cParams: class %s" % cls
            else:
                if (cls == "ok") == static_copy:
                    return "cinitadv with valid cParams: class %s" % cls
                if not all(x in (0, 1) for x in a[8:11]):
                    return None
                for n, v in zip(CPAR_NAMES, a[1:8]):
                    want[ix[n]] = str(v)
                want[ix["contentSizeFlag"]], want[ix["checksumFlag"]], want[ix["dictIDFlag"]] = str(a[8]), str(a[9]), str(1 - a[10])
                want[ix["compressionLevel"]] = now[ix["compressionLevel"]]     # zstd.h: unchanged; the code stores ZSTD_NO_CLEVEL (docs/C16.md 9.4)
                wdict = "0" if (a[0] == 0 or static_copy) else "1"
        if list(now[:nc]) != want:
            d = [(e.cname[e.cids[j]], want[j], now[j]) for j in range(nc) if want[j] != now[j]]
            return "%s: requested parameters after the call differ from the documented equivalent: %s" % (k0, d[:3])
        if now[nc + 1] != wdict:
            return "%s: dictionary state %s (expected %s)" % (k0, now[nc + 1], wdict)
        return None

    # ---- decompression side
    def judge_d(self, cur, key, prev, now, s):
        _, o, op, r, _ = cur
        t, rr = op.split(), r.split()
        k0, cls = t[0], rr[0]
        b = s["before"]
        if key == "vec" and b["vec"] is not None:
            nd = len(self.e.dids)
            mid = b["vec"][nd + 1] == "1"
            if k0 in ("dload", "drefprefix", "drefddict"):
                if mid and (cls != "stage" or now != b["vec"]):
                    return "dictionary call while a frame is being decoded not refused"
                if not mid and cls == "stage":
                    return "stage_wrong in the init stage"
                if now[:nd + 2] != b["vec"][:nd + 2]:
                    return "dictionary call changed parameters / stage"
            if k0 in ("ddec", "ddec1", "ddecm", "ddecu", "ddecr") and now[:nd + 1] != b["vec"][:nd + 1]:
                return "parameters changed by a decompression call"
        if key == "x" and b["x"] is not None and b["vec"] is not None:
            nd = len(self.e.dids)
            mid = b["vec"][nd + 1] == "1"
            x0 = b["x"]
            fmt = b["vec"][self.dx["format"]]
            multi = b["vec"][self.dx["refMultipleDDicts"]] == "1"
            if k0 in ("dload", "drefprefix", "drefddict") and not mid and cls == "ok":
                k = int(t[2])
                kind = {"drefddict": "1", "dload": "2", "drefprefix": "3"}[k0]
                want = ["0", "0"] if k == 0 else [kind, str(k)]
                if now[1:3] != want:
                    return "after the call the context does not hold exactly the dictionary it was given (mutual replacement)"
                uses = "1" if k0 == "drefprefix" else ("0" if k == 0 else "2")
                if now[0] != uses:
                    return "dictionary use mode %s (expected %s)" % (now[0], uses)
            if k0 == "dreset" and cls == "ok":
                if t[2] == "1" and now != x0:
                    return "a session reset changed the dictionary state"
                if t[2] in ("2", "3") and now[:3] != ["0", "0", "0"]:
                    return "a parameter reset keeps a dictionary"
                if t[2] in ("2", "3") and now[3:6] != ["0", "0", "0"]:
                    return "a parameter reset keeps the DDicts referenced for ZSTD_d_refMultipleDDicts (set allocated / members %s)" % now[3:6]
            if k0 == "dfx" and x0[0] == "1" and cls != "ok" and fmt == "0" and now[0] != "1":
                kk = int(t[2]) % 5      # G4 names a dictionary (a prefix has no ID), G2 has a 4096-byte window: refused before the frame starts
                if kk == 4 or (kk == 2 and int(b["vec"][nd]) < 4096):
                    return "a streamed frame start that failed used up the pending prefix"
            if k0 in ("dset", "dget", "dmaxwin", "dbadcall") and now != x0:
                return "the dictionary state changed by a parameter call"
            if k0 == "ddecr" and fmt == "0" and not mid:
                # ZSTD_decompress_usingDict with raw dictionary bytes: the verdict depends on that dictionary and on the frame only
                k, f = int(t[2]), int(t[3]) % 5
                need_ok = f == 0 or (f in (1, 2) and k == f)
                if need_ok != (cls == "ok"):
                    return "ZSTD_decompress_usingDict(dictionary %d) on frame %d: %s" % (k, f, " ".join(rr))
                if f in (1, 2) and k != f and " ".join(rr[1:]) != "Dictionary mismatch":
                    return ("ZSTD_decompress_usingDict(dictionary %d) on a frame naming dictionary %d: '%s' instead of dictionary_wrong "
                            "(the dictID check was bypassed)" % (k, f, " ".join(rr[1:])))
            if k0 in ("ddec", "ddec1") and fmt == "0":
                f = int(t[2]) % 5
                uses, kind, which = x0[0], x0[1], int(x0[2])
                in_set = {1: x0[4] == "1", 2: x0[5] == "1"}
                # the dictionary the documentation says is in force for this frame
                eff = (kind, which) if uses != "0" else ("0", 0)
                # refMultipleDDicts: a frame naming a referenced DDict is decoded with it while the context is in dictionary mode.
                # Streaming counts a spent prefix as "dictionary mode" (dctx->ddict is still set), the one-shot path does not
                # (ZSTD_getDDict clears it first): both as the code does, see docs/C16.md 8.4 notes.
                # since fixes a891479 / d0ddbff only a REFERENCED DDict in use is replaced by the selection (never a loaded dictionary or a prefix)
                if multi and x0[3] == "1" and kind == "1" and uses != "0" and f in (1, 2) and in_set[f]:
                    eff = ("1", f)
                need_ok = f == 0 or (f in (1, 2) and eff[0] in ("1", "2") and eff[1] == f) or (f in (3, 4) and eff == ("3", f - 2))
                if need_ok != (cls == "ok"):
                    return "frame %d %s although the context holds uses=%s kind=%s which=%d (refMultipleDDicts=%d, set=%s)" % (
                        f, "decoded" if cls == "ok" else "refused", uses, kind, which, multi, x0[3:6])
                if uses == "1" and cls == "ok" and now[0] != "0":
                    return "a prefix stays usable after the frame it was referenced for (single use)"
                # round 3 (fixes b15fdb6 / b87b37f / 2f289ec): a call that fails does not use the prefix up, on any of the three doors
                if uses == "1" and cls != "ok" and now[0] != "1":
                    return "a %s call that failed used up the pending prefix" % ("ZSTD_decompressDCtx" if k0 == "ddec1" else "whole-frame ZSTD_decompressStream")
        return None
