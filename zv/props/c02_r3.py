"""C02, round 3 (harness/c02_hist.c):
 1. hand-made LEGACY frames (v0.5 / v0.6 / v0.7: several raw blocks, v0.7 RLE blocks and empty raw blocks, v0.7 checksum, every
    content-size field form, direct mode) mixed with current and skippable frames, decoded by ZSTD_decompressStream under many
    segmentations (0-byte calls, stable output) against single-call decompression and the content known by construction;
 2. hand-made COMPRESSED frames (independent writer zv/props/c04_enc.py) whose sequences reach the FIRST byte of a raw dictionary,
    cross from the dictionary into the frame, and dictionaries of 1..9 bytes, with the dictionary attached in six ways;
 3. frames that NAME a dictionary ID on a context with ZSTD_d_refMultipleDDicts / several DDicts / prefixes: lock-step of
    dctx->ddict / dctx->dictUses and of every frame's accept / refuse against coq/Stream/DictIdModel.v (driver command DI),
    plus the direct oracle (an accepted frame regenerates its input)."""
import re
import struct

from .. import codec, core
from .. import streamtie as st
from . import c04_enc as E

KEY_RLE = "C02-legacy-v07-stream-refuses-rle-block"
KEY_EMPTY = "C02-legacy-v07-stream-empty-raw-block-ends-frame"
KEY_STALE = "C02-dstream-stale-prefix-pointer-selects-ddict"
KEY_LEGACY_SHORT = "C02-dstream-legacy-short-first-call"
KEY_V05RING = "C02-legacy-v05-stream-ring-too-small"


# ------------------------------------------------------------------------------------------------ 1. legacy frames
def _lblk(t, data, size=None):
    n = len(data) if size is None else size
    return bytes([(t << 6) | (n >> 16), (n >> 8) & 255, n & 255]) + data


_V05_OFFPREFIX = [1, 1, 2, 4, 8, 16, 32, 64, 128, 256, 512, 1024, 2048, 4096, 8192, 16384, 32768, 65536, 131072, 262144, 524288]


def v05_cblock(lits, ll, ml, off):
    """a v0.5 COMPRESSED block written by hand: raw literals (<= 31 bytes), one sequence (ll literals, match of ml bytes at distance off),
    the three symbol tables in RAW mode (the code itself on 6 / 5 / 7 bits), then the remaining literals"""
    assert len(lits) < 32 and ll <= len(lits) and ll < 63 and 4 <= ml < 4 + 127 and off >= 1
    code = max(c for c in range(1, len(_V05_OFFPREFIX)) if _V05_OFFPREFIX[c] <= off)
    bw = E.BitW()
    bw.add(0, 18)                                  # what the state updates after the only sequence read
    bw.add(off - _V05_OFFPREFIX[code], code - 1)
    bw.add(ml - 4, 7)
    bw.add(code, 5)
    bw.add(ll, 6)
    return bytes([0x80 | len(lits)]) + lits + bytes([1, 0, 0]) + bw.close()


def legacy_v05(rng, blocks, wl):
    """blocks: [(kind, bytes)] kind raw | cblk (bytes = the block as written; its content is in the third field)"""
    out = struct.pack("<I", 0xFD2FB525) + bytes([wl - 11])
    for b in blocks:
        out += _lblk(0, b[1]) if b[0] == "cblk" else _lblk(1, b[1])
    return out + bytes([0xC0, 0, 0])


def v05_with_matches(rng, wl):
    """-> (blocks, content): raw blocks of many sizes followed / interleaved with hand-made compressed blocks whose match reaches
    anywhere into the window (in particular over earlier small blocks: the streaming decoder must still have them)"""
    window = 1 << wl
    blocks, content = [], bytearray()
    for _ in range(rng.choice([2, 3, 4, 6])):
        if content and rng.random() < 0.5:
            lits = bytes(rng.randrange(256) for _ in range(rng.choice([0, 1, 8, 31])))
            ll = rng.randint(0, len(lits))
            pos = len(content) + ll
            if pos == 0:
                continue
            maxd = min(pos, window)
            off = rng.choice([maxd, max(1, maxd - rng.randrange(0, 9)), rng.randint(1, maxd), rng.randint(max(1, maxd // 2), maxd)])
            ml = rng.choice([4, 5, 8, 20, 100, 130])
            x = bytearray(content + lits[:ll])
            for _ in range(ml):
                x.append(x[-off])
            x += lits[ll:]
            blocks.append(("cblk", v05_cblock(lits, ll, ml, off)))
            content = x
        else:
            n = rng.choice([1, 100, 1000, 1000, 5000, 131072, 131072])
            b = (bytes(rng.randrange(256) for _ in range(min(n, 64))) * (n // 64 + 1))[:n]
            blocks.append(("raw", b))
            content += b
    return blocks, bytes(content)


def legacy_v06(rng, blocks):
    n = sum(len(b[1]) for b in blocks)
    need = max((len(b[1]) for b in blocks), default=1)
    wl = rng.choice([w for w in (12, 13, 17, 18) if (1 << w) >= need])
    fcsid = rng.choice([0, 1, 2, 3])
    if fcsid == 1 and n >= 256:
        fcsid = 2
    if fcsid == 2 and not (256 <= n < 65536 + 256):
        fcsid = 3
    out = struct.pack("<I", 0xFD2FB526) + bytes([(fcsid << 6) | (wl - 12)])
    if fcsid == 1:
        out += bytes([n])
    elif fcsid == 2:
        out += (n - 256).to_bytes(2, "little")
    elif fcsid == 3:
        out += n.to_bytes(8, "little")
    for b in blocks:
        out += _lblk(1, b[1])
    return out + bytes([0xC0, 0, 0])


def legacy_v07(rng, blocks, content):
    """blocks: [(kind, bytes)] kind raw | rle (bytes = the regenerated run) | empty"""
    n = len(content)
    direct = rng.random() < 0.3
    ck = rng.random() < 0.5
    fcsid = rng.choice([0, 1, 2, 3])
    if direct and fcsid == 0 and n >= 256:
        fcsid = 2
    if fcsid == 1 and not (256 <= n < 65536 + 256):
        fcsid = 3
    need = max((len(b[1]) for b in blocks), default=1)
    if direct and need > max(n, 1):
        direct = False
    out = bytearray(struct.pack("<I", 0xFD2FB527))
    out.append((fcsid << 6) | (int(direct) << 5) | (int(ck) << 2))
    if not direct:
        wl = rng.choice([w for w in range(10, 19) if (1 << w) >= need])
        out.append(((wl - 10) << 3) | (rng.randrange(8) if rng.random() < .3 else 0))
    if fcsid == 0:
        if direct:
            out.append(n)
    elif fcsid == 1:
        out += (n - 256).to_bytes(2, "little")
    elif fcsid == 2:
        out += n.to_bytes(4, "little")
    else:
        out += n.to_bytes(8, "little")
    for kind, b in blocks:
        if kind == "rle":
            out += _lblk(2, b[:1], size=len(b))
        else:
            out += _lblk(1, b)
    h = (st.xxh64(content) >> 11) & ((1 << 22) - 1) if ck else 0
    out += bytes([0xC0 | (h >> 16), (h >> 8) & 255, h & 255])
    return bytes(out)


def v07_cblock(lits, ll, ml, dist):
    """a v0.7 COMPRESSED block written by hand: raw literals (<= 31 bytes), one sequence, the three tables in RLE mode"""
    assert len(lits) < 32 and ll <= len(lits) and ll <= 15 and 3 <= ml <= 34 and dist >= 1
    c = (dist + 3).bit_length() - 1
    bw = E.BitW()
    bw.add(dist - ((1 << c) - 3), c)
    return bytes([0x80 | len(lits)]) + lits + bytes([1, 0x54, ll, c, ml - 3]) + bw.close()


def v07_with_matches(rng, wl):
    """-> (frame, content): a v0.7 frame several times longer than the ZBUFFv07 ring (window + block + 16): raw blocks and hand-made
    compressed blocks whose match sits at / near the maximum distance"""
    window = 1 << wl
    bmax = min(window, 131072)
    blocks, content = [], bytearray()
    total = rng.choice([window, 3 * window, 6 * window + 77])
    while len(content) < total:
        if content and rng.random() < 0.6:
            lits = bytes(rng.randrange(256) for _ in range(rng.choice([0, 1, 8, 15, 31])))
            ll = rng.randint(0, min(15, len(lits)))
            maxd = min(len(content) + ll, window)
            if maxd < 1:
                continue
            dist = rng.choice([maxd, maxd, max(1, maxd - rng.randrange(0, 9)), rng.randint(1, maxd)])
            ml = rng.choice([3, 4, 8, 20, 34])
            x = bytearray(content + lits[:ll])
            for _ in range(ml):
                x.append(x[-dist])
            x += lits[ll:]
            blocks.append(("cblk", v07_cblock(lits, ll, ml, dist)))
            content = x
        else:
            n = rng.choice([1, 7, 100, bmax // 2, bmax - 1, bmax])
            b = (bytes(rng.randrange(256) for _ in range(min(n, 64))) * (n // 64 + 1))[:n]
            blocks.append(("raw", b))
            content += b
    ck = rng.random() < .5
    out = bytearray(struct.pack("<I", 0xFD2FB527))
    out.append(int(ck) << 2)
    out.append((wl - 10) << 3)
    for k, b in blocks:
        out += _lblk(0 if k == "cblk" else 1, b)
    h = (st.xxh64(bytes(content)) >> 11) & ((1 << 22) - 1) if ck else 0
    out += bytes([0xC0 | (h >> 16), (h >> 8) & 255, h & 255])
    return bytes(out), bytes(content)


def _lblocks(rng, maxb, v07):
    bl = []
    for _ in range(rng.choice([0, 1, 1, 2, 3, 5, 9])):
        kind = rng.choice(["raw", "raw", "raw", "rle", "empty"]) if v07 else "raw"
        if kind == "empty":
            bl.append(("empty", b""))
            continue
        n = max(1, min(rng.choice([1, 1, 2, 3, 5, 100, 1000, 1023, 1024, maxb - 1, maxb, rng.randrange(1, maxb + 1)]), maxb))
        if kind == "rle":
            bl.append(("rle", bytes([rng.randrange(256)]) * n))
        else:
            bl.append(("raw", (bytes(rng.randrange(256) for _ in range(min(n, 64))) * (n // 64 + 1))[:n]))
    return bl


LSEGS = ["La:r", "L1:r", "Lh:r", "Lh:1", "La:1", "L3:5", "L2:r", "L7:100", "Ma:r", "Mh:r", "M5:3", "L5:r", "L6:r", "L8:r", "L9:2", "L1000:1000",
         "L1000:7", "sa:0;sa:0;La:r", "s0:r;s0:0;L5:r", "s5:0;s0:0;s0:r;Lh:3", "L4096:4096", "L131072:r", "L131075:1000"]


def run_legacy_handmade(ctx, rng, n):
    hexe = core.build_harness("c02_hist", ["c02_hist.c"], variant="o1" if ctx.quick else "asan", extra_flags=["-w"])
    cases = []
    rle_min = bytes.fromhex("27b52ffd000080000a41c00000")                       # finding 1: one RLE block of 10 x 'A'
    emp_min = bytes.fromhex("27b52ffd0000400000400003616263c00000")             # finding 2: empty raw block, raw "abc"
    for seg in ("La:r", "L5:r", "L6:1"):
        cases.append(dict(frames=[(7, rle_min, b"A" * 10, {"rle"})], seg=seg, so=False, desc="corpus: v0.7 RLE block"))
        cases.append(dict(frames=[(7, emp_min, b"abc", {"empty"})], seg=seg, so=False, desc="corpus: v0.7 empty raw block"))
    # finding 5: the v0.5 streaming ring of exactly 2^windowLog bytes. A: three small blocks, the third reaches the first (refused);
    # B: 128 KiB, 1000 bytes, 128 KiB, then a match on the first byte of the 1000 (wrong bytes, success)
    r5 = __import__("random").Random(5)
    a1, a2 = bytes(r5.randrange(256) for _ in range(1000)), bytes(r5.randrange(256) for _ in range(1000))
    ha = a1 + a2 + b"ABCDE"
    fa = legacy_v05(None, [("raw", a1), ("raw", a2), ("cblk", v05_cblock(b"ABCDEFGH", 5, 20, 1500))], 17)
    xa = ha + ha[len(ha) - 1500:len(ha) - 1480] + b"FGH"
    b1, b2, b3 = (bytes(r5.randrange(256) for _ in range(n)) for n in (131072, 1000, 131072))
    hb = b1 + b2 + b3 + b"ABCDE"
    ob = 5 + 131072 + 1000
    fb = legacy_v05(None, [("raw", b1), ("raw", b2), ("raw", b3), ("cblk", v05_cblock(b"ABCDEFGH", 5, 20, ob))], 18)
    xb = hb + hb[len(hb) - ob:len(hb) - ob + 20] + b"FGH"
    for seg in ("La:r", "Lh:r", "L1000:1000"):
        cases.append(dict(frames=[(5, fa, xa, {"cblk"})], seg=seg, so=False, desc="corpus: v0.5 small blocks, match over the previous block"))
        cases.append(dict(frames=[(5, fb, xb, {"cblk"})], seg=seg, so=False, desc="corpus: v0.5 match on history the ring restart overwrote"))
    for _ in range(n):
        frames = []
        for _ in range(rng.choice([1, 1, 2, 3])):
            v = rng.choice([5, 6, 7, 7, 7, 1, 0])
            if v == 5 and rng.random() < 0.5:
                wl = rng.choice([17, 17, 18, 19])
                bl, x5 = v05_with_matches(rng, wl)
                frames.append((5, legacy_v05(rng, bl, wl), x5, {"cblk"} if any(k == "cblk" for k, _ in bl) else set()))
                continue
            if v == 5:
                wl = rng.choice([11, 12, 17, 18])
                bl = _lblocks(rng, min(1 << wl, 131072), False)
                f = legacy_v05(rng, bl, wl)
            elif v == 6:
                bl = _lblocks(rng, rng.choice([4096, 4096, 131072]), False)
                f = legacy_v06(rng, bl)
            elif v == 7 and rng.random() < 0.3:
                f7, x7 = v07_with_matches(rng, rng.choice([10, 10, 11, 12]))
                frames.append((7, f7, x7, {"cblk7"}))
                continue
            elif v == 7:
                bl = _lblocks(rng, rng.choice([1024, 1024, 4096, 131072]), True)
                f = legacy_v07(rng, bl, b"".join(b for _, b in bl))
            elif v == 1:
                bl = [("raw", bytes(rng.randrange(256) for _ in range(rng.choice([0, 1, 100, 3000]))))]
                f = st.frame_header(window_log=12) + st.block(0, bl[0][1], True)
            else:
                bl = []
                f = st.skippable(bytes(rng.randrange(256) for _ in range(rng.choice([0, 1, 5, 300]))), rng.randrange(16))
            frames.append((v, f, b"".join(b for _, b in bl), set(k for k, _ in bl) if v == 7 else set()))
        cases.append(dict(frames=frames, seg=rng.choice(LSEGS), so=rng.random() < 0.15, desc="generated"))
    lines = []
    for i, c in enumerate(cases):
        c["id"] = "g%d" % i
        c["stream"] = b"".join(f for _, f, _, _ in c["frames"])
        c["ops"] = "j0;o%d;n;j0;%s%s" % (len(c["stream"]), "so=1;" if c["so"] else "", c["seg"])
        lines.append("H %s - - %s %s" % (c["id"], codec.hx(c["stream"]), c["ops"]))
    out, errs = st.run_lines(hexe, lines)
    if errs:
        ctx.violation(dict(kind="harness-crash", detail=errs[:2]), what="c02_hist crashed on a hand-made legacy stream: %r" % (errs[0],))
    nv = 0
    for c in cases:
        r = out.get(c["id"], "")
        if not r.startswith("OK "):
            continue
        t = r.split(" ")
        ob = codec.unhx(t[1])
        recs = [x for x in (t[2] if len(t) > 2 else "").split(";") if x]
        expect = b"".join(x for _, _, x, _ in c["frames"])
        one = next((x for x in recs if x.startswith("o:")), "o:0:Emissing")
        okone = not one.split(":")[2].startswith("E") and int(one.split(":")[2]) == len(expect) and ob[:len(expect)] == expect
        sout = ob[len(expect):] if okone else ob
        prs = [dict(kind="s", offered=int(v[1]), cap=int(v[2]), consumed=int(v[3]), produced=int(v[4]), ret=v[5])
               for v in (x.split(":") for x in recs if x.startswith("s:"))]
        parts = [(len(f), len(x)) for _, f, x, _ in c["frames"]]
        viol = st.check_dstream_oracle(prs, sout, expect, st.frame_ends(parts), len(c["stream"]))
        feats = set().union(*[k for _, _, _, k in c["frames"]])
        ctx.count(("LEG", tuple(v for v, _, _, _ in c["frames"]), tuple(sorted(feats)), c["seg"], c["so"]), nontrivial=len(prs) > 0)
        what, key = None, None
        if not okone:
            what = "single-call decompression of a hand-made legacy stream gave %s, the blocks hold %d bytes" % (one, len(expect))
        elif viol:
            what = viol[1]
            i = viol[0]
            if "prefix_unknown" in what and i < len(prs) and 1 <= prs[i]["offered"] <= 4:
                cin, a0 = sum(p["consumed"] for p in prs[:i]), 0
                for v, f, _, _ in c["frames"]:
                    if v in (5, 6, 7) and cin == a0:
                        key = KEY_LEGACY_SHORT
                    a0 += len(f)
            if key is None and "rle" in feats and "GENERIC" in what:
                key = KEY_RLE
            if key is None and "empty" in feats and ("not a flushed frame end" in what or "prefix_unknown" in what):
                key = KEY_EMPTY
            if key is None and "cblk" in feats and ("corruption_detected" in what or "not a prefix" in what or "differs" in what):
                key = KEY_V05RING
        if what:
            nv += 1
            ctx.violation(dict(kind="reuse-history", ops=c["ops"], stream_hex=c["stream"].hex()[:60000], dict1_hex="", dict2_hex="", desc=c["desc"],
                               frames=[(v, len(f), len(x), sorted(k)) for v, f, x, k in c["frames"]]),
                          what="hand-made legacy stream (%s; versions %s; ops %s): %s%s"
                               % (c["desc"], [v for v, _, _, _ in c["frames"]], c["ops"][:80], what, " [%s]" % key if key else ""), key=key)
    return len(cases), nv


# ------------------------------------------------------------------------------------------------ 2. hand-made dictionary frames
def handmade_dict_frame(rng, d, window, nblocks, ck, fcs_known):
    """-> (frame, content) | None ; every block is a compressed block (raw literals, predefined tables) whose sequences reach into [d]"""
    ex = E.Exec(history=d)
    body = b""
    tll, tof, tml = E.Tbl.predefined("ll"), E.Tbl.predefined("of"), E.Tbl.predefined("ml")
    kinds = set()
    for bi in range(nblocks):
        sh = E.Exec(history=bytes(ex.out))
        sh.reps = list(ex.reps)
        lits, final = bytearray(), []
        for _ in range(rng.choice([1, 1, 2, 3, 6])):
            ll = rng.choice([0, 0, 1, 2, 5, 17])
            nl = bytes(rng.randrange(256) for _ in range(ll))
            cur = len(sh.out) + ll                   # absolute position (dictionary included) where the match is written
            cpos = cur - len(d)
            if cur == 0:
                break
            kind = rng.choice(["first", "first", "last", "cross", "any", "near"])
            if kind == "first":
                off = cur                            # the first byte of the dictionary
            elif kind == "last":
                off = cpos + 1                       # its last byte
            elif kind == "cross":
                off = cpos + rng.randint(1, max(1, len(d)))
            elif kind == "near":
                off = rng.randint(1, min(cur, 8))
            else:
                off = rng.randint(1, cur)
            off = max(1, min(off, cur))
            ml = rng.choice([3, 3, 4, 5, 8, 9, 16, 17, 33, 64, len(d) + 3, len(d) + 8])
            if not sh.run_block(nl, [(ll, ml, off + 3)]):
                break
            lits += nl
            final.append((ll, ml, off + 3))
            kinds.add(kind)
        lits = bytes(lits) + bytes(rng.randrange(256) for _ in range(rng.choice([0, 0, 1, 4])))
        if not final or not ex.run_block(lits, final):
            return None
        body += E.block(2, E.literals_section("raw", lits) + E.sequences_section(final, tll, tof, tml), last=(bi == nblocks - 1))
    content = ex.content()
    if len(content) + len(d) > window or len(content) > 60000:     # every offset <= window size: valid under any reading of the window rule
        return None
    hdr = E.frame_header(window=window, fcs=len(content) if fcs_known else None, checksum=ck)
    return hdr + body + ((E.xxh64(content) & 0xFFFFFFFF).to_bytes(4, "little") if ck else b""), content, kinds


DSEGS = ["La:r", "L1:r", "Lh:r", "Lh:1", "La:1", "L3:5", "L2:r", "L7:100", "Ma:r", "Mh:r", "M5:3", "L5:r", "sa:0;sa:0;La:r", "s0:r;L4:2"]
ATTACH = ["ld2", "lr2", "rd2", "rp2", "iu2", "id2"]


def run_dict_handmade(ctx, rng, cd, n):
    hexe = core.build_harness("c02_hist", ["c02_hist.c"], variant="o1" if ctx.quick else "asan", extra_flags=["-w"])
    cases, guard = [], 0
    while len(cases) < n and guard < 50 * n:
        guard += 1
        dn = rng.choice([1, 2, 3, 4, 5, 6, 7, 8, 9, 16, 40, 300, 1000])
        d = bytes(rng.randrange(256) for _ in range(dn))
        r = handmade_dict_frame(rng, d, rng.choice([1024, 2048, 1024 + 128, 4096]), rng.choice([1, 1, 2, 3]), rng.random() < .5, rng.random() < .6)
        if r is None:
            continue
        fr, content, kinds = r
        att = rng.choice(ATTACH)
        nf = 1 if att == "rp2" else rng.choice([1, 1, 2])
        mode = rng.choice(["stream", "stream", "stream", "oneshot"])
        so = rng.random() < .15
        ops = "j0;%s;o%d" % (att, len(fr) * nf) if mode == "oneshot" else "j0;%s;%s%s" % (att, "so=1;" if so else "", rng.choice(DSEGS))
        cases.append(dict(id="t%d" % len(cases), d=d, fr=fr, nf=nf, content=content, mode=mode, ops=ops, att=att, kinds=kinds))
    # the specification side: R with the dictionary regenerates what the independent executor computed
    res = cd.model([(c["id"], "", c["d"], c["fr"]) for c in cases])
    good = []
    for c in cases:
        m = res.get(c["id"])
        if not m or m[0] != "OK" or m[1] != c["content"]:
            ctx.violation(dict(kind="spec-vs-content", frame_hex=c["fr"].hex()[:20000], dict_hex=c["d"].hex(), model=str(m)[:200]),
                          what="the reference decoder R and the independent sequence executor disagree on a hand-made frame with a %d-byte dictionary: %s"
                               % (len(c["d"]), str(m)[:80]), no_input=True)
        else:
            good.append(c)
    out, errs = st.run_lines(hexe, ["H %s - %s %s %s" % (c["id"], codec.hx(c["d"]), codec.hx(c["fr"] * c["nf"]), c["ops"]) for c in good])
    if errs:
        ctx.violation(dict(kind="harness-crash", detail=errs[:2]), what="c02_hist crashed on a hand-made frame with a dictionary: %r" % (errs[0],))
    nv = 0
    for c in good:
        r = out.get(c["id"], "")
        if not r.startswith("OK "):
            continue
        t = r.split(" ")
        ob = codec.unhx(t[1])
        recs = [x for x in (t[2] if len(t) > 2 else "").split(";") if x]
        expect = c["content"] * c["nf"]
        v = None
        if any(x.split("=")[0] in ATTACH and "=E" in x for x in recs):
            v = "the set-up call failed: %s" % recs[:3]
        elif c["mode"] == "oneshot":
            one = next((x for x in recs if x.startswith("o:")), "o:0:Emissing")
            if one.split(":")[2].startswith("E") or ob != expect:
                v = "single-call decompression gave %s, expected %d bytes" % (one, len(expect))
        else:
            prs = [dict(kind="s", offered=int(x[1]), cap=int(x[2]), consumed=int(x[3]), produced=int(x[4]), ret=x[5])
                   for x in (y.split(":") for y in recs if y.startswith("s:"))]
            vv = st.check_dstream_oracle(prs, ob, expect, st.frame_ends([(len(c["fr"]), len(c["content"]))] * c["nf"]), len(c["fr"]) * c["nf"])
            v = vv[1] if vv else None
        ctx.count(("HDICT", min(len(c["d"]), 10), c["att"], c["mode"], tuple(sorted(c["kinds"]))), nontrivial=True)
        if v:
            nv += 1
            ctx.violation(dict(kind="reuse-history", ops=c["ops"], stream_hex=(c["fr"] * c["nf"]).hex(), dict1_hex="", dict2_hex=c["d"].hex(),
                               desc="hand-made frame reaching into a %d-byte raw dictionary" % len(c["d"]), content_hex=expect.hex()[:20000]),
                          what="hand-made compressed frame whose sequences reach into a %d-byte raw dictionary (%s; ops %s): %s"
                               % (len(c["d"]), "+".join(sorted(c["kinds"])), c["ops"][:80], v))
    return len(good), nv


# ------------------------------------------------------------------------------------------------ 3. frames that name a dictionary ID
M_OPS = {"mdd=1": ["M1"], "mdd=0": ["M0"], "rd1": ["R1"], "rd2": ["R2"], "rd0": ["R0"], "ld1": ["L1"], "ld2": ["L2"], "rp2": ["P3"], "xs": ["S"],
         "rs": ["S"], "xa": ["A"], "in": ["S", "R0"], "id1": ["S", "R1"], "id2": ["S", "R2"], "n": ["N"]}
NEED = {"z1": 1, "z2": 2, "zp": 3, "z0": None, "z3": 1}
FID = {"z1": 1, "z2": 2, "zp": 0, "z0": 0, "z3": 3}


def _dictid_field(frame):
    """(offset, width) of the Dictionary_ID field of a Zstandard frame header"""
    fhd = frame[4]
    w = [0, 1, 2, 4][fhd & 3]
    return 5 + (0 if (fhd >> 5) & 1 else 1), w


def build_id_pool(ctx, rng, cd, hexe):
    out, errs = st.run_lines(hexe, ["T d1 %d" % rng.randrange(1, 500), "T d2 %d" % rng.randrange(500, 1000)])
    if errs or not out.get("d1", "").startswith("OK ") or not out.get("d2", "").startswith("OK "):
        ctx.violation(dict(kind="harness-crash", detail=(errs or [out])[:1]), what="c02_hist could not train the two dictionaries", no_input=True)
        return None
    d1, d2 = codec.unhx(out["d1"].split(" ")[1]), codec.unhx(out["d2"].split(" ")[1])
    id1, id2 = int.from_bytes(d1[4:8], "little"), int.from_bytes(d2[4:8], "little")
    if id1 == id2 or d1 == d2:
        return None
    jobs = []
    for i in range(16):
        kind = ["z1", "z2", "zp", "z0"][i % 4]
        size = rng.choice([30, 300, 1000, 3000])
        src = {"z1": d1[-600:], "z2": d2[-600:], "zp": d2, "z0": None}[kind]
        if src is None:
            x = codec.gen_input(rng, rng.choice(codec.KINDS), size)
        else:
            x = bytearray()
            while len(x) < size:
                l = min(rng.randint(20, 200), len(src))
                o = rng.randrange(0, len(src) - l + 1)
                x += src[o:o + l] + rng.randbytes(rng.choice([0, 1, 3]))
            x = bytes(x[:size])
        p = {"level": rng.choice([1, 3, 5]), "windowLog": rng.choice([12, 14, 17])}
        if rng.random() < 0.5:
            p["checksum"] = 1
        mode, d = {"z1": ("load", d1), "z2": ("load", d2), "zp": ("prefix", d2), "z0": ("-", None)}[kind]
        jobs.append(dict(id="p%d" % i, kind=kind, x=x, p=p, mode=mode, d=d))
    o2, errs = cd.impl(["C %s compress2 %s %s %s %s" % (j["id"], codec.params_str(j["p"]), j["mode"], codec.hx(j["d"]) if j["d"] else "-", codec.hx(j["x"]))
                        for j in jobs])
    pool = {}
    for j in jobs:
        r = codec.parse_ok(o2.get(j["id"], "ERR missing"))
        if r[0] != "OK":
            continue
        f = r[1]
        if j["kind"] in ("z1", "z2"):
            off, w = _dictid_field(f)
            if w == 0 or int.from_bytes(f[off:off + w], "little") != (id1 if j["kind"] == "z1" else id2):
                continue
            if j["kind"] == "z1":        # the same frame naming an ID nobody has
                g = bytearray(f)
                g[off] ^= 1
                pool.setdefault("z3", []).append(dict(frame=bytes(g), content=j["x"]))
        pool.setdefault(j["kind"], []).append(dict(frame=f, content=j["x"]))
    if not all(pool.get(k) for k in ("z1", "z2", "zp", "z0", "z3")):
        return None
    return d1, d2, id1, id2, pool


def gen_id_history(rng, pool):
    """-> events : ('set', op) | ('frame', kind, f, seg) | ('skip', bytes) | ('oneshot', [(kind, f)])"""
    ev = []
    if rng.random() < 0.85:
        ev.append(("set", "mdd=1"))
    for _ in range(rng.randint(1, 4)):
        for _ in range(rng.choice([0, 1, 1, 2, 3])):
            ev.append(("set", rng.choice(["rd1", "rd2", "rd1", "rd2", "rd0", "ld1", "ld2", "ld1", "ld2", "rp2", "rp2", "xs", "rs", "xa", "in", "id1", "id2", "mdd=1", "mdd=0", "n"])))
        if rng.random() < 0.25:
            ks = [rng.choice(["z1", "z2", "z0", "z0", "zp", "z3"]) for _ in range(rng.randint(1, 3))]
            ev.append(("oneshot", [(k, rng.choice(pool[k])) for k in ks]))
        else:
            for _ in range(rng.randint(1, 3)):
                if rng.random() < 0.15:
                    ev.append(("skip", st.skippable(rng.randbytes(rng.choice([0, 1, 4, 100])), rng.randrange(16))))
                else:
                    k = rng.choice(["z1", "z2", "z1", "z2", "z0", "zp", "z3"])
                    ev.append(("frame", k, rng.choice(pool[k]), rng.choice(["La:r", "Lh:r", "L1:r", "L7:100", "Ma:r", "La:1"])))
                    if rng.random() < 0.5:
                        ev.append(("set", rng.choice(["xs", "xs", "rs", "in", "xa"])))     # lets the history go on after a refused frame
    return ev


def corpus_id_histories(pool):
    z1, z2, z0, zp = pool["z1"][0], pool["z2"][0], pool["z0"][0], pool["zp"][0]
    hs = []
    # finding 3 and its neighbours
    hs.append(([("set", "mdd=1"), ("set", "rd1"), ("set", "rp2"), ("frame", "zp", zp, "La:r"), ("frame", "z1", z1, "La:r")], "used-up prefix, then a frame naming a referenced DDict (streamed)"))
    hs.append(([("set", "mdd=1"), ("set", "rd1"), ("set", "rp2"), ("frame", "zp", zp, "La:r"), ("oneshot", [("z1", z1)])], "used-up prefix, then the same frame in a single call"))
    hs.append(([("set", "mdd=1"), ("set", "rd1"), ("set", "rp2"), ("frame", "zp", zp, "Lh:r"), ("frame", "z0", z0, "La:r"), ("frame", "z1", z1, "La:r")], "used-up prefix, plain frame, naming frame"))
    hs.append(([("set", "mdd=1"), ("set", "rd1"), ("set", "rd0"), ("frame", "z1", z1, "La:r")], "refDDict(A), refDDict(NULL), frame naming A"))
    hs.append(([("set", "mdd=1"), ("set", "rd1"), ("set", "rd2"), ("frame", "z1", z1, "L1:r"), ("frame", "z0", z0, "La:r"), ("frame", "z2", z2, "Lh:r")], "two DDicts, frames naming each"))
    hs.append(([("set", "mdd=1"), ("set", "rd1"), ("set", "rd2"), ("oneshot", [("z1", z1), ("z0", z0), ("z2", z2)])], "two DDicts, one call over frames naming each"))
    hs.append(([("set", "mdd=1"), ("set", "rd1"), ("set", "xa"), ("set", "mdd=1"), ("set", "rd2"), ("frame", "z1", z1, "La:r")], "parameter reset drops the referenced DDicts"))
    hs.append(([("set", "rd1"), ("set", "rd2"), ("frame", "z1", z1, "La:r")], "without the parameter the last reference wins"))
    # d0ddbff : a dictionary loaded into the context (or a pending prefix) is never replaced by the selection
    hs.append(([("set", "mdd=1"), ("set", "rd2"), ("set", "ld1"), ("frame", "z2", z2, "La:r")], "referenced DDict 2, dictionary 1 loaded, frame naming 2 (refused)"))
    hs.append(([("set", "mdd=1"), ("set", "rd2"), ("set", "ld1"), ("frame", "z1", z1, "Lh:r"), ("frame", "z0", z0, "La:r")], "referenced DDict 2, dictionary 1 loaded, its own frame"))
    hs.append(([("set", "mdd=1"), ("set", "rd2"), ("set", "ld1"), ("oneshot", [("z1", z1), ("z2", z2)])], "referenced DDict 2, dictionary 1 loaded, one call over frames naming 1 and 2"))
    hs.append(([("set", "mdd=1"), ("set", "rd1"), ("set", "rp2"), ("oneshot", [("z1", z1)])], "prefix pending, one call over a frame naming the referenced DDict (refused)"))
    # b15fdb6 : a refused frame leaves the prefix pending (frame start without the single-pass shortcut), the retry finds it
    hs.append(([("set", "rp2"), ("frame", "z1", z1, "L1:r"), ("set", "xs"), ("frame", "zp", zp, "La:r")], "prefix, refused frame, session reset, prefix frame"))
    hs.append(([("set", "mdd=1"), ("set", "rd1"), ("set", "rp2"), ("frame", "z1", z1, "Lh:r"), ("set", "xs"), ("frame", "zp", zp, "L1:r"), ("frame", "z1", z1, "La:r")],
               "prefix pending hides the referenced DDict, refused, reset, prefix frame, then nothing current"))
    hs.append(([("set", "ld2"), ("frame", "z1", z1, "L7:100"), ("set", "xs"), ("frame", "z2", z2, "La:r")], "loaded dictionary, refused frame, reset, its own frame"))
    # b87b37f : a ZSTD_decompressDCtx call that fails leaves the prefix pending
    hs.append(([("set", "rp2"), ("oneshot", [("z1", z1)]), ("oneshot", [("zp", zp)]), ("oneshot", [("z0", z0)])], "prefix, refused single call, the call that needs it"))
    hs.append(([("set", "rp2"), ("oneshot", [("z1", z1)]), ("frame", "zp", zp, "L1:r"), ("frame", "z0", z0, "La:r")], "prefix, refused single call, streamed prefix frame"))
    return hs


def run_dict_ids(ctx, rng, cd, tie, n):
    hexe = core.build_harness("c02_hist", ["c02_hist.c"], variant="o1" if ctx.quick else "asan", extra_flags=["-w"])
    bp = build_id_pool(ctx, rng, cd, hexe)
    if bp is None:
        core.log("dictionary-ID histories: no pool (training gave unusable dictionaries)")
        return 0, 0
    d1, d2, id1, id2, pool = bp
    hists = [(ev, "corpus: " + desc) for ev, desc in corpus_id_histories(pool)] + [(gen_id_history(rng, pool), "generated") for _ in range(n)]
    # pass 1: the model says which dictionary every frame is decoded from and whether it is accepted
    mlines = []
    for i, (ev, _) in enumerate(hists):
        mops = []
        for e in ev:
            if e[0] == "set":
                mops += M_OPS[e[1]]
            elif e[0] == "frame":
                mops.append("F%d" % FID[e[1]])
            elif e[0] == "skip":
                mops.append("K")
            else:
                mops.append("O" + "/".join(str(FID[k]) for k, _ in e[1]))
            mops.append("q")
        mlines.append("DI m%d %d:%d %s" % (i, id1, id2, ",".join(mops)))
    mout, merrs = tie.model(mlines)
    if merrs:
        ctx.violation(dict(kind="model-crash", detail=merrs[:2]), what="the extracted dictionary-ID model crashed: %r" % (merrs[0],), no_input=True)
    cases = []
    for i, (ev, desc) in enumerate(hists):
        m = mout.get("m%d" % i, "")
        if not m.startswith("OK "):
            continue
        items = [x for x in m.split(" ")[1].split(";") if x]
        ops, stream, plan, mi, stop = ["ce"], b"", [("set", "ce")], 0, False       # plan: what the implementation must show, in order
        for ei, e in enumerate(ev):
            if stop:
                break
            fr = []
            while mi < len(items) and items[mi].startswith("f="):
                a, b = items[mi][2:].split(":")
                fr.append((int(a), b == "1"))
                mi += 1
            q = items[mi] if mi < len(items) else None
            mi += 1
            if e[0] == "set":
                ops.append(e[1])
                ops.append("q")
                plan.append(("set", e[1]))
                plan.append(("q", q))
            elif e[0] == "skip":
                ops += ["j%d" % len(stream), "e%d" % (len(stream) + len(e[1])), "La:r", "q"]
                stream += e[1]
                plan.append(("stream", b"", len(e[1]), True, "skip"))
                plan.append(("q", q))
            elif e[0] == "frame":
                k, f, seg = e[1], e[2], e[3]
                idx, ok = fr[0] if fr else (0, False)
                if ok and NEED[k] is not None and NEED[k] != idx:
                    break                     # accepted by the ID check but decoded from another dictionary than it was made with: not predictable here
                ops += ["j%d" % len(stream), "e%d" % (len(stream) + len(f["frame"])), seg, "q"]
                stream += f["frame"]
                plan.append(("stream", f["content"], len(f["frame"]), ok, k))
                if not ok:
                    # after an error only a resetting call is legal (the single-pass shortcut leaves the same state since 2f289ec)
                    nxt_ev = ev[ei + 1] if ei + 1 < len(ev) else None
                    if not (nxt_ev and nxt_ev[0] == "set" and nxt_ev[1] in ("xs", "rs", "in", "id1", "id2", "xa", "n")):
                        stop = True
                    else:
                        plan.append(("q", q))     # dctx->ddict / dctx->dictUses right after the refusal (b15fdb6: a pending prefix stays pending)
                else:
                    plan.append(("q", q))
            else:
                fl = e[1]
                if len(fr) < len(fl) and all(o for _, o in fr):
                    break
                pred = True
                for (k, f), (idx, ok) in zip(fl, fr):
                    if ok and NEED[k] is not None and NEED[k] != idx:
                        pred = False
                if not pred:
                    break
                allok = len(fr) == len(fl) and all(o for _, o in fr)
                total = sum(len(f["frame"]) for _, f in fl)
                ops += ["j%d" % len(stream), "e%d" % (len(stream) + total), "o%d" % total, "q"]
                stream += b"".join(f["frame"] for _, f in fl)
                plan.append(("oneshot", b"".join(f["content"] for _, f in fl), total, allok, "+".join(k for k, _ in fl)))
                plan.append(("q", q))         # also after a refused call: it needs no reset, and leaves a pending prefix pending (b87b37f)
        if any(p[0] in ("stream", "oneshot") for p in plan):
            cases.append(dict(id="i%d" % i, ops=";".join(ops), stream=stream, plan=plan, desc=desc, mops=mlines[i].split(" ", 3)[3]))
    out, errs = st.run_lines(hexe, ["H %s %s %s %s %s" % (c["id"], codec.hx(d1), codec.hx(d2), codec.hx(c["stream"]) if c["stream"] else "-", c["ops"]) for c in cases])
    if errs:
        ctx.violation(dict(kind="harness-crash", detail=errs[:2]), what="c02_hist crashed during a dictionary-ID history: %r" % (errs[0],))
    nv = 0
    for c in cases:
        r = out.get(c["id"], "")
        if not r.startswith("OK "):
            continue
        t = r.split(" ")
        ob = codec.unhx(t[1])
        recs = [x for x in (t[2] if len(t) > 2 else "").split(";") if x and not re.match(r"^[je]\d+=", x)]      # cursor moves are not events
        ri, opos, bad, concrete = 0, 0, None, False

        def nxt():
            nonlocal ri
            if ri < len(recs):
                ri += 1
                return recs[ri - 1]
            return None
        lastq, key = None, None
        for p in c["plan"]:
            if bad:
                break
            if p[0] == "q":
                lastq = p[1]
            if p[0] == "set":
                x = nxt()
                if x is None or "=E" in x:
                    bad = "set-up call %s answered %s" % (p[1], x)
            elif p[0] == "q":
                x = nxt()
                want = p[1].replace("q=3,", "q=2,") if p[1] else None       # the prefix is dictionary 2's bytes
                if x is None or (want is not None and x != want):
                    bad = "dctx->ddict / dctx->dictUses after the event: implementation %s, model %s" % (x, p[1])
            elif p[0] == "stream":
                calls = []
                while ri < len(recs) and recs[ri].startswith("s:"):
                    calls.append(recs[ri].split(":"))
                    ri += 1
                err = next((x[5] for x in calls if x[5].startswith("E")), None)
                produced = sum(int(x[4]) for x in calls)
                got = ob[opos:opos + produced]
                opos += produced
                if p[3]:
                    if err or got != p[1] or not calls or calls[-1][5] != "0":
                        bad = "frame %s: the model accepts it (decoded from the dictionary it was made with), the implementation answered %s (%d of %d bytes)" % (
                            p[4], err or (calls[-1][5] if calls else "nothing"), len(got), len(p[1]))
                        concrete = True
                else:
                    if err is None:
                        bad = "frame %s: the model refuses it with dictionary_wrong, the implementation decoded it (%d bytes, %s)" % (
                            p[4], len(got), "the right content" if got == p[1] else "other content")
                        concrete = True
                        if lastq and lastq.endswith(",0") and not lastq.startswith("q=0,"):
                            key = KEY_STALE       # a used-up prefix had left its pointer behind (dictUses == dont_use, ddict != NULL)
                    elif "Dictionary_mismatch" not in err:
                        bad = "frame %s: expected dictionary_wrong, got %s" % (p[4], err)
            else:
                x = nxt()
                if x is None or not x.startswith("o:"):
                    bad = "no single-call record (%s)" % x
                    continue
                ret = x.split(":")[2]
                if p[3]:
                    if ret.startswith("E") or ob[opos:opos + len(p[1])] != p[1]:
                        bad = "single call over %s: the model accepts every frame, the implementation answered %s" % (p[4], ret)
                        concrete = True
                    opos += len(p[1])
                else:
                    if not ret.startswith("E"):
                        bad = "single call over %s: the model refuses a frame with dictionary_wrong, the implementation returned %s" % (p[4], ret)
                        concrete = True
                    elif "Dictionary_mismatch" not in ret:
                        bad = "single call over %s: expected dictionary_wrong, got %s" % (p[4], ret)
        ctx.count(("DID", tuple((p[0], p[3], p[4]) if p[0] in ("stream", "oneshot") else p[0] for p in c["plan"] if p[0] != "q")), nontrivial=True)
        if bad:
            nv += 1
            ctx.violation(dict(kind="reuse-history", family="dict-id", ops=c["ops"], model_ops=c["mops"], ids="%d:%d" % (id1, id2),
                               stream_hex=c["stream"].hex()[:60000], dict1_hex=d1.hex(), dict2_hex=d2.hex(), desc=c["desc"]),
                          what="dictionary-ID history (%s; ops %s): %s%s" % (c["desc"], c["ops"][:160], bad, " [%s]" % key if key else ""), no_input=not concrete, key=key)
        else:
            ctx.cov["traces_validated_against_impl"] += 1
    return len(cases), nv


def replay_id_history(ctx, rep, tie):
    """re-execute a recorded dictionary-ID history: the implementation's q records and refusals against the model's, in order"""
    hexe = core.build_harness("c02_hist", ["c02_hist.c"], variant="o1", extra_flags=["-w"])
    out, errs = st.run_lines(hexe, ["H r0 %s %s %s %s" % (rep.get("dict1_hex") or "-", rep.get("dict2_hex") or "-", rep.get("stream_hex") or "-", rep["ops"])])
    mout, merrs = tie.model(["DI r0 %s %s" % (rep["ids"], rep["model_ops"])])
    r, m = out.get("r0", ""), mout.get("r0", "")
    core.log("replay of a dictionary-ID history: implementation %s ; model %s" % (r[-500:], m[-300:]))
    if errs or merrs or not r.startswith("OK ") or not m.startswith("OK "):
        ctx.violation(rep, what="replayed dictionary-ID history could not be executed: %s %s" % (errs[:1], merrs[:1]))
        return
    recs = [x for x in r.split(" ")[2].split(";") if x]
    iq = [x for x in recs if x.startswith("q=")]
    irej = sum(1 for x in recs if "EDictionary_mismatch" in x)
    ierr = [x for x in recs if (x.startswith("s:") or x.startswith("o:")) and x.split(":")[-1].startswith("E") and "Dictionary_mismatch" not in x]
    items = [x for x in m.split(" ")[1].split(";") if x]
    mq = [x.replace("q=3,", "q=2,") for x in items if x.startswith("q=")]
    mrej = sum(1 for x in items if x.startswith("f=") and x.endswith(":0"))
    k = next((i for i, (a, b) in enumerate(zip(iq, mq)) if a != b), None)
    if ierr or k is not None or (irej > 0) != (mrej > 0):
        ctx.violation(rep, what="replayed dictionary-ID history: implementation and DictIdModel differ (first q difference %s: %s vs %s; refusals %d vs %d; other errors %s)"
                               % (k, iq[k] if k is not None else None, mq[k] if k is not None else None, irej, mrej, ierr[:1]))
