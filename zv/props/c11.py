"""C11 - multithreaded compression (lib/compress/zstdmt_compress.c + pool.c) is correct and live under every schedule.

Deciding artefact: coq/Props/Properties_C11.v (theorems about coq/Conc/MtModel.v, for ALL schedules of critical
sections, all call programs, all payload oracles).
Tie (checked on every run): the real zstdmt_compress.c + pool.c + zstd_compress.c, rebuilt from /repo's working tree
with harness/sched/zv_pthread.h pre-included, run under the deterministic scheduler (harness/c11_mt.c).  The log of
every scheduler step (synchronisation operation, named object, protocol fields of ZSTDMT_CCtx) is turned into the
schedule of critical sections + the payload oracle, replayed through the extracted Coq model, and the model state is
compared with the C fields after EVERY critical section (fields of a protection domain only while its mutex is free;
where each thread stands - which mutex / which condition - as well).
Oracles on the real code (the property executed): deadlock = the scheduler finds no runnable thread; every completed
frame decodes with libzstd (and, for a sample, with the Gallina reference decoder R) to the consumed input with a
verified checksum; live input ranges never overlap the buffer handed to the caller; lock order.
Supporting only: seeded random / PCT / adversarial schedule families; ThreadSanitizer build on real threads (thorough).
"""
import json
import os
import random
import struct
import subprocess
import time
from concurrent.futures import ProcessPoolExecutor

from zv import core

HARNESS_SRC = ["c11_mt.c", "sched/zv_sched.c"]
PRE = os.path.join(core.HARNESS, "sched", "zv_pthread.h")
MB = 1 << 20


# --------------------------------------------------------------------------
# cases

class Case:
    KEYS = ("nbw", "jobsize", "level", "strat", "ovlog", "rsync", "ldm", "cksum", "wlog", "dict", "kind", "iseed", "isize",
            "policy", "seed", "stay", "fam", "famarg", "probe", "sched", "prog")

    def __init__(self, **kw):
        d = dict(nbw=2, jobsize=MB, level=1, strat=0, ovlog=0, rsync=0, ldm=0, cksum=1, wlog=0, dict=0, kind=1, iseed=1,
                 isize=2 * MB, policy="r", seed=1, stay=50, fam=0, famarg=0, probe=0, sched="-", prog="E100000", dump="-", tag="")
        d.update(kw)
        self.__dict__.update(d)

    def config(self):
        return " ".join("%s=%s" % (k, getattr(self, k)) for k in self.KEYS)

    def line(self, cid):
        return "CASE id=%d %s dump=%s" % (cid, self.config(), self.dump)

    def clone(self, **kw):
        d = dict(self.__dict__)
        d.update(kw)
        return Case(**d)


def parse_config(cfg):
    kv = dict(t.split("=", 1) for t in cfg.split() if "=" in t)
    c = Case()
    for k, v in kv.items():
        if k in ("policy", "sched", "prog", "dump", "tag"):
            setattr(c, k, v)
        elif k != "id":
            setattr(c, k, int(v))
    return c


def gen_prog(rng, isize, jobsize):
    """A call program: continue / flush calls over the input with assorted input and output window sizes, then end."""
    ops = []
    style = rng.choice(["big", "jobs", "small", "flushy", "tinyout"])
    left = isize
    n = 0
    while left > 0 and n < 14:
        if style == "big":
            i = left
        elif style == "jobs":
            i = min(left, rng.choice([jobsize, jobsize // 2, jobsize + 1, jobsize - 1, 2 * jobsize]))
        elif style == "small":
            i = min(left, rng.choice([1, 7, 4096, 131071, 131072, 131073, 300000]))
        else:
            i = min(left, rng.choice([jobsize // 3, jobsize, 200000, 65536]))
        o = rng.choice([1, 100, 4096, 100000, 1 << 22]) if style == "tinyout" or rng.random() < 0.3 else 1 << 22
        k = "c"
        if style == "flushy" and rng.random() < 0.5:
            k = "f"
        elif rng.random() < 0.1:
            k = "f"
        ops.append("%s%d:%d" % (k, i, o))
        left -= i
        n += 1
        if rng.random() < 0.08:
            ops.append("L%d" % rng.choice([1, 2, 3, 5]))
    ops.append("E%d" % rng.choice([1 << 22, 100000, 16384]))
    return ",".join(ops)


def gen_case(rng, quick=True):
    nbw = rng.choice([1, 2, 2, 3, 4])
    jobsize = rng.choice([512 * 1024, MB, MB, MB + 4096, 2 * MB])
    njobs = rng.choice([1, 2, 3, 3, 4, 5, 6])
    isize = int(jobsize * njobs * rng.uniform(0.55, 1.05)) + rng.choice([0, 1, 17])
    isize = max(600000, min(isize, 7 * MB))
    c = Case(nbw=nbw, jobsize=jobsize, level=rng.choice([1, 1, 1, 2, 3]), ovlog=rng.choice([0, 0, 1, 3, 5, 6, 7, 9]),
             rsync=1 if rng.random() < 0.2 else 0, ldm=1 if rng.random() < 0.15 else 0, cksum=rng.choice([0, 1, 1]),
             dict=rng.choice([0, 0, 0, 0, 1, 2]), kind=rng.choice([0, 1, 1, 1, 2, 3]), iseed=rng.getrandbits(30), isize=isize,
             seed=rng.getrandbits(40), stay=rng.choice([0, 30, 60, 85, 95]), probe=1 if rng.random() < 0.3 else 0)
    if c.ldm:
        c.wlog = rng.choice([20, 21, 22])
    x = rng.random()
    if x < 0.5:
        c.policy, c.fam = "r", 0
    elif x < 0.7:
        c.policy, c.fam, c.famarg = "r", 1, rng.choice([0, 1, 2, 3, 5])      # PCT
    else:
        c.policy, c.fam = "r", rng.choice([2, 2, 3, 3, 4, 5])
        c.famarg = rng.choice([0, 1]) if c.fam == 2 else (rng.randint(1, nbw) if c.fam == 4 else 0)
    c.prog = gen_prog(rng, isize, jobsize)
    return c


def gen_frame_prog(rng, size, jobsize, faults=False):
    """One frame of a multi-frame program: a few continue / flush calls (with mid-frame parameter changes zstd allows under
    multithreading, ZSTD_sizeof_CCtx queries, a rare abort or worker-side allocation failure), then end after exactly `size` bytes."""
    ops = []
    left = size
    n = 0
    nmax = rng.choice([0, 1, 2, 4, 6])
    while left > 0 and n < nmax:
        i = min(left, rng.choice([jobsize, jobsize // 2, jobsize + 1, 2 * jobsize, 200000, 65536, left, left]))
        o = rng.choice([0, 1, 100, 4096, 100000, 1 << 22, 1 << 22, 1 << 22])
        if rng.random() < 0.3:
            ops.append("C%d:%d" % (i, max(o, 100)))
        else:
            ops.append("%s%d:%d" % (rng.choice("ccccf"), i, o))
        left -= i
        n += 1
        if rng.random() < 0.12:
            ops.append(rng.choice(["P100:%d" % rng.choice([-5, 1, 3, 5, 7]), "P107:%d" % rng.randint(1, 5), "P105:%d" % rng.randint(3, 7),
                                   "P102:%d" % rng.randint(6, 20), "P103:%d" % rng.randint(6, 20), "P106:%d" % rng.choice([0, 1, 16, 999]), "Z"]))
        if rng.random() < 0.04:
            ops.append("R")
            return ops, True
        if faults and rng.random() < 0.12:
            ops.append("X%d" % rng.randint(0, 3))
    ops.append("G%d:%d" % (left, rng.choice([1 << 22, 100000, 16384, 3000])))
    return ops, False


def gen_between(rng, st):
    """Parameter / dictionary switches between two frames (numeric ZSTD_cParameter ids)."""
    ops = []
    r = rng.random
    if r() < 0.35:
        ops.append("P160:%d" % rng.choice([0, 1]))                       # enableLongDistanceMatching
    if r() < 0.25:
        ops.append("P201:%d" % rng.choice([0, 1]))                       # checksumFlag
    if r() < 0.3:
        st["jobsize"] = rng.choice([512 * 1024, MB, 600000, 2 * MB, 0])
        ops.append("P401:%d" % st["jobsize"])                            # jobSize
    if r() < 0.3:
        ops.append("P402:%d" % rng.randint(0, 9))                        # overlapLog
    if r() < 0.2:
        ops.append("P500:%d" % rng.choice([0, 1]))                       # rsyncable
    if r() < 0.3:
        ops.append("P100:%d" % rng.choice([-3, 1, 1, 2, 3, 4, 5, 6]))    # compressionLevel
    if r() < 0.3:
        ops.append("P101:%d" % rng.choice([0, 10, 14, 17, 18, 19, 20, 21, 22, 23]))   # windowLog
    for pid, vals in ((161, [0, 6, 10, 16, 20]), (163, [0, 1, 4, 8]), (164, [0, 1, 4, 7]), (162, [0, 4, 32, 64, 4096]),      # ldm hashLog / bucketSizeLog / hashRateLog / minMatch
                      (130, [0, 1340, 4000, 100000]), (1015, [0, 1024, 4096, 65536, 131072]), (1000, [0, 1]),             # targetCBlockSize, maxBlockSize, forceMaxWindow
                      (1002, [0, 1, 2]), (1010, [0, 1, 2]), (1011, [0, 1, 2]), (200, [0, 1])):                             # literalCompressionMode, useBlockSplitter, useRowMatchFinder, contentSizeFlag
        if r() < 0.1:
            ops.append("P%d:%d" % (pid, rng.choice(vals)))
    if r() < 0.35 and not st.get("aborted"):
        # (no dictionary call right after an abort: known finding mt-abandoned-session-dict-freed)
        ops.append("D%d" % rng.choice([0, 1, 1, 2, 3, 4]))
    if r() < 0.1:
        ops.append("Z")
    return ops


def gen_case_multi(rng):
    """2-4 frames on one context, parameters / dictionaries switched between them; nbWorkers stays (lock-stepped)."""
    nbw = rng.choice([1, 2, 2, 3, 4])
    jobsize = rng.choice([512 * 1024, MB, 600000])
    st = dict(jobsize=jobsize, faults=rng.random() < 0.3)
    total = 0
    ops = []
    for f in range(rng.randint(2, 4)):
        if f > 0 or rng.random() < 0.5:
            ops += gen_between(rng, st)
        js = st["jobsize"] or MB
        size = int(js * rng.choice([0.4, 1.0, 1.5, 2.2, 3.1])) + rng.choice([0, 1, 17])
        size = max(530000, min(size, 4 * MB))
        fo, st["aborted"] = gen_frame_prog(rng, size, js, st["faults"])
        if f == 0:
            ops = [o for o in ops if o != "Z"]     # (the compared region starts at the first call: no query before it)
        ops += fo
        total += size
    c = Case(nbw=nbw, jobsize=jobsize, level=rng.choice([1, 1, 2, 3]), ovlog=rng.choice([0, 0, 3, 6, 9]), rsync=0, ldm=0, cksum=rng.choice([0, 1]),
             dict=rng.choice([0, 0, 1, 2]), kind=rng.choice([0, 1, 1, 2, 3, 3]), iseed=rng.getrandbits(30), isize=total + 1000,
             seed=rng.getrandbits(40), stay=rng.choice([0, 30, 60, 85, 95]), probe=1 if rng.random() < 0.2 else 0)
    x = rng.random()
    if x < 0.4:
        c.policy, c.fam = "r", 0
    elif x < 0.6:
        c.policy, c.fam, c.famarg = "r", 1, rng.choice([0, 1, 2, 3, 5])
    else:
        c.policy, c.fam = "r", rng.choice([2, 2, 3, 3, 4, 5, 6])
        c.famarg = rng.choice([0, 1]) if c.fam == 2 else (rng.randint(1, nbw) if c.fam == 4 else 0)
    c.prog = ",".join(ops)
    return c


FINDING_PROGS = {
    "P1006:1,G1200000:4194304,T2,s1000:4194304,G1200000:4194304": "mt-inputhint-null-mtctx-after-pool-switch",
    "C1048576:4194304,X0,f120000:0,C1600000:0,E4194304": "C11-ldm-wait-after-worker-error",
    "f100000:0,X1,C3600000:1,E4194304": "C11-serial-turn-skipped-after-error",
    "C1048576:4194304,X0,c100000:0,C3600000:100,E4194304": "C11-serial-turn-skipped-after-error",
}
FINDING_PROGS_INV = {}
for _k, _v in FINDING_PROGS.items():
    FINDING_PROGS_INV.setdefault(_v, _k)


def finding_cases():
    """The exact schedules (family + seed) on which the two repaired findings deadlock on a tree without fix e0108a3 (re-found after every
    change of the protocol: a seeded schedule depends on the number of synchronisation operations)."""
    T = 512 * 1024
    return [
        Case(nbw=1, jobsize=T, ovlog=9, ldm=1, wlog=20, kind=3, cksum=1, isize=4194304, prog="C1048576:4194304,X0,f120000:0,C1600000:0,E4194304",
             policy="r", fam=5, famarg=0, seed=12240310889, stay=50, tag="ldm-error-window-exact"),
        Case(nbw=2, jobsize=T, ovlog=1, ldm=1, wlog=21, kind=3, cksum=1, isize=4194304, prog="f100000:0,X1,C3600000:1,E4194304",
             policy="r", fam=7, famarg=0, seed=483246024224, stay=90, tag="ldm-error-turn-exact"),
        Case(nbw=2, jobsize=T, ovlog=9, ldm=1, wlog=21, kind=1, cksum=0, isize=6291456, prog="C1048576:4194304,X0,c100000:0,C3600000:100,E4194304",
             policy="r", fam=7, famarg=0, seed=310856819364, stay=0, tag="ldm-error-turn-exact2"),
    ]


def corpus(rng):
    """Boundary cases (run first): where the model splits cases."""
    C = []
    # one job exactly / one byte more (two jobs, second tiny) / chunk boundary inside a job
    C.append(Case(nbw=1, jobsize=512 * 1024, isize=600000, prog="c600000:4194304,E4194304", tag="two-jobs-1w"))
    C.append(Case(nbw=2, jobsize=MB, isize=MB, prog="c1048576:4194304,E4194304", tag="exact-job"))
    C.append(Case(nbw=2, jobsize=MB, isize=MB + 1, prog="c1048577:4194304,E3000", tag="job+1,tiny-out"))
    C.append(Case(nbw=2, jobsize=2 * MB, isize=5 * MB, prog="E65536", tag="one-call-end"))
    # ring full / jobReady: 1 worker, many jobs offered at once
    C.append(Case(nbw=1, jobsize=512 * 1024, isize=4 * MB, prog="c4194304:4194304,E4194304", tag="ring-1w"))
    C.append(Case(nbw=1, jobsize=512 * 1024, isize=4 * MB, prog="c4194304:1,c0:1,c0:1,E4194304", tag="ring-1w-noout"))
    # round buffer wrap with and without overlap
    C.append(Case(nbw=1, jobsize=512 * 1024, ovlog=9, isize=5 * MB, prog="E4194304", tag="wrap-ov9"))
    C.append(Case(nbw=2, jobsize=512 * 1024, ovlog=1, isize=5 * MB, prog="E4194304", tag="wrap-ov1"))
    C.append(Case(nbw=3, jobsize=MB, ovlog=6, isize=7 * MB, kind=2, prog="c3000000:4194304,f0:4194304,E4194304", tag="wrap-incompressible"))
    # the next input range would end inside the PREFIX (not the source) of the oldest unfinished job: only the prefix test refuses it
    C.append(Case(nbw=2, jobsize=512 * 1024, ovlog=8, kind=3, isize=5000000, prog="C2621440:0,C100000:0,f0:0,C524288:0,C524288:0,E4194304", tag="range-ends-in-prefix"))
    # flush with small jobs (small extents in the round buffer)
    C.append(Case(nbw=2, jobsize=512 * 1024, isize=3 * MB, prog=",".join(["f70000:4194304"] * 12) + ",E4194304", tag="small-flush-jobs"))
    # empty last job (end with nothing buffered), single-job frame keeps the checksum in the worker
    C.append(Case(nbw=2, jobsize=512 * 1024, isize=MB, prog="f1048576:4194304,e0:4194304,E4194304", tag="empty-last-job"))
    C.append(Case(nbw=2, jobsize=MB, isize=700000, prog="c700000:4194304,E4194304", tag="single-job"))
    # rsyncable, ldm
    C.append(Case(nbw=2, jobsize=MB, rsync=1, isize=5 * MB, kind=1, prog="c2000000:4194304,c3242880:4194304,E4194304", tag="rsync"))
    C.append(Case(nbw=2, jobsize=MB, ldm=1, wlog=21, kind=3, isize=6 * MB, prog="E4194304", tag="ldm"))
    # abort with a prepared-but-unposted job (F16), then reuse
    C.append(Case(nbw=1, jobsize=512 * 1024, level=3, isize=6 * MB, prog="c524288:0,c524288:0,R,E4194304", tag="abort-jobReady"))
    C.append(Case(nbw=2, jobsize=512 * 1024, isize=6 * MB, prog="c2000000:1000,R,c1000000:100000,E4194304,c500000:100,E4194304", tag="abort-reuse"))
    # worker-side allocation failure
    C.append(Case(nbw=2, jobsize=512 * 1024, isize=4 * MB, prog="c600000:100000,X0,c2000000:100000,E4194304,E4194304", tag="fault-0"))
    C.append(Case(nbw=2, jobsize=512 * 1024, isize=4 * MB, prog="c600000:100000,X1,c2000000:100000,E4194304,E4194304", tag="fault-1"))
    C.append(Case(nbw=3, jobsize=512 * 1024, isize=5 * MB, prog="X2,c3000000:100000,E4194304,E4194304", tag="fault-2"))
    # an EMPTY posted job (frame opened with no input, ended with no input): abort / worker failure while it is in flight (finding F31)
    C.append(Case(nbw=2, jobsize=512 * 1024, isize=2000000, prog="c0:100,e0:0,R,E100000", tag="abort-empty-job"))
    C.append(Case(nbw=2, jobsize=512 * 1024, isize=2000000, prog="c0:100,X0,e0:100000,E100000", tag="fault-empty-job"))
    C.append(Case(nbw=1, jobsize=512 * 1024, isize=2000000, prog="f0:100,e0:1,e0:100,E100000", tag="empty-frame-mt"))
    # job table full (nextJobID == doneJobID + jobIDMask + 1): one pool thread, tiny output windows, jobs finish faster than they are flushed
    C.append(Case(nbw=1, jobsize=512 * 1024, kind=0, isize=8 * 524288 + 100, prog="C4194404:1,E4194304", tag="ring-full-const"))
    C.append(Case(nbw=1, jobsize=512 * 1024, kind=1, isize=7 * 524288, prog="C3670016:3000,E4194304", tag="ring-full-text"))
    C.append(Case(nbw=2, jobsize=512 * 1024, kind=0, isize=12 * 524288, cksum=1, prog="C6291456:1,E100", tag="ring-full-2w"))
    # a one-byte job first: the round buffer position is 1 mod the section size, the wrap test sees spaceLeft == target - 1
    C.append(Case(nbw=1, jobsize=512 * 1024, ovlog=1, kind=1, isize=5 * 524288, prog="f1:4194304,c2621439:4194304,E4194304", tag="wrap-offset-1"))
    C.append(Case(nbw=2, jobsize=512 * 1024, ovlog=5, kind=1, isize=7 * 524288, prog="f1:4194304,C3670015:4194304,E4194304", tag="wrap-offset-1-ov"))
    # three and four pool threads with several jobs in the serial section at once (overtaking needs a job to wait for more than one turn)
    C.append(Case(nbw=3, jobsize=512 * 1024, kind=1, isize=6 * 524288, cksum=1, prog="E4194304", tag="serial-3w"))
    C.append(Case(nbw=4, jobsize=512 * 1024, kind=3, isize=8 * 524288 + 77, cksum=1, prog="c4194381:4194304,E4194304", tag="serial-4w"))
    # LDM window larger than what the pool threads hold: the round buffer wraps into the window of jobs that are past their serial section
    C.append(Case(nbw=4, jobsize=512 * 1024, ldm=1, wlog=22, kind=3, isize=16 * 524288, prog="E4194304", tag="ldm-wrap-4w"))
    C.append(Case(nbw=3, jobsize=512 * 1024, ldm=1, wlog=21, ovlog=6, kind=3, isize=14 * 524288, prog="c7340032:4194304,E4194304", tag="ldm-wrap-3w"))
    # abandoned session with a job still running, then a different worker count (fix 0a1d6c3: wait before ZSTDMT_resize frees the pools)
    C.append(Case(nbw=1, jobsize=512 * 1024, level=3, isize=6 * MB, prog="c524288:0,c524388:0,R,W3,E4194304", tag="abort-resize-up"))
    C.append(Case(nbw=3, jobsize=512 * 1024, isize=6 * MB, prog="c1600000:0,R,W1,E4194304", tag="abort-resize-down"))
    # progress queries between the calls
    C.append(Case(nbw=2, jobsize=512 * 1024, isize=3 * MB, probe=1, prog="c700000:1000,c700000:100000,f300000:5000,c1000000:4194304,E65536", tag="progress"))
    # repaired findings (fix e0108a3), must stay repaired: a worker-side failure with LDM while the application gives no output space.
    # (1) ZSTDMT_serialState_ensureFinished did not clear ldmState.window: the next job republished a window that still covered the data
    #     before the failed job and the caller waited on ldmWindowCond for ever (key C11-ldm-wait-after-worker-error);
    # (2) ZSTDMT_serialState_update advanced serial.nextJobID even when the turn had been skipped: every later job arrived one behind, no
    #     job ever had its turn again and the window never moved (key C11-serial-turn-skipped-after-error)
    C.append(Case(nbw=1, jobsize=512 * 1024, ovlog=9, ldm=1, wlog=20, kind=3, isize=4194304, prog=FINDING_PROGS_INV["C11-ldm-wait-after-worker-error"], tag="ldm-error-window"))
    C.append(Case(nbw=2, jobsize=512 * 1024, ovlog=1, ldm=1, wlog=21, kind=3, cksum=1, isize=4194304, prog=FINDING_PROGS_INV["C11-serial-turn-skipped-after-error"], tag="ldm-error-turn"))
    C.append(Case(nbw=2, jobsize=512 * 1024, ovlog=9, ldm=1, wlog=20, kind=3, isize=4194304, prog="C1048576:4194304,F4194304,X1,f120000:0,C1600000:0,E4194304", tag="ldm-error-window-2w"))
    # stage error: continue after the frame ended
    C.append(Case(nbw=2, jobsize=512 * 1024, isize=2 * MB, prog="e1000000:100,c1000:1000,E4194304,E4194304", tag="continue-after-end"))
    # third wave: several frames on ONE context with parameters switched in between (op Pp:v = ZSTD_CCtx_setParameter, Dn = dictionary calls,
    # GI:O = end the frame after I more bytes).  Every frame re-runs ZSTDMT_initCStream_internal; since fix 97c340a its setNbSeq section belongs
    # to every frame, a frame without LDM switches the sequence pool off again and resets serial.nextJobID after that section.
    T = 512 * 1024
    C.append(Case(nbw=2, jobsize=T, ldm=1, wlog=20, kind=3, isize=5000000, prog="G1600000:4194304,P160:0,G1600000:4194304,P160:1,G1600000:4194304", tag="ldm-on-off-on"))
    C.append(Case(nbw=1, jobsize=T, kind=3, isize=5000000, prog="G1200000:4194304,P160:1,P101:20,C1100000:100,G600000:100000,P160:0,c600000:0,G700000:4194304", tag="ldm-off-on-off"))
    C.append(Case(nbw=2, jobsize=T, ldm=1, wlog=21, kind=3, isize=5000000, prog="c1600000:0,R,P160:0,G1300000:4194304,P160:1,c1100000:100,R,G600000:4194304", tag="ldm-abort-off-on"))
    C.append(Case(nbw=2, jobsize=T, kind=1, isize=6000000, prog="G1300000:4194304,P401:1048576,G2500000:4194304,P401:524288,P402:9,G1300000:100000", tag="jobsize-switch"))
    C.append(Case(nbw=3, jobsize=T, kind=1, cksum=1, isize=4000000, prog="G1200000:4194304,P201:0,G1200000:4194304,P201:1,P500:1,G1400000:4194304", tag="cksum-rsync-switch"))
    C.append(Case(nbw=2, jobsize=T, kind=1, dict=0, isize=5000000, prog="D2,G1100000:4194304,D1,G1100000:4194304,D0,G600000:4194304,D3,G1100000:100000,D4,G700000:4194304", tag="dict-switch"))
    C.append(Case(nbw=2, jobsize=T, kind=3, ldm=1, wlog=20, dict=0, isize=4000000, prog="D1,G1700000:4194304,D2,G1200000:4194304,P160:0,D1,G700000:4194304", tag="ldm-dict-switch"))
    C.append(Case(nbw=2, jobsize=T, kind=1, isize=3000000, prog="c600000:4194304,P107:4,c600000:4194304,P100:5,P105:3,c600000:1000,Z,P102:12,G700000:4194304", tag="midframe-params"))
    C.append(Case(nbw=2, jobsize=T, kind=1, isize=3000000, prog="c1100000:1000,Z,c600000:1000,Z,X0,c600000:0,Z,G600000:4194304,G500000:4194304", tag="sizeof-midframe"))
    # ZSTD_CCtx_refThreadPool between frames (fix 7b3a25e drops the multithreaded context), then the older ZSTD_compressStream() with a
    # stable input buffer smaller than a block: the call returns before the frame is initialised and computes its input-size hint
    # (finding mt-inputhint-null-mtctx-after-pool-switch); shared pool <-> private pool switches with and without an abandoned session
    C.append(Case(nbw=2, jobsize=T, kind=1, isize=3000000, prog="P1006:1,G1200000:4194304,T2,s1000:4194304,G1200000:4194304", tag="pool-switch-stable-hint"))
    C.append(Case(nbw=2, jobsize=T, kind=1, isize=4000000, prog="T2,G1200000:4194304,T0,G1200000:100000,T2,c1100000:0,R,T0,G1200000:4194304", tag="pool-switch"))
    C.append(Case(nbw=2, jobsize=T, kind=1, isize=4000000, prog="T3,c1100000:100,s600000:4096,Z,G600000:100000,W1,G1200000:4194304,T0,W3,G400000:4194304", tag="pool-switch-resize"))
    # a context built around a shared pool of nbWorkers threads from the start runs the same protocol: lock-stepped
    C.append(Case(nbw=2, jobsize=T, kind=1, isize=4000000, probe=1, prog="T2,c1100000:1000,X1,G600000:4194304,G900000:100000,c600000:0,R,G700000:4194304", tag="shared-pool-lockstep"))
    # the context is freed in the middle of a frame whose jobs run on a shared pool (fix f02e35a: ZSTDMT_freeCCtx waits for them)
    C.append(Case(nbw=2, jobsize=T, kind=1, level=3, isize=4000000, prog="T2,G600000:4194304,c1700000:0", tag="pool-shared-free-midframe"))
    out = []
    for c in C:
        out.append(c.clone(policy="r", fam=6))
        for fam, arg in ((2, 0), (2, 1), (3, 0), (4, 0), (5, 0), (7, 1), (7, 2)):
            out.append(c.clone(policy="r", fam=fam, famarg=arg, seed=rng.getrandbits(40)))
        out.append(c.clone(policy="r", fam=1, famarg=3, seed=rng.getrandbits(40)))
        out.append(c.clone(policy="r", fam=0, stay=rng.choice([0, 50, 90]), seed=rng.getrandbits(40)))
    return out + finding_cases()


# --------------------------------------------------------------------------
# trace -> model case + expected observations

def split_state(txt):
    """'mt .. | ser .. | pool .. | jobs .. | own .. | th ..' -> dict of token lists"""
    d = {}
    for part in txt.split(" | "):
        toks = part.split()
        if toks:
            d[toks[0]] = toks[1:]
    return d


class Trace:
    """One case of the harness log."""

    def __init__(self, case_line):
        self.case_line = case_line
        self.lines = []
        self.end = None
        self.oracles = []
        self.frames = []


def read_traces(path):
    traces = []
    cur = None
    with open(path, errors="replace") as f:
        for ln in f:
            ln = ln.rstrip("\n")
            if ln.startswith("CASE "):
                cur = Trace(ln)
                traces.append(cur)
            elif cur is None:
                continue
            elif ln.startswith("O "):
                cur.oracles.append(ln[2:])
            elif ln.startswith("E "):
                cur.end = ln[2:]
            elif ln.startswith("FRAME "):
                cur.frames.append(ln)
            else:
                cur.lines.append(ln)
    return traces


COND_MUTEX = {"s": "S", "l": "L", "p": "P", "u": "P"}


def build_model_case(tr):
    """Returns (model_lines, checkpoints, info).  checkpoints[i] = (step_no, tid, C state dict) aligned with the model's
    i-th printed state (0 = initial)."""
    cfg = None
    ops = []           # ("I", None|params) / ("C", e, i, o)
    pending_init = None
    begin = False
    end_seen = False
    stop = False
    unmodelled = None
    held = {}
    sigw = {}
    steps = []         # (tid, w)
    checks = []
    frame = 0
    after_init_marker = False
    pays = {}          # (frame, id) -> dict(err, chunks, last, win)
    jobsec = {}        # tid -> list of section names since the job was popped
    fault_pending = None
    first_after_begin = False
    st_frame = False
    seen_one = True
    last_alldone = "1"
    last_q = None
    wslot = {}
    info_skip_win = False
    faults = {}        # (frame,id) -> stage
    nsteps = 0
    # progress queries (PROBE begin .. PROBE end, printed by the caller while it runs): the caller's steps in between are not steps of
    # the model.  A step line is printed when the step ENDS, so the first caller line after "PROBE begin" is still the last section
    # of the call (compared, except for where the caller stands), and the first caller line after "PROBE end" is the last probe step.
    probe = False
    pevents = []       # PROBE begin / end lines seen since the caller's last stop
    early_done = {}    # tid -> its current serial section was already stepped at the inner unlock of ldmWindowMutex
    last_c = None      # the ZSTD_compressStream2 call whose return value is awaited
    for ln in tr.lines:
        if stop:
            break
        if ln.startswith("CFG "):
            cfg = dict(t.split("=") for t in ln.split()[1:])
        elif ln == "MARK begin":
            begin = True
            first_after_begin = True
        elif ln == "MARK end":
            end_seen = True
        elif ln.startswith("OP "):
            t = ln.split()
            if t[1] == "init":
                st_frame = False
                pending_init = len(ops)
                ops.append(["I", None])
                after_init_marker = True
                seen_one = last_alldone == "1"
            elif t[1] == "cs":
                last_c = None
                if not st_frame:
                    last_c = ["C", t[2], t[3], t[4], None]
                    ops.append(last_c)
            elif t[1] == "pool0":
                # the multithreaded context was built around a shared pool from the start: the same protocol when the pool has nbWorkers threads
                if cfg and t[2] != cfg["nbw"] and unmodelled is None:
                    unmodelled = "shared thread pool whose size differs from nbWorkers (outside the model)"
            elif t[1] == "pool":
                unmodelled = "ZSTD_CCtx_refThreadPool: the multithreaded context is rebuilt around another pool (outside the model)"
            elif t[1] == "workers":
                unmodelled = "nbWorkers changed between frames (POOL_resize is outside the model)"
        elif ln.startswith("INITP "):
            kv = dict(x.split("=") for x in ln.split()[1:])
            if pending_init is not None:
                ops[pending_init][1] = kv
                pending_init = None
            if cfg and kv["nbw"] != cfg["nbw"] and unmodelled is None:
                unmodelled = "nbWorkers changed"
        elif ln == "INITST":
            # the library chose single-threaded compression for this frame (known tiny input): not a zstdmt frame
            if pending_init is not None:
                del ops[pending_init:]
                pending_init = None
            st_frame = True
            after_init_marker = False
        elif ln.startswith("RET "):
            if last_c is not None:
                last_c[4] = "E" if ln.startswith("RET E") else ln.split()[1]
                last_c = None
        elif ln.startswith("FAULT"):
            fault_pending = int(ln.split()[1])
        elif ln == "PROBE begin":
            pevents.append("B")
        elif ln == "PROBE end":
            pevents.append("E")
        elif ln.startswith("S "):
            head, _, rest = ln.partition(" mt ")
            t = head.split()
            tid, w, ex = int(t[1]), int(t[2]), t[3]
            kind, name = ex[0], ex[1:]
            st = split_state("mt " + rest) if rest else None
            if st is not None and not all(k in st for k in ("mt", "ser", "pool", "jobs", "own", "th")):
                st = None
            nsteps += 1
            in_probe = probe or ("B" in pevents)
            if tid == 0:
                # the line describes the step the caller made BEFORE it reached its present stop: it is a step of a query iff the caller
                # was inside a query at its previous stop; the PROBE lines printed since then tell where it is now
                was_probe = probe
                if pevents:
                    probe = pevents[-1] == "B"
                    pevents = []
                if was_probe:
                    if st is not None:
                        # (the state is the caller's up to its next lock: when an initialisation follows the query, this is where
                        # allJobsCompleted == 1 is seen)
                        last_alldone = st["mt"][4]
                        if after_init_marker and st["mt"][4] == "1":
                            seen_one = True
                    continue
            if kind == "M":
                held[tid] = held.get(tid, 0) + 1
                if held[tid] == 1:
                    sigw[tid] = 0
            elif kind == "S":
                sigw[tid] = w
            commit = False
            early = False
            if kind in ("U", "W"):
                held[tid] = max(0, held.get(tid, 0) - 1)
                commit = held[tid] == 0
                # a section of ldmWindowMutex nested in a serial.mutex section (ZSTDMT_serialState_update / _ensureFinished): the model
                # executes the whole serial section as one step; its effects become visible to the only other observer of that state
                # (the caller, which takes ldmWindowMutex alone) at the INNER unlock, and nothing it does afterwards under serial.mutex
                # can be observed before the outer unlock.  The step is therefore linearised at the inner unlock.
                if kind == "U" and name == "L" and held[tid] == 1 and tid != 0:
                    early = True
                    early_done[tid] = True
            if fault_pending is not None and tid == fault_pending and st is not None:
                # the allocation failed inside this step: which job, which stage
                secs = jobsec.get(tid, [])
                faults[tid] = (name, list(secs))
                fault_pending = None
            if st is not None:
                last_alldone = st["mt"][4]
            if first_after_begin:
                first_after_begin = False
                checks.append((nsteps, tid, st, "init", False))       # initial state of the compared region (the caller's commit is not a model step)
                if end_seen:
                    stop = True
                continue
            if early and st is not None:
                steps.append((tid, 0))
                checks.append((nsteps, tid, st, "S", in_probe))
            if commit and (begin or tid != 0):
                if name == "?" and tid != 0:
                    name = "P"
                # payload derivation (worker sections)
                if tid != 0 and st is not None:
                    secs = jobsec.setdefault(tid, [])
                    if name == "P":
                        jobsec[tid] = []
                        secs = jobsec[tid]
                    else:
                        secs.append(name)
                    if name.startswith("J") and "S" not in secs and st["jobs"][int(name[1:])].split(":")[6] != "E":
                        pass      # the job_mutex section that publishes job->dstBuff (before the serial section): no payload information
                    elif name.startswith("J"):
                        k = int(name[1:])
                        jf = st["jobs"][k].split(":")
                        key = (frame, int(jf[0]))
                        p = pays.setdefault(key, dict(err="-", chunks=[], last=0, win="0:0:0:0", prev=0, done=False))
                        if jf[6] == "E":
                            if p["err"] == "-":
                                fname, fsecs = faults.get(tid, ("?", []))
                                size = int(jf[2])
                                chunk = int(cfg["chunk"]) if cfg else 524288
                                nchunks = (size + chunk - 1) // chunk
                                if "S" not in secs:
                                    if "B" not in secs:
                                        p["err"] = "cctx"
                                    elif jf[7] == "0":
                                        p["err"] = "buf"
                                    elif fname == "Q":
                                        p["err"] = "seq"
                                    else:
                                        p["err"] = "init"
                                else:
                                    nj = len([x for x in secs[secs.index("S") + 1:] if x.startswith("J")]) - 1
                                    if nj + 1 < nchunks:
                                        p["err"] = "chunk%d" % (nj + 1)
                                    else:
                                        p["err"] = "last"
                        else:
                            cs = int(jf[6])
                            if int(jf[5]) == int(jf[2]) and not p["done"]:
                                p["last"] = cs - p["prev"]
                                p["done"] = True
                            elif not p["done"]:
                                p["chunks"].append(cs - p["prev"])
                            p["prev"] = cs
                    if name == "P":
                        if last_q not in (None, "-1") and st["pool"][0] == "-1":
                            wslot[tid] = int(last_q)
                    if name == "S" and secs.count("S") == 1 and tid in wslot:
                        # ZSTDMT_serialState_update of this worker's job: the LDM window it leaves (oracle for the model)
                        jf = st["jobs"][wslot[tid]].split(":")
                        w = st["ser"][1].split(":")
                        if "-2" in w or "-1" in w:
                            info_skip_win = True
                        else:
                            a, b, c, d = map(int, w)
                            pays.setdefault((frame, int(jf[0])), dict(err="-", chunks=[], last=0, win="0:0:0:0", prev=0, done=False))["win"] = "%d:%d:%d:%d" % (a, a + b, c, c + d)
                if st is not None and st["own"][-1] == "-1":
                    last_q = st["pool"][0]
                if early_done.pop(tid, False) and name == "S":
                    pass      # already stepped at the inner unlock
                else:
                    steps.append((tid, sigw.get(tid, 0) if name == "P" and tid == 0 else 0))
                    checks.append((nsteps, tid, st, name, in_probe))
                if tid == 0 and after_init_marker and st is not None:
                    # the new frame starts at the commit that turns allJobsCompleted from 1 (set by the previous frame's end or by
                    # ZSTDMT_releaseAllJobResources) to 0: the ZSTDMT_setBufferSize section of ZSTDMT_initCStream_internal
                    if st["mt"][4] == "1":
                        seen_one = True
                    elif seen_one:
                        frame += 1
                        after_init_marker = False
            if end_seen and begin:
                stop = True
    info = dict(cfg=cfg, unmodelled=unmodelled, nsteps=nsteps, frames=frame, skip_win=info_skip_win)
    if cfg is None or not checks:
        return None, None, info
    out = ["CFG %s %s %s %s" % (cfg["nbw"], cfg["rlog"], cfg["chunk"], cfg["minblk"])]
    for (f, i), p in sorted(pays.items()):
        out.append("PAY %d %d %s %s %d %s" % (f, i, p["err"], ".".join(map(str, p["chunks"])) or "-", p["last"], p["win"]))
    rets = []          # expected result of every operation of the model's call program (None = the call did not return in the run)
    for o in ops:
        if o[0] == "I":
            if o[1] is None:
                break
            kv = o[1]
            out.append("OPI %s %s %s %s %s %s %s" % (kv["target"], kv["prefix"], kv["cksum"], kv["ldm"], kv["rsync"], kv["wsize"], kv["hits"]))
            rets.append("0")
        else:
            out.append("OPC %s %s %s" % (o[1], o[2], o[3]))
            rets.append(o[4])
    info["rets"] = rets
    out.append("RUN")
    for tid, w in steps:
        out.append("STEP %d %d" % (tid, w))
    out.append("ENDCASE")
    info["nmodel"] = len(steps)
    info["pays"] = pays
    return out, checks, info


def ck_frame(checks, ck):
    """frame number in force at checkpoint ck: number of initialisations completed before it (allJobsCompleted 1 -> 0 transitions of the caller)."""
    f = 0
    prev = "1"
    for c in checks:
        st = c[2]
        if st is not None:
            cur = st["mt"][4]
            if prev == "1" and cur == "0":
                f += 1
            prev = cur
        if c is ck:
            break
    return f


def compare(cst, mst, skip_win=False, skip_t0=False):
    """cst: C state dict (with own), mst: model state dict.  Returns list of differences.
    skip_t0: the caller is inside a progress query (PROBE): where it stands is not compared."""
    diffs = []
    own = cst["own"]
    sep = own.index(";")
    jown = own[:sep]
    oS, oL, oB, oC, oQ, oP = own[sep + 1:sep + 7]
    names = ["done", "next", "ready", "ended", "alldone", "rpos", "rcap", "istart", "ifill", "pstart", "psize", "target", "ptarget", "cksum", "ldm", "rsync"]
    cm, mm = cst["mt"], mst["mt"]
    for i, n in enumerate(names):
        if n == "pstart" and cm[10] == "0":
            continue
        if cm[i] != mm[i]:
            diffs.append("mt.%s impl=%s model=%s" % (n, cm[i], mm[i]))
    if oS == "-1":
        if cst["ser"][0] != mst["ser"][0]:
            diffs.append("serial.nextJobID impl=%s model=%s" % (cst["ser"][0], mst["ser"][0]))
        if oL == "-1" and not skip_win and cst["ser"][1] != mst["ser"][1]:
            diffs.append("serial.ldmWindow impl=%s model=%s" % (cst["ser"][1], mst["ser"][1]))
        if not skip_win and len(cst["ser"]) > 2 and len(mst["ser"]) > 2 and cst["ser"][2] != mst["ser"][2]:
            diffs.append("serial.ldmState.window impl=%s model=%s" % (cst["ser"][2], mst["ser"][2]))
    cp, mp = cst["pool"], mst["pool"]
    if oP == "-1":
        if cp[0] != mp[0]:
            diffs.append("pool.queue impl=%s model=%s" % (cp[0], mp[0]))
        if cp[1] != mp[1]:
            diffs.append("pool.numThreadsBusy impl=%s model=%s" % (cp[1], mp[1]))
    if oB == "-1" and cp[2] != mp[2]:
        diffs.append("bufPool.nbBuffers impl=%s model=%s" % (cp[2], mp[2]))
    if oC == "-1" and cp[3] != mp[3]:
        diffs.append("cctxPool.availCCtx impl=%s model=%s" % (cp[3], mp[3]))
    if oQ == "-1" and (cp[4] != mp[4] or cp[5] != mp[5]):
        diffs.append("seqPool impl=%s,%s model=%s,%s" % (cp[4], cp[5], mp[4], mp[5]))
    jn = ["jobID", "src.start", "src.size", "prefix.start", "prefix.size", "consumed", "cSize", "dstBuff", "firstJob", "lastJob", "frameChecksumNeeded", "dstFlushed", "jobCompleted"]
    for k, (cj, mj) in enumerate(zip(cst["jobs"], mst["jobs"])):
        cf, mf = cj.split(":"), mj.split(":")
        for i, n in enumerate(jn):
            if i == 1 and cf[2] == "0":
                continue
            if i == 3 and cf[4] == "0":
                continue
            if i in (5, 6, 7, 12) and jown[k] != "-1":
                continue        # consumed, cSize, dstBuff (written under job_mutex since d04f829), jobCompleted: the job mutex is held
            if i in (1, 3) and cf[i] == "-2" and not (int(cm[0]) <= int(cf[0]) < int(cm[1]) + int(cm[2])):
                continue        # a STALE slot (no job in flight, none prepared) still points into the round buffer that a later frame with a
                                # larger capacity has replaced: the pointer is dead, the model has no address for it (the slot is rewritten
                                # by ZSTDMT_createCompressionJob before it is used again: mt_ring_slot_reuse)
            if cf[i] != mf[i]:
                diffs.append("jobs[%d].%s impl=%s model=%s" % (k, n, cf[i], mf[i]))
    if "fl" in cst and "fl" in mst and cst["fl"] != mst["fl"]:
        diffs.append("flush log (copies, bytes, last job:offset:length) impl=%s model=%s" % (" ".join(cst["fl"]), " ".join(mst["fl"])))
    owners = {"S": oS, "L": oL, "B": oB, "C": oC, "Q": oQ, "P": oP}
    for t, (ct, mt_) in enumerate(zip(cst["th"], mst["th"])):
        if mt_ == "X" or (t == 0 and skip_t0):
            continue
        kind, name = ct[0], ct[1:]
        if name == "?" or name == "-":
            continue
        if str(t) in jown or str(t) in (oS, oL, oB, oC, oQ, oP):
            continue        # inside a critical section (e.g. serial.mutex held, standing at ldmWindowMutex)
        if kind == "M":
            o = jown[int(name[1:])] if name[0] == "J" else owners.get(name, "-1")
            if o != "-1":
                continue
        elif kind != "Z":
            continue
        elif owners.get(COND_MUTEX.get(name[0], "?"), "-1") != "-1":
            continue        # asleep on a condition whose mutex is held right now: the holder may be about to signal / have signalled
        if ct != mt_:
            diffs.append("thread %d stands at impl=%s model=%s" % (t, ct, mt_))
    return diffs


def process_chunk(args):
    """Worker process: run the harness on a case file, derive the model cases, run the model, compare.
    Returns a list of per-case result dicts."""
    hexe, mexe, base, env = args
    t0 = time.time()
    with open(base + ".cases") as fi, open(base + ".trace", "w") as fo, open(base + ".err", "w") as fe:
        p = subprocess.run([hexe], stdin=fi, stdout=fo, stderr=fe, env=env)
    traces = read_traces(base + ".trace")
    results = []
    mlines = []
    metas = []
    for tr in traces:
        r = dict(case=tr.case_line, end=tr.end, oracles=tr.oracles, frames=len(tr.frames), diff=None, steps=0, model_steps=0, sig="", note="")
        try:
            out, checks, info = build_model_case(tr)
        except Exception as e:  # noqa
            out, checks, info = None, None, dict(unmodelled="trace parse error: %r" % (e,), nsteps=0)
            r["note"] = info["unmodelled"]
        r["steps"] = info.get("nsteps", 0)
        if out is not None and not info.get("unmodelled"):
            mlines.append(tr.case_line)
            mlines += out
            metas.append((r, checks, info))
        else:
            r["note"] = r["note"] or (info.get("unmodelled") or "no model case")
        results.append(r)
    with open(base + ".model", "w") as f:
        f.write("\n".join(mlines) + "\n")
    with open(base + ".model") as fi, open(base + ".mout", "w") as fo:
        subprocess.run([mexe], stdin=fi, stdout=fo, stderr=subprocess.PIPE)
    # split the model output per case
    blocks = []
    cur = None
    with open(base + ".mout") as f:
        for ln in f:
            ln = ln.rstrip("\n")
            if ln.startswith("CASE "):
                cur = []
                blocks.append(cur)
            elif cur is not None and (ln.startswith("M ") or ln.startswith("F ")):
                cur.append(ln)
    for (r, checks, info), blk in zip(metas, blocks):
        ms = [b for b in blk if b.startswith("M ")]
        fl = [b for b in blk if b.startswith("F ")]
        r["model_steps"] = len(ms) - 1
        r["final"] = fl[0] if fl else ""
        pcs = set()
        for i, ck in enumerate(checks):
            if i >= len(ms):
                r["diff"] = "model produced %d states for %d checkpoints" % (len(ms), len(checks))
                break
            m = ms[i][2:]
            if m.startswith("DISABLED") or m.startswith("DEAD"):
                r["diff"] = "step %d (scheduler step %d): the implementation ran thread %d (section %s) but the model thread is disabled" % (i, ck[0], ck[1], ck[3] if len(ck) > 3 else "?")
                break
            cst = ck[2]
            if cst is None or (len(ck) > 4 and ck[4]):
                # (during a progress query the caller has yielded between two calls, where the model's step runs on into the next call
                # up to its first lock: the implementation's state lags until the query is over)
                continue
            mst = split_state(m)
            if "-2" in cst["ser"][1] or (len(cst["ser"]) > 2 and "-2" in cst["ser"][2]):
                info["skip_win"] = True      # LDM window refers to memory outside the round buffer (dictionary): addresses not modelled
            d = compare(cst, mst, skip_win=info.get("skip_win", False), skip_t0=(len(ck) > 4 and ck[4]))
            if d:
                r["diff"] = "after critical section %d (scheduler step %d, thread %d, %s): %s" % (i, ck[0], ck[1], ck[3] if len(ck) > 3 else "init", "; ".join(d[:4]))
                break
            pcs.update(mst["th"])
            pcs.add("r%s" % mst["mt"][2])
        # return value of every completed ZSTD_compressStream2 call (mt_error_propagates and the hints): the model's c_res
        if r["diff"] is None and r["final"] and " res=" in r["final"]:
            mres = [x for x in r["final"].split(" res=", 1)[1].strip().split(",") if x != ""]
            for k, (a, b) in enumerate(zip(info.get("rets", []), mres)):
                if a is not None and a != b:
                    r["diff"] = "operation %d of the call program returned impl=%s model=%s" % (k, a, b)
                    break
            r["nres"] = min(len(mres), len([a for a in info.get("rets", []) if a is not None]))
        r["sig"] = ",".join(sorted(pcs))
        r["pays"] = {"%d/%d" % k: v["err"] for k, v in info.get("pays", {}).items() if v["err"] != "-"}
    return results


class Runner:
    def __init__(self, ctx, variant="o1", defs=(), model=None):
        self.ctx = ctx
        self.variant = variant
        kw = dict(variant=variant, pre_include=PRE, lib_exclude=["pool.c", "zstdmt_compress.c"], extra_flags=["-w", "-DZV_MAXSTEPS=16384"])
        try:
            self.h = core.build_harness("c11_mt", HARNESS_SRC, extra_defs=list(defs), **kw)
        except RuntimeError as e:
            if "jobCompleted" not in str(e):
                raise
            # ZSTDMT_jobDescription has no jobCompleted member (the sources predate fix c655545): build without reading it; the model's
            # flag then has no counterpart and the lock-step reports it
            ctx.notes["harness_fallback"] = "no jobCompleted member in ZSTDMT_jobDescription"
            self.h = core.build_harness("c11_mt", HARNESS_SRC, extra_defs=list(defs) + ["-DC11_NO_JOBCOMPLETED"], **kw)
        self.m = model or core.build_extracted("c11model", "Extract/Extract_C11.v", "c11_driver.ml")
        self.n = 0

    def run(self, cases, tag, jobs=None):
        self.n += 1
        jobs = max(1, min(jobs or max(1, core.NCPU - 2), len(cases)))
        env = dict(os.environ)
        args = []
        for k in range(jobs):
            base = os.path.join(self.ctx.scratch, "%s-%d-%d" % (tag, self.n, k))
            with open(base + ".cases", "w") as f:
                for i in range(k, len(cases), jobs):
                    f.write(cases[i].line(i) + "\n")
            args.append((self.h, self.m, base, env))
        res = []
        with ProcessPoolExecutor(max_workers=jobs) as ex:
            for rs in ex.map(process_chunk, args):
                res += rs
        return res


def case_of_line(ln):
    return parse_config(ln[5:])


def report(ctx, runner, results, tag):
    seen = set()
    for r in results:
        c = case_of_line(r["case"])
        cfgs = c.config()
        end = r["end"] or "NONE"
        hist = ctx.notes.setdefault("end", {})
        hist[end.split()[0]] = hist.get(end.split()[0], 0) + 1
        if end.startswith("STEPLIMIT"):
            continue
        ctx.count((r["sig"], end.split()[0]), nontrivial=r["model_steps"] >= 20)
        if r["diff"] is None and not r["note"]:
            ctx.cov["traces_validated_against_impl"] += 1
            ctx.notes["sections_compared"] = ctx.notes.get("sections_compared", 0) + r["model_steps"]
        if r["note"]:
            ctx.notes.setdefault("not_lockstepped", {})
            ctx.notes["not_lockstepped"][r["note"][:60]] = ctx.notes["not_lockstepped"].get(r["note"][:60], 0) + 1
        for k, v in (r.get("pays") or {}).items():
            ctx.notes.setdefault("worker_errors", {})
            ctx.notes["worker_errors"][v] = ctx.notes["worker_errors"].get(v, 0) + 1
        bad = None
        if r["oracles"]:
            bad = ("zstdmt violates the property on a concrete schedule: %s" % r["oracles"][0], False)
        elif not end.startswith("END"):
            bad = ("run did not finish: %s" % end, False)
        elif r["diff"]:
            bad = ("zstdmt_compress.c no longer corresponds to the model: %s" % r["diff"], True)
        if bad is None:
            continue
        sig = (bad[0][:70],)
        if sig in seen or len(seen) >= 5:
            continue
        seen.add(sig)
        replay = dict(kind="schedule", config=cfgs, variant=runner.variant, tag=tag, observed=dict(end=end, oracles=r["oracles"][:3], first_difference=r["diff"]))
        key = FINDING_PROGS.get(c.prog)
        if key and not bad[1]:
            ctx.violation(replay, what=bad[0][:400], key=key)
            continue
        if bad[1]:
            found = search(ctx, runner, c)
            if found:
                f = found[0]
                replay2 = dict(kind="schedule", config=case_of_line(f["case"]).config(), variant=runner.variant, tag=tag + "-search",
                               observed=dict(end=f["end"], oracles=f["oracles"][:3]), found_from=replay)
                ctx.violation(replay2, what="%s; the search found a concrete property failure: %s" % (bad[0][:200], (f["oracles"] or [f["end"]])[0]))
                continue
            ctx.violation(replay, what=bad[0][:400], no_input=True)
        else:
            ctx.violation(replay, what=bad[0][:400])


def search(ctx, runner, c, n=96):
    """Neighbourhood search with the oracles only: same workload, many schedules of every family."""
    rng = random.Random(ctx.seed * 31 + 7)
    cs = []
    for i in range(n):
        fam = [0, 1, 2, 3, 4, 5, 6, 7][i % 8]
        cs.append(c.clone(policy="r", fam=fam, famarg=rng.choice([0, 1, 2, 3]), seed=rng.getrandbits(40), stay=rng.choice([0, 50, 90]), sched="-"))
    try:
        rs = runner.run(cs, "search")
    except Exception as e:  # noqa
        core.log("search failed:", repr(e))
        return []
    out = [r for r in rs if r["oracles"] or not (r["end"] or "").startswith("END")]
    out = [r for r in out if not (r["end"] or "").startswith("STEPLIMIT")]
    out.sort(key=lambda r: r["steps"])
    return out


ASSERT_PROGS = {
    # finding mt-toflushnow-assert-empty-job (repaired by d05af12): ZSTD_toFlushNow asserted `consumed < src.size` for the empty posted job of a
    # frame ended without input, and for a failed job at doneJobID that the next call has not noticed yet
    "c0:100,e0:0,e0:0,E100000": "mt-toflushnow-assert-empty-job",
    "c900000:4194304,X0,C1200000:4096,c600001:4194304,C200000:4096,G134464:3000": "mt-toflushnow-assert-empty-job",
}


def assert_pass(ctx, runner, rng):
    """The same real code built with -DDEBUGLEVEL=1 (zstd's assertions enabled, library and zstdmt_compress.c / pool.c alike) under the
    adversarial schedulers: progress queries and ZSTD_sizeof_CCtx between the calls, empty jobs, worker-side failures, aborts, multi-frame
    programs.  An assertion that fires is a crash of a legal call sequence in a debug build.  Oracles + lock-step as in the main pass
    (zstd's debug threading layer allocates its mutexes and conditions: the harness names the objects through OBJ/MUX)."""
    try:
        dbg = Runner(ctx, runner.variant, defs=["-DDEBUGLEVEL=1"], model=runner.m)
    except Exception as e:  # noqa
        ctx.notes["assert_pass"] = "build failed: %s" % (str(e)[-300:],)
        return
    T = 512 * 1024
    cs = []
    for prog in ASSERT_PROGS:
        for fam, arg in ((2, 0), (2, 1), (5, 0), (6, 0), (0, 0), (3, 0)):
            cs.append(Case(nbw=2, jobsize=T, kind=1, isize=2500000, probe=1, prog=prog, policy="r", fam=fam, famarg=arg, seed=rng.getrandbits(40)))
    cs += [c.clone(probe=1) for c in corpus(rng) if c.tag in ("abort-empty-job", "fault-empty-job", "empty-frame-mt", "fault-0", "fault-1", "fault-2", "progress",
                                                             "sizeof-midframe", "midframe-params", "ldm-error-window", "continue-after-end", "ring-full-2w")]
    cs += [gen_case_multi(rng).clone(probe=1) for _ in range(30 if ctx.quick else 600)]
    cs = [c.clone(prog=",".join(o for o in c.prog.split(",") if o != "Z")) for c in cs]     # (two queries in a row are handled, but keep this pass simple)
    t0 = time.time()
    rs = dbg.run(cs, "assert")
    core.log("C11: assertion pass %d cases %.1fs" % (len(cs), time.time() - t0))
    ctx.notes["assert_pass_cases"] = len(cs)
    seen = 0
    for r in rs:
        end = r["end"] or "NONE"
        if end.startswith("STEPLIMIT"):
            continue
        ctx.count(("assert", r["sig"], end.split()[0]), nontrivial=r["model_steps"] >= 20)
        c = case_of_line(r["case"])
        bad = None
        if r["oracles"]:
            bad = r["oracles"][0]
        elif not end.startswith("END"):
            bad = "run did not finish: %s" % end
        elif r["diff"]:
            bad = "lock-step difference in the DEBUGLEVEL=1 build: %s" % r["diff"]
        elif not r["note"]:
            ctx.cov["traces_validated_against_impl"] += 1
        if bad and seen < 3:
            seen += 1
            what = "zstd built with assertions (DEBUGLEVEL=1) fails on a legal call sequence under a concrete schedule: %s" % bad
            ctx.violation(dict(kind="schedule", config=c.config(), variant=runner.variant, defs="-DDEBUGLEVEL=1", tag="assert", observed=dict(end=end, oracles=r["oracles"][:3])),
                          what=what[:400], key=ASSERT_PROGS.get(c.prog))


def proof_search(ctx, runner):
    def s(broken):
        rng = random.Random(ctx.seed)
        out = []
        rs = runner.run(corpus(rng)[:64], "proofsearch")
        for r in rs:
            if r["oracles"] or not (r["end"] or "").startswith("END"):
                out.append((dict(kind="schedule", config=case_of_line(r["case"]).config(), variant=runner.variant, observed=dict(end=r["end"], oracles=r["oracles"][:3])),
                            "C11 proof broken and the implementation fails: %s" % ((r["oracles"] or [r["end"]])[0])))
                break
        return out
    return s


# --------------------------------------------------------------------------
# R on a sample of frames

def r_check(ctx, runner, rng):
    from zv import codec
    cd = codec.Codec(ctx)
    cases = [Case(nbw=2, jobsize=512 * 1024, isize=540000, cksum=0, kind=1, prog="c540000:4194304,E4194304", policy="r", fam=3, seed=rng.getrandbits(30)),
             Case(nbw=2, jobsize=512 * 1024, isize=530000, cksum=1, kind=0, prog="f529000:4194304,E4194304", policy="r", fam=2, seed=rng.getrandbits(30))]
    for i, c in enumerate(cases):
        c.dump = os.path.join(ctx.scratch, "rdump-%d.bin" % i)
    rs = runner.run(cases, "rcheck")
    items = []
    want = {}
    for i, c in enumerate(cases):
        try:
            data = open(c.dump, "rb").read()
        except OSError:
            continue
        pos = 0
        k = 0
        while pos + 16 <= len(data):
            ol, il = struct.unpack("<QQ", data[pos:pos + 16])
            frame = data[pos + 16:pos + 16 + ol]
            content = data[pos + 16 + ol:pos + 16 + ol + il]
            pos += 16 + ol + il
            cid = "c11-%d-%d" % (i, k)
            items.append((cid, "", None, frame))
            want[cid] = (content, c)
            k += 1
    if not items:
        ctx.violation(dict(kind="rcheck"), what="C11: no frame was produced for the reference-decoder check", no_input=True)
        return
    got = cd.model(items)
    for cid, (content, c) in want.items():
        g = got.get(cid)
        ctx.count(("R", cid[:6]), nontrivial=True)
        if not g or g[0] != "OK" or g[1] != content:
            ctx.violation(dict(kind="schedule", config=c.config(), variant=runner.variant, observed=dict(R=str(g)[:200])),
                          what="frame produced by multithreaded compression is not decoded to the input by the reference decoder R: %s" % (str(g)[:120],))
    ctx.notes["frames_through_R"] = len(items)


# --------------------------------------------------------------------------

def run(ctx):
    ctx.cov["rule"] = ("a case = (nbWorkers 1..4, jobSize 512K..2M, overlapLog, rsyncable, LDM, checksum, dict/prefix, input kind and size spanning 1-16 jobs, "
                       "a program of ZSTD_compressStream2 calls with assorted input/output windows, level changes, resets (abort), nbWorkers changes, "
                       "worker-side allocation faults, progress queries, a schedule family: seeded random / PCT priorities / caller-first / overtake / "
                       "starve-one / starve-job-k / workers-first / no-preemption); boundary corpus (ring full, round-buffer wrap incl. offset 1, LDM window "
                       "wrapped into, 3-4 threads in the serial section, empty jobs, aborts) x 10 families first, then seeded random cases; "
                       "the real code runs under the deterministic scheduler, its log is replayed through the extracted Coq model and compared after every "
                       "critical section; third wave: programs of several frames on one context with parameters (LDM + its parameters, jobSize, overlapLog, "
                       "checksum, rsyncable, level, windowLog, block-size parameters), dictionaries (refPrefix / loadDictionary / refCDict) switched between the "
                       "frames and mid-frame parameter changes, ZSTD_sizeof_CCtx queries, thread-pool switches (oracles only), and an assertion pass (the same "
                       "code built with DEBUGLEVEL=1); evaluations = runs; non-trivial = at least 20 critical sections compared; distinct = distinct (set of "
                       "thread positions + jobReady values reached, END/STUCK) signatures")
    runner = Runner(ctx, "o1")
    if ctx.replay_file:
        return replay(ctx, runner)
    t0 = time.time()
    ctx.prove()
    ctx.proof_verdict(proof_search(ctx, runner))
    core.log("C11: proof step %.1fs" % (time.time() - t0))
    rng = random.Random(ctx.seed * 7919 + 11)
    cs = corpus(rng)
    t0 = time.time()
    rs = runner.run(cs, "corpus")
    core.log("C11: corpus %d cases %.1fs" % (len(cs), time.time() - t0))
    for c in cs[:3]:
        ctx.sample(c.line(0))
    report(ctx, runner, rs, "corpus")
    n = 100 if ctx.quick else 2500
    cs = [gen_case(rng) for _ in range(n)]
    hist = {}
    for c in cs:
        k = "nbw=%d fam=%d rsync=%d ldm=%d" % (c.nbw, c.fam, c.rsync, c.ldm)
        hist[k] = hist.get(k, 0) + 1
    ctx.notes["config_histogram"] = hist
    t0 = time.time()
    rs = runner.run(cs, "random")
    core.log("C11: random %d cases %.1fs" % (len(cs), time.time() - t0))
    for c in cs[:5]:
        ctx.sample(c.line(0))
    report(ctx, runner, rs, "random")
    # several frames per context with parameter / dictionary switches between them (third wave)
    n = 60 if ctx.quick else 1500
    cs = [gen_case_multi(rng) for _ in range(n)]
    t0 = time.time()
    rs = runner.run(cs, "multi")
    core.log("C11: multi-frame %d cases %.1fs" % (len(cs), time.time() - t0))
    for c in cs[:2]:
        ctx.sample(c.line(0))
    report(ctx, runner, rs, "multi")
    assert_pass(ctx, runner, rng)
    r_check(ctx, runner, rng)
    if not ctx.quick:
        tsan(ctx, rng)
    ctx.assumptions += [
        "critical sections are atomic (lock discipline): the model's step is one critical section; data races inside or between C statements are outside a Gallina model (ThreadSanitizer build of the harness, thorough tier, is the supporting test)",
        "the deterministic scheduler implements POSIX mutex/condition semantics without spurious wake-ups; real scheduler/OS behaviour is outside",
        "job payloads (compressed sizes, allocation failures, LDM window trimming) are an oracle taken from the real run; the theorems quantify over every oracle",
        "POOL_resize between frames (nbWorkers change), thread-pool switches (ZSTD_CCtx_refThreadPool) and ZSTDMT_freeCCtx are exercised by the harness oracles but not lock-stepped",
        "whether a worker-side allocation of an output / sequence buffer fails is the oracle's even when the pool holds a buffer (a pooled buffer of another size is freed and re-allocated)",
    ]


def tsan(ctx, rng):
    """Supporting test: the same workloads on real threads under ThreadSanitizer."""
    try:
        h = core.build_harness("c11_mt_tsan", ["c11_mt.c"], variant="tsan", extra_defs=["-DC11_REAL_PTHREADS"], extra_flags=["-w"],
                               lib_exclude=["pool.c", "zstdmt_compress.c"])
    except Exception as e:  # noqa
        ctx.notes["tsan"] = "build failed: %s" % (str(e)[-300:],)
        return
    cs = [c for c in corpus(rng)[::8]] + [gen_case(rng) for _ in range(150)]
    base = os.path.join(ctx.scratch, "tsan")
    with open(base + ".cases", "w") as f:
        for i, c in enumerate(cs):
            f.write(c.line(i) + "\n")
    env = dict(os.environ)
    env["TSAN_OPTIONS"] = "halt_on_error=0:exitcode=66:second_deadlock_stack=1"
    with open(base + ".cases") as fi:
        p = subprocess.run([h], stdin=fi, stdout=subprocess.PIPE, stderr=subprocess.PIPE, env=env, timeout=1500)
    out, err = p.stdout.decode("utf-8", "replace"), p.stderr.decode("utf-8", "replace")
    ctx.notes["tsan_cases"] = len(cs)
    nrace = err.count("WARNING: ThreadSanitizer")
    ctx.notes["tsan_reports"] = nrace
    # known finding mt-sizeof-cctxpool-races-with-workers: ZSTD_sizeof_CCtx (harness op Z) in the middle of a multithreaded
    # frame walks the worker contexts through ZSTDMT_sizeof_CCtxPool while jobs run on them.  Only reports with that
    # function on the stack are attributed to it; any other report stays a plain violation.
    KEY_SZ = "mt-sizeof-cctxpool-races-with-workers"
    reports = ["WARNING: ThreadSanitizer" + r for r in err.split("WARNING: ThreadSanitizer")[1:]]
    other = [r for r in reports if "ZSTDMT_sizeof_CCtxPool" not in r]
    sizeof_only = bool(reports) and not other
    ctx.notes["tsan_reports_sizeof_ccxtpool"] = len(reports) - len(other)
    cur = None
    for ln in out.split("\n"):
        if ln.startswith("CASE "):
            cur = ln
        elif ln.startswith("O ") and cur:
            cfg = case_of_line(cur).config()
            exit66 = ln[2:].strip() == "child exit code 66"      # TSAN_OPTIONS exitcode: the child only reported races
            ctx.violation(dict(kind="tsan-run", config=cfg, variant="tsan", observed=ln[2:]),
                          what="real-thread run violates the property: %s" % ln[2:200],
                          key=KEY_SZ if (exit66 and sizeof_only and ",Z" in cfg) else None)
            cur = None
    if other:
        r = other[0]
        ctx.violation(dict(kind="tsan", report=r[:3000]), what="ThreadSanitizer reports on the zstdmt harness: %s" % r[:200].replace("\n", " "), no_input=False)
    elif reports:
        r = reports[0]
        ctx.violation(dict(kind="tsan", report=r[:3000]), what="ThreadSanitizer reports on the zstdmt harness: %s" % r[:200].replace("\n", " "), no_input=False, key=KEY_SZ)


def replay(ctx, runner):
    obj = json.load(open(ctx.replay_file))
    r = obj.get("replay", obj)
    if r.get("kind") != "schedule":
        core.log("replay: nothing executable in this file (kind=%s); re-running the proof step" % r.get("kind"))
        ctx.prove()
        ctx.proof_verdict(None)
        return
    c = parse_config(r["config"])
    if r.get("defs"):
        runner = Runner(ctx, runner.variant, defs=r["defs"].split(), model=runner.m)     # e.g. the assertion pass: -DDEBUGLEVEL=1
    rs = runner.run([c], "replay")
    ctx.sample(c.line(0))
    for x in rs:
        core.log("replay:", x["end"], x["oracles"][:2], x["diff"])
    report(ctx, runner, rs, "replay")
    if not ctx.violations:
        core.log("replay: the recorded case no longer fails")
    ctx.prove()
    ctx.proof_verdict(None)
