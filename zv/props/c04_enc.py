"""C04 round 2 - a frame WRITER that takes every encoding choice as a parameter (pure Python, shares no code with libzstd nor
with the Coq serialiser): frame header forms, block framing, the four literals modes in every size format, Huffman tree
descriptions (direct / FSE-compressed weights), 1 and 4 streams, Number_of_Sequences forms, the four table modes per
symbol type, arbitrary normalised distributions, explicit sequences (offset values incl. repeat codes).  It produces
VALID-by-construction candidates of shapes the bundled compressor never emits; validity is decided by R, not here."""

LL_BASE = [0, 1, 2, 3, 4, 5, 6, 7, 8, 9, 10, 11, 12, 13, 14, 15, 16, 18, 20, 22, 24, 28, 32, 40, 48, 64, 0x80, 0x100, 0x200, 0x400, 0x800, 0x1000,
           0x2000, 0x4000, 0x8000, 0x10000]
LL_BITS = [0] * 16 + [1, 1, 1, 1, 2, 2, 3, 3, 4, 6, 7, 8, 9, 10, 11, 12, 13, 14, 15, 16]
ML_BASE = list(range(3, 35)) + [35, 37, 39, 41, 43, 47, 51, 59, 67, 83, 99, 0x83, 0x103, 0x203, 0x403, 0x803, 0x1003, 0x2003, 0x4003, 0x8003, 0x10003]
ML_BITS = [0] * 32 + [1, 1, 1, 1, 2, 2, 3, 3, 4, 4, 5, 7, 8, 9, 10, 11, 12, 13, 14, 15, 16]
LL_DEFAULT = [4, 3, 2, 2, 2, 2, 2, 2, 2, 2, 2, 2, 2, 1, 1, 1, 2, 2, 2, 2, 2, 2, 2, 2, 2, 3, 2, 1, 1, 1, 1, 1, -1, -1, -1, -1]
ML_DEFAULT = [1, 4, 3, 2, 2, 2, 2, 2, 2, 1, 1, 1, 1, 1, 1, 1, 1, 1, 1, 1, 1, 1, 1, 1, 1, 1, 1, 1, 1, 1, 1, 1, 1, 1, 1, 1, 1, 1, 1, 1, 1, 1, 1, 1, 1, 1,
              -1, -1, -1, -1, -1, -1, -1]
OF_DEFAULT = [1, 1, 1, 1, 1, 1, 2, 2, 2, 1, 1, 1, 1, 1, 1, 1, 1, 1, 1, 1, 1, 1, 1, 1, -1, -1, -1, -1, -1]


def ll_code(v):
    c = 0
    for i, b in enumerate(LL_BASE):
        if b <= v:
            c = i
    return c


def ml_code(v):
    c = 0
    for i, b in enumerate(ML_BASE):
        if b <= v:
            c = i
    return c


class BitW:
    """bitstream written forward, read backward (final 1 marker)"""

    def __init__(self):
        self.acc = 0
        self.n = 0

    def add(self, v, nb):
        assert 0 <= v < (1 << nb) or nb == 0 and v == 0, (v, nb)
        self.acc |= v << self.n
        self.n += nb

    def close(self, pad_marker=True):
        if pad_marker:
            self.add(1, 1)
        return self.acc.to_bytes((self.n + 7) // 8, "little")


# ---------------------------------------------------------------- FSE
def fse_dtable(norm, log):
    """decoding table [(symbol, nbBits, baseline)] of a normalised distribution (-1 = 'less than 1')"""
    size = 1 << log
    assert sum(abs(c) for c in norm) == size, (sum(abs(c) for c in norm), size)
    tab = [None] * size
    high = size - 1
    for s, c in enumerate(norm):
        if c == -1:
            tab[high] = s
            high -= 1
    pos = 0
    step = (size >> 1) + (size >> 3) + 3
    for s, c in enumerate(norm):
        for _ in range(max(c, 0)):
            tab[pos] = s
            pos = (pos + step) & (size - 1)
            while pos > high:
                pos = (pos + step) & (size - 1)
    assert pos == 0
    nxt = [1 if c == -1 else c for c in norm]
    res = []
    for st in range(size):
        s = tab[st]
        x = nxt[s]
        nxt[s] += 1
        nb = log - (x.bit_length() - 1)
        res.append((s, nb, (x << nb) - size))
    return res


def rle_dtable(sym):
    return [(sym, 0, 0)]


def cells_by_symbol(dt):
    d = {}
    for st, (s, nb, bl) in enumerate(dt):
        d.setdefault(s, []).append((st, nb, bl))
    return d


def fse_prev_state(cells, sym, nxt):
    """cell of `sym` whose interval contains the state `nxt` -> (state, nbBits, value to write)"""
    for st, nb, bl in cells[sym]:
        if bl <= nxt < bl + (1 << nb):
            return st, nb, nxt - bl
    raise ValueError("symbol %d absent from the table" % sym)


def write_ncount(norm, log, rng=None):
    """FSE table description (forward bitstream).  With rng: zero runs are sometimes cut into several shorter runs (each zero
    probability may carry its own repeat flag: same meaning, never written by FSE_writeNCount) and the unused bits of the last
    byte are set"""
    acc, n = log - 5, 4
    size = 1 << log
    remaining, threshold, nbits = size + 1, size, log + 1
    sym, prev0 = 0, False
    alpha = len(norm)
    while sym < alpha and remaining > 1:
        if prev0:
            start = sym
            while sym < alpha and norm[sym] == 0:
                sym += 1
            if sym == alpha:
                break
            if rng is not None and sym > start and rng.random() < 0.5:
                sym = start + rng.randrange(0, sym - start)      # stop the run early: the next symbol is again a zero probability
            while sym >= start + 24:
                start += 24
                acc |= 0xFFFF << n
                n += 16
            while sym >= start + 3:
                start += 3
                acc |= 3 << n
                n += 2
            acc |= (sym - start) << n
            n += 2
        count = norm[sym]
        sym += 1
        mx = (2 * threshold - 1) - remaining
        remaining -= abs(count)
        count += 1
        if count >= threshold:
            count += mx
        acc |= count << n
        n += nbits - (1 if count < mx else 0)
        prev0 = count == 1
        assert remaining >= 1
        while remaining < threshold:
            nbits -= 1
            threshold >>= 1
    assert remaining == 1, "distribution does not sum to the table size"
    if rng is not None and n % 8 and rng.random() < 0.5:
        pad = 8 - n % 8
        acc |= rng.randrange(1 << pad) << n
        n += pad
    return acc.to_bytes((n + 7) // 8, "little")


def normalise(rng, syms, log, low=0.0, alphabet=None):
    """a random normalised distribution over the symbols `syms` (all present), summing to 1<<log; `low` = probability that a symbol gets -1"""
    syms = sorted(set(syms))
    size = 1 << log
    assert len(syms) <= size
    cnt = {s: 1 for s in syms}
    lows = set()
    for s in syms:
        if rng.random() < low:
            lows.add(s)
    rest = size - len(syms)
    big = [s for s in syms if s not in lows]
    if not big:
        lows.discard(syms[0])
        big = [syms[0]]
    while rest > 0:
        s = rng.choice(big)
        k = rng.randint(1, max(1, rest // 2)) if rng.random() < 0.5 else 1
        cnt[s] += k
        rest -= k
    n = max(syms) + 1 if alphabet is None else alphabet
    return [(-1 if s in lows else cnt[s]) if s in cnt else 0 for s in range(n)]


# ---------------------------------------------------------------- Huffman
def huf_complete_weights(rng, nsym_present, maxbits, symbols=None):
    """random weights (dict symbol -> weight>=1) of a COMPLETE prefix code with longest code exactly maxbits"""
    # start from 2 leaves of depth 1, split leaves until nsym reached, keeping max depth <= maxbits; force one path to maxbits
    leaves = [1, 1]
    while len(leaves) < nsym_present:
        cands = [i for i, d in enumerate(leaves) if d < maxbits]
        if not cands:
            break
        deep = [i for i in cands if leaves[i] == max(leaves[j] for j in cands)]
        i = rng.choice(deep) if (max(leaves) < maxbits and rng.random() < 0.6) else rng.choice(cands)
        d = leaves.pop(i)
        leaves += [d + 1, d + 1]
    while max(leaves) < maxbits and len(leaves) < 256:
        i = leaves.index(max(leaves))
        d = leaves.pop(i)
        leaves += [d + 1, d + 1]
    mb = max(leaves)
    if symbols is None:
        symbols = rng.sample(range(256), len(leaves))
    rng.shuffle(leaves)
    return {s: mb + 1 - d for s, d in zip(symbols, leaves)}, mb


def huf_codes(weights):
    """weights: dict sym -> weight (>=1).  -> (maxbits, {sym: (code, nbBits)}) per the specified canonical assignment"""
    total = sum(1 << (w - 1) for w in weights.values())
    maxbits = total.bit_length() - 1
    assert total == 1 << maxbits, "weights do not fill a power of two"
    codes = {}
    idx = 0
    for w in range(1, maxbits + 2):
        for s in sorted(weights):
            if weights[s] == w:
                nb = maxbits + 1 - w
                codes[s] = (idx >> (w - 1), nb)
                idx += 1 << (w - 1)
    assert idx == total
    return maxbits, codes


def huf_stream(codes, data):
    bw = BitW()
    for b in reversed(data):
        c, nb = codes[b]
        bw.add(c, nb)
    return bw.close()


def huf_tree_desc(weights, mode="auto", rng=None, wlog=6, wnorm=None, free=False):
    """Huffman_Tree_Description: the weight of the LAST present symbol is implied.  mode: direct | fse | auto"""
    last = max(weights)
    wl = [weights.get(s, 0) for s in range(last)]        # all but the last symbol
    if mode == "auto":
        mode = "direct" if len(wl) <= 128 else "fse"
    if mode == "direct":
        assert 1 <= len(wl) <= 128
        out = bytearray([127 + len(wl)])
        for i in range(0, len(wl), 2):
            out.append((wl[i] << 4) | (wl[i + 1] if i + 1 < len(wl) else (rng.randrange(16) if (rng is not None and free) else 0)))
        return bytes(out)
    # FSE-compressed weights, two interleaved states
    assert len(wl) >= 2
    present = sorted(set(wl))
    if wnorm is None:
        import random as _r
        rng = rng or _r.Random(1)
        # proportional normalisation so that the description stays below 128 bytes
        cnts = {w: wl.count(w) for w in present}
        log = wlog
        size = 1 << log
        norm = {w: max(1, cnts[w] * size // len(wl)) for w in present}
        while sum(norm.values()) > size:
            w = max(norm, key=lambda k: norm[k])
            norm[w] -= 1
        while sum(norm.values()) < size:
            w = max(cnts, key=lambda k: cnts[k] / norm[k])
            norm[w] += 1
        wnorm = [norm.get(w, 0) for w in range(max(present) + 1)]
    else:
        log = (sum(abs(c) for c in wnorm)).bit_length() - 1
    dt = fse_dtable(wnorm, log)
    cells = cells_by_symbol(dt)
    n = len(wl)
    # states s_i emitting wl[i]; s_i (i>=2) reached from s_{i-2}
    st = [None] * n
    bits = [None] * n       # bits[i] = (value, nb) read when leaving s_i (defined for i <= n-3)

    def pick_last(sym, need_bits):
        cs = cells[sym]
        cs2 = [c for c in cs if c[1] > 0] if need_bits else cs
        if not cs2:
            raise ValueError("no terminating state for weight %d" % sym)
        return cs2[0][0]
    st[n - 2] = pick_last(wl[n - 2], True)
    st[n - 1] = pick_last(wl[n - 1], False)
    for i in range(n - 3, -1, -1):
        s, nb, v = fse_prev_state(cells, wl[i], st[i + 2])
        st[i] = s
        bits[i] = (v, nb)
    bw = BitW()
    for i in range(n - 3, -1, -1):
        bw.add(*bits[i])
    bw.add(st[1], log)
    bw.add(st[0], log)
    body = write_ncount(wnorm, log, rng if free else None) + bw.close()
    assert len(body) < 128, "FSE-compressed weights too long (%d)" % len(body)
    return bytes([len(body)]) + body


def literals_section(mode, lits, size_format=None, weights=None, codes=None, tree_mode="auto", streams=None, rng=None, wnorm=None, free=False):
    """mode: raw | rle | huf | treeless.  size_format None = smallest that fits.  streams 1|4 for huf/treeless."""
    n = len(lits)
    if mode in ("raw", "rle"):
        t = 0 if mode == "raw" else 1
        if mode == "rle":
            assert n >= 1 and len(set(lits)) == 1
        if size_format is None and free and rng is not None:
            size_format = rng.choice([f for f, lim in ((0, 32), (1, 4096), (3, 1 << 20)) if n < lim])
        if size_format is None:
            size_format = 0 if n < 32 else 1 if n < 4096 else 3
        if size_format in (0, 2):       # one-bit format field: what looks like format 2 is the low bit of the 5-bit size
            assert n < 32
            hdr = bytes([t | (n << 3)])
        elif size_format == 1:
            assert n < 4096
            hdr = (t | (1 << 2) | (n << 4)).to_bytes(2, "little")
        else:
            assert n < (1 << 20)
            hdr = (t | (3 << 2) | (n << 4)).to_bytes(3, "little")
        return hdr + (bytes(lits) if mode == "raw" else bytes(lits[:1]))
    t = 2 if mode == "huf" else 3
    if codes is None:
        _, codes = huf_codes(weights)
    desc = huf_tree_desc(weights, tree_mode, rng, wnorm=wnorm, free=free) if mode == "huf" else b""
    if streams is None:
        streams = 1 if (size_format == 0 or (size_format is None and n < 256)) else 4
    if streams == 1:
        body = huf_stream(codes, lits)
    else:
        seg = (n + 3) // 4
        parts = [huf_stream(codes, lits[i * seg:(i + 1) * seg]) for i in range(3)] + [huf_stream(codes, lits[3 * seg:])]
        assert all(len(p) < 65536 for p in parts)
        body = b"".join(len(p).to_bytes(2, "little") for p in parts[:3]) + b"".join(parts)
    csz = len(desc) + len(body)
    if size_format is None and free and rng is not None and streams == 4:
        size_format = rng.choice([f for f, lim in ((1, 1024), (2, 16384), (3, 1 << 18)) if max(n, csz) < lim])
    if size_format is None:
        size_format = 0 if streams == 1 else (1 if max(n, csz) < 1024 else 2 if max(n, csz) < 16384 else 3)
    assert (size_format == 0) == (streams == 1)
    if size_format in (0, 1):
        assert n < 1024 and csz < 1024, (n, csz)
        hdr = (t | (size_format << 2) | (n << 4) | (csz << 14)).to_bytes(3, "little")
    elif size_format == 2:
        assert n < 16384 and csz < 16384
        hdr = (t | (2 << 2) | (n << 4) | (csz << 18)).to_bytes(4, "little")
    else:
        assert n < (1 << 18) and csz < (1 << 18)
        hdr = (t | (3 << 2) | (n << 4) | (csz << 22)).to_bytes(5, "little")
    return hdr + desc + body


# ---------------------------------------------------------------- sequences
def nbseq_bytes(n, form=None):
    if form is None:
        form = 1 if n < 128 else 2 if n < 0x7F00 else 3
    if form == 1:
        assert n < 128
        return bytes([n])
    if form == 2:
        assert n < 0x7F00
        return bytes([0x80 + (n >> 8), n & 255])
    assert 0x7F00 <= n <= 0x7F00 + 0xFFFF
    return bytes([0xFF]) + (n - 0x7F00).to_bytes(2, "little")


class Tbl:
    """a sequence-symbol table choice: mode in predefined | rle | fse | repeat ; dt = decoding table in force"""

    def __init__(self, mode, dt, desc=b"", log=0):
        self.mode, self.dt, self.desc, self.log = mode, dt, desc, log

    @staticmethod
    def predefined(kind):
        norm, log = {"ll": (LL_DEFAULT, 6), "ml": (ML_DEFAULT, 6), "of": (OF_DEFAULT, 5)}[kind]
        return Tbl("predefined", fse_dtable(norm, log), b"", log)

    @staticmethod
    def rle(sym):
        return Tbl("rle", rle_dtable(sym), bytes([sym]), 0)

    @staticmethod
    def fse(norm, log, rng=None):
        return Tbl("fse", fse_dtable(norm, log), write_ncount(norm, log, rng), log)

    def repeat(self):
        return Tbl("repeat", self.dt, b"", self.log)


MODE_ID = {"predefined": 0, "rle": 1, "fse": 2, "repeat": 3}


def seq_codes(seqs):
    """seqs: [(ll, ml, offset_value)] -> [(llc, llx, mlc, mlx, ofc, ofx)]"""
    res = []
    for ll, ml, ofv in seqs:
        lc, mc, oc = ll_code(ll), ml_code(ml), ofv.bit_length() - 1
        res.append((lc, ll - LL_BASE[lc], mc, ml - ML_BASE[mc], oc, ofv - (1 << oc)))
    return res


def sequences_section(seqs, tll, tof, tml, nbseq_form=None, last_state_choice=0):
    n = len(seqs)
    out = bytearray(nbseq_bytes(n, nbseq_form))
    if n == 0:
        return bytes(out)
    out.append((MODE_ID[tll.mode] << 6) | (MODE_ID[tof.mode] << 4) | (MODE_ID[tml.mode] << 2))
    out += tll.desc + tof.desc + tml.desc
    cs = seq_codes(seqs)
    cll, cof, cml = cells_by_symbol(tll.dt), cells_by_symbol(tof.dt), cells_by_symbol(tml.dt)

    def last(cells, sym):
        if sym not in cells:
            raise ValueError("code %d absent from the table" % sym)
        c = cells[sym]
        return c[last_state_choice % len(c)][0]
    bw = BitW()
    lc, lx, mc, mx, oc, ox = cs[-1]
    sll, sof, sml = last(cll, lc), last(cof, oc), last(cml, mc)
    bw.add(lx, LL_BITS[lc])
    bw.add(mx, ML_BITS[mc])
    bw.add(ox, oc)
    for i in range(n - 2, -1, -1):
        lc, lx, mc, mx, oc, ox = cs[i]
        # updates are read LL, ML, OF -> written OF, ML, LL
        sof, nb, v = fse_prev_state(cof, oc, sof)
        bw.add(v, nb)
        sml, nb, v = fse_prev_state(cml, mc, sml)
        bw.add(v, nb)
        sll, nb, v = fse_prev_state(cll, lc, sll)
        bw.add(v, nb)
        bw.add(lx, LL_BITS[lc])
        bw.add(mx, ML_BITS[mc])
        bw.add(ox, oc)
    bw.add(sml, tml.log)
    bw.add(sof, tof.log)
    bw.add(sll, tll.log)
    out += bw.close()
    return bytes(out)


# ---------------------------------------------------------------- blocks / frames
def block(btype, payload, last=False, rle_size=None):
    """btype 0 raw 1 rle 2 compressed"""
    size = rle_size if btype == 1 else len(payload)
    assert size < (1 << 21)
    return ((1 if last else 0) | (btype << 1) | (size << 3)).to_bytes(3, "little") + payload


def window_byte(window):
    """window descriptor byte for an exactly representable window size, or None"""
    for e in range(0, 32):
        base = 1 << (10 + e)
        for m in range(8):
            if base + (base >> 3) * m == window:
                return (e << 3) | m
    return None


def frame_header(window=None, fcs=None, fcs_bytes=None, single=False, checksum=False, dict_id=0, did_bytes=None, unused_bit=0, wbyte=None):
    """fcs_bytes in (0,1,2,4,8) forces the field width (1 only with single segment)"""
    if did_bytes is None:
        did_bytes = 0 if dict_id == 0 else 1 if dict_id < 256 else 2 if dict_id < 65536 else 4
    if fcs is None:
        fcs_bytes = 0
        assert not single
    elif fcs_bytes is None:
        fcs_bytes = (1 if fcs < 256 else 2 if fcs < 65536 + 256 else 4 if fcs < (1 << 32) else 8) if single else (2 if 256 <= fcs < 65536 + 256 else 4 if fcs < (1 << 32) else 8)
    if fcs_bytes == 1:
        assert single
    if fcs_bytes == 0:
        assert not single
    flag = {0: 0, 1: 0, 2: 1, 4: 2, 8: 3}[fcs_bytes]
    desc = (flag << 6) | ((1 if single else 0) << 5) | (unused_bit << 4) | ((1 if checksum else 0) << 2) | {0: 0, 1: 1, 2: 2, 4: 3}[did_bytes]
    out = bytearray(b"\x28\xb5\x2f\xfd")
    out.append(desc)
    if not single:
        out.append(window_byte(window) if wbyte is None else wbyte)
    out += dict_id.to_bytes(did_bytes, "little")
    if fcs_bytes:
        out += (fcs - 256 if fcs_bytes == 2 else fcs).to_bytes(fcs_bytes, "little")
    return bytes(out)


_P1, _P2, _P3, _P4, _P5 = 11400714785074694791, 14029467366897019727, 1609587929392839161, 9650029242287828579, 2870177450012600261
_M = (1 << 64) - 1


def xxh64(data, seed=0):
    def rotl(x, r):
        return ((x << r) | (x >> (64 - r))) & _M

    def rnd(acc, inp):
        return (rotl((acc + inp * _P2) & _M, 31) * _P1) & _M

    def merge(h, v):
        return ((h ^ rnd(0, v)) * _P1 + _P4) & _M
    n = len(data)
    p = 0
    if n >= 32:
        v1, v2, v3, v4 = (seed + _P1 + _P2) & _M, (seed + _P2) & _M, seed, (seed - _P1) & _M
        while p + 32 <= n:
            v1 = rnd(v1, int.from_bytes(data[p:p + 8], "little"))
            v2 = rnd(v2, int.from_bytes(data[p + 8:p + 16], "little"))
            v3 = rnd(v3, int.from_bytes(data[p + 16:p + 24], "little"))
            v4 = rnd(v4, int.from_bytes(data[p + 24:p + 32], "little"))
            p += 32
        h = (rotl(v1, 1) + rotl(v2, 7) + rotl(v3, 12) + rotl(v4, 18)) & _M
        for v in (v1, v2, v3, v4):
            h = merge(h, v)
    else:
        h = (seed + _P5) & _M
    h = (h + n) & _M
    while p + 8 <= n:
        h ^= rnd(0, int.from_bytes(data[p:p + 8], "little"))
        h = (rotl(h, 27) * _P1 + _P4) & _M
        p += 8
    if p + 4 <= n:
        h ^= (int.from_bytes(data[p:p + 4], "little") * _P1) & _M
        h = (rotl(h, 23) * _P2 + _P3) & _M
        p += 4
    while p < n:
        h ^= (data[p] * _P5) & _M
        h = (rotl(h, 11) * _P1) & _M
        p += 1
    h ^= h >> 33
    h = (h * _P2) & _M
    h ^= h >> 29
    h = (h * _P3) & _M
    h ^= h >> 32
    return h


class Exec:
    """independent executor of sequences (what the blocks regenerate), with the repeat-offset rules of the specification"""

    def __init__(self, history=b"", reps=(1, 4, 8)):
        self.out = bytearray(history)
        self.base = len(history)
        self.reps = list(reps)

    def run_block(self, lits, seqs):
        """seqs [(ll, ml, offset_value)] ; returns False when a sequence is invalid (offset 0 / beyond the data / literals short)"""
        lp = 0
        for ll, ml, ofv in seqs:
            if lp + ll > len(lits):
                return False
            self.out += lits[lp:lp + ll]
            lp += ll
            r = self.reps
            if ofv > 3:
                off = ofv - 3
                self.reps = [off, r[0], r[1]]
            else:
                idx = ofv - 1 + (1 if ll == 0 else 0)
                if idx == 0:
                    off = r[0]
                elif idx == 1:
                    off = r[1]
                    self.reps = [off, r[0], r[2]]
                elif idx == 2:
                    off = r[2]
                    self.reps = [off, r[0], r[1]]
                else:
                    off = r[0] - 1
                    if off == 0:
                        return False
                    self.reps = [off, r[0], r[1]]
            if off > len(self.out):
                return False
            if off >= ml:
                st = len(self.out) - off
                self.out += self.out[st:st + ml]
            else:
                for _ in range(ml):
                    self.out.append(self.out[-off])
        self.out += lits[lp:]
        return True

    def content(self):
        return bytes(self.out[self.base:])


def make_dict(dict_id, weights, of_norm, of_log, ml_norm, ml_log, ll_norm, ll_log, reps, content, tree_mode="auto", rng=None):
    """a formatted dictionary: magic, id, Huffman tree description, offset / match-length / literal-length table descriptions,
    three repeat offsets, content"""
    out = bytearray(b"\x37\xa4\x30\xec")
    out += dict_id.to_bytes(4, "little")
    out += huf_tree_desc(weights, tree_mode, rng)
    out += write_ncount(of_norm, of_log) + write_ncount(ml_norm, ml_log) + write_ncount(ll_norm, ll_log)
    for r in reps:
        out += r.to_bytes(4, "little")
    return bytes(out) + bytes(content)
