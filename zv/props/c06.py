"""C06 - capacity discipline; ZSTD_compressBound; frame inspectors.

Decision: Coq theorems (coq/Props/Properties_C06.v) about the executable models coq/Mem/CompressBound.v and
coq/Codec/FrameInspect.v, tied to the current /repo by
  (T) constants regenerated into coq/Gen (theorems re-checked against them),
  (C) value / behaviour correspondence of the extracted models with the real functions
      (ZSTD_compressBound, ZSTD_COMPRESSBOUND, ZSTD_optimalBlockSize, ZSTD_DECOMPRESSION_MARGIN, the frame writer on
      incompressible data, cctx->blockSize, every frame inspector on valid / truncated / damaged multi-frame input),
  (V) per-run validation of the hypotheses the theorems leave open (raw-fallback contract of the block compressor,
      non-expanding blocks, pre-splitter range),
and supported (not replaced) by the direct oracle: a two-dimensional input x capacity sweep of the real entry
points under PROT_NONE fences (harness/c06_sweep.c)."""
import json
import os
import random
import re
import subprocess
from concurrent.futures import ThreadPoolExecutor

from zv import core

PID = "C06"
ENTRY_FRAME_MODEL = ("compress", "compress2", "stream2end", "dict")   # entries that go through ZSTD_compressEnd_public
MT_JOBSIZE = 512 << 10
KB128 = 128 << 10


# ---------------------------------------------------------------------------------------------------------
def hx(v):
    return "%x" % v if v >= 0 else "-%x" % (-v)


class Model:
    """The extracted model, one batch of case lines per call."""

    def __init__(self):
        self.exe = core.build_extracted("c06model", "Extract/Extract_C06.v", "c06_driver.ml")

    def run(self, lines, timeout=600):
        if not lines:
            return []
        rc, out, err = core.sh([self.exe], inp=("\n".join(lines) + "\n").encode(), timeout=timeout)
        if rc != 0:
            raise RuntimeError("model driver failed rc=%d %s" % (rc, err[-500:]))
        res = out.split("\n")
        if res and res[-1] == "":
            res.pop()
        if len(res) != len(lines):
            raise RuntimeError("model driver returned %d lines for %d cases" % (len(res), len(lines)))
        return res


def parse_res(s):
    """'R OK w left' / 'R SMALL' -> ('OK', w, left) | ('SMALL',) | ('FUEL',)"""
    f = s.split()
    if f[1] == "OK":
        return ("OK", int(f[2], 16), int(f[3], 16))
    return (f[1],)


# ---------------------------------------------------------------------------------------------------------
# (1) value correspondence: ZSTD_compressBound / ZSTD_COMPRESSBOUND / ZSTD_optimalBlockSize / margin macro

def bound_inputs(ctx, rng):
    ns = set()
    top = (1 << 20) if ctx.quick else (1 << 22)
    for m in (256, 2048, KB128):
        k = 0
        while k * m <= top + m:
            for d in (-2, -1, 0, 1, 2):
                if k * m + d >= 0:
                    ns.add(k * m + d)
            # every multiple of 256 is a lot of points below 2^20: all of them in thorough, every 7th in quick
            k += 1 if (not ctx.quick or m != 256) else 7
    ns.update(range(0, 4200))
    ns.update(range(KB128 - 2100, KB128 + 2100))
    maxin = 0xFF00FF00FF00FF00
    for d in range(-3, 4):
        ns.add(maxin + d)
    ns.update([(1 << 64) - 1, (1 << 64) - 2, (1 << 63), (1 << 63) - 1, (1 << 32), (1 << 32) - 1, (1 << 32) + 1, (1 << 31)])
    for _ in range(3000 if ctx.quick else 30000):
        b = rng.randrange(1, 65)
        ns.add(rng.getrandbits(b))
    for _ in range(400):
        ns.add(maxin - rng.randrange(1 << rng.randrange(1, 40)))
    return sorted(n for n in ns if 0 <= n < (1 << 64))


def tie_values(ctx, model, tie_exe, rng):
    problems = []
    # --- bound
    ns = bound_inputs(ctx, rng)
    rc, out, err = core.sh([tie_exe, "bound"], inp=("\n".join(hx(n) for n in ns) + "\n").encode(), timeout=300)
    if rc != 0:
        raise RuntimeError("c06_tie bound failed: " + err[-300:])
    real = [l for l in out.split("\n") if l]
    mod = model.run(["B " + hx(n) for n in ns])
    nmis = 0
    for n, r, m in zip(ns, real, mod):
        region = "maxinput" if n >= 0xFF00FF00FF00FF00 - 8 else "lt128k" if n < KB128 else "ge128k"
        ctx.count(("bound", region, n.bit_length()), nontrivial=True)
        rf = r.split()
        if rf[2] != rf[3] and not (rf[2] == "0" and rf[3] == "ERR"):
            problems.append(dict(kind="bound-macro-vs-function", n=n, macro=rf[2], function=rf[3]))
        if r != m:
            nmis += 1
            if nmis <= 5:
                problems.append(dict(kind="bound-value", n=n, real=r, model=m))
    ctx.cov["traces_validated_against_impl"] += len(ns)
    ctx.notes["bound_values_compared"] = len(ns)
    if ns:
        ctx.sample(dict(family="bound", n=ns[len(ns) // 2], real=real[len(ns) // 2], model=mod[len(ns) // 2]))
    # --- optimal block size
    cases = []
    for _ in range(250 if ctx.quick else 1500):
        r = rng.random()
        if r < 0.3:
            src = rng.choice([1, 5, 1023, 1024, 4096, KB128 - 1, KB128, KB128 + 1, 2 * KB128, 3 * KB128 + 7, 1 << 30, 1 << 40])
        elif r < 0.6:
            src = rng.randrange(1, 4 * KB128)
        else:
            src = KB128 + rng.randrange(0, 1 << rng.randrange(1, 34))
        bs = rng.choice([1024, 1025, 4096, 65536, KB128 - 1, KB128, KB128, KB128])
        sav = rng.choice([-(1 << 40), -100, -1, 0, 1, 2, 3, 4, 5, 100, 1 << 20, 1 << 40, rng.randrange(-10, 10)])
        strat = rng.randrange(1, 10)
        cases.append((src, bs, sav, strat, rng.randrange(1, 1000)))
    rc, out, err = core.sh([tie_exe, "optbs"], inp=("\n".join("%x %x %d %d %d" % c for c in cases) + "\n").encode(), timeout=300)
    if rc != 0:
        raise RuntimeError("c06_tie optbs failed: " + err[-300:])
    real = [l.split() for l in out.split("\n") if l]
    mod = model.run(["O %s %s %s %s" % (hx(c[0]), hx(c[1]), hx(c[2]), r[2]) for c, r in zip(cases, real)])
    split_hist = {}
    for c, r, m in zip(cases, real, mod):
        full = c[0] >= KB128 and c[1] >= KB128
        branch = "tail" if not full else "forced" if c[2] < 3 else "split"
        ctx.count(("optbs", branch, c[3] >= 7, c[3] >= 5), nontrivial=True)
        sp = int(r[2], 16)
        if branch == "split":
            split_hist[sp >> 10] = split_hist.get(sp >> 10, 0) + 1
            # the range contract of the pre-splitter (hypothesis split_contract of the theorems)
            if not (0 < sp <= KB128):
                problems.append(dict(kind="split-contract", case=c, split=sp))
        if m.split()[1] != r[1]:
            problems.append(dict(kind="optimal-block-size", case=c, real=r[1], model=m.split()[1]))
    ctx.cov["traces_validated_against_impl"] += len(cases)
    ctx.notes["presplit_answers_KiB"] = {str(k): v for k, v in sorted(split_hist.items())}
    # --- ZSTD_DECOMPRESSION_MARGIN macro
    mc = [(rng.randrange(0, 1 << rng.randrange(1, 34)), rng.choice([1024, 2048, 1 << 15, KB128, rng.randrange(1, KB128 + 1)])) for _ in range(200)]
    mc += [(0, KB128), (1, KB128), (KB128, KB128), (KB128 + 1, KB128), (5, 1)]
    rc, out, err = core.sh([tie_exe, "margin"], inp=("\n".join("%x %x" % c for c in mc) + "\n").encode(), timeout=60)
    real = [l for l in out.split("\n") if l]
    mod = model.run(["M %x %x" % c for c in mc])
    for c, r, m in zip(mc, real, mod):
        ctx.count(("margin-macro", c[0] == 0, c[1] == KB128), nontrivial=True)
        if r != m:
            problems.append(dict(kind="margin-macro", case=c, real=r, model=m))
    return problems


# ---------------------------------------------------------------------------------------------------------
# (2) capacity sweep

CASE_RE = re.compile(r"(\w+)=(\S+)")


def run_shards(exe, mode, seed, tier, nshards, timeout):
    def one(s):
        p = subprocess.run([exe, mode, str(seed), str(tier), str(s), str(nshards)], stdout=subprocess.PIPE,
                           stderr=subprocess.PIPE, timeout=timeout)
        return p.returncode, p.stdout.decode("utf-8", "replace"), p.stderr.decode("utf-8", "replace")
    with ThreadPoolExecutor(max_workers=nshards) as ex:
        return list(ex.map(one, range(nshards)))


_nm_cache = {}


def resolve_bt(exe, bt):
    """offsets relative to main -> function names (first few frames inside zstd)"""
    try:
        if exe not in _nm_cache:
            rc, out, _ = core.sh("nm %s | grep ' T main$'" % exe)
            _nm_cache[exe] = int(out.split()[0], 16)
        base = _nm_cache[exe]
        addrs = ["0x%x" % (base + int(x)) for x in bt.split(",") if abs(int(x)) < (1 << 30)]
        rc, out, _ = core.sh(["addr2line", "-f", "-e", exe] + addrs)
        names = [l for l in out.split("\n")[0::2] if l and l != "??"]
        return [n for n in names if n not in ("on_fault",)][:6]
    except Exception:
        return []


def replay_args(desc):
    """'one 1 100010 185503 1 4 0 0 16 0 2136 1 0 0 0 CAP 94 0 ...' -> argv list for c06_sweep"""
    f = desc.split()
    if not f:
        return None
    if f[0] == "frames":
        return f[:5]
    if f[0] == "stream1":
        return f[:10]
    if f[0] != "one":
        return None
    if len(f) > 18 and f[18] in ("DECODE", "TRUNC", "DAMAGE", "INPLACE", "BUFLESS"):
        return f[:20]
    return f[:18]


def report_direct(ctx, exe, bads, faults, family):
    """direct oracle results (concrete failing inputs): one violation per (kind, site, entry)"""
    seen = {}
    for l in faults:
        m = re.match(r"FAULT sig=(\d+) addr=(\S+) bt=(\S*) :: (.*)", l)
        desc = m.group(4) if m else l
        fn = resolve_bt(exe, m.group(3)) if m else []
        where = next((n for n in fn if n.startswith(("ZSTD_", "HUF_", "FSE_", "BIT_", "MEM_", "XXH"))), fn[0] if fn else "?")
        key = ("fault", where, desc.split()[4] if len(desc.split()) > 4 else "")
        if key in seen:
            seen[key]["count"] += 1
            continue
        seen[key] = dict(kind="memory-fault-at-fence", where=fn, desc=desc, count=1, argv=replay_args(desc))
    for l in bads:
        m = re.match(r"BAD (\S+) cap=(\d+) ret=(\d+)\((.*?)\) :: (.*)", l)
        if not m:
            continue
        what, cap, ret, msg, desc = m.groups()
        key = ("bad", what, desc.split()[4] if len(desc.split()) > 4 else "")
        if key in seen:
            seen[key]["count"] += 1
            continue
        seen[key] = dict(kind=what, cap=int(cap), ret=int(ret), msg=msg, desc=desc, count=1, argv=replay_args(desc))
    for key, v in seen.items():
        ctx.violation(dict(family=family, harness="c06_sweep", **v),
                      what="capacity discipline violated on the real code: %s (%s) x%d :: %s" %
                           (v["kind"], ",".join(v.get("where", [])[:3]) if v.get("where") else v.get("msg", ""), v["count"], v["desc"][:160]))



def sweep(ctx, model, exe, problems):
    tier = 0 if ctx.quick else 1
    nsh = min(16, core.NCPU)
    res = run_shards(exe, "sweep", ctx.seed, tier, nsh, timeout=2400)
    cases, bads, faults = [], [], []
    for rc, out, err in res:
        if rc != 0:
            problems.append(dict(kind="sweep-harness-exit", rc=rc, err=err[-300:]))
        for l in out.split("\n"):
            if l.startswith("CASE "):
                d = dict(CASE_RE.findall(l))
                cases.append(d)
            elif l.startswith("BAD "):
                bads.append(l)
            elif l.startswith("FAULT "):
                faults.append(l)
            elif l.startswith("ABANDON") and "FAULT " not in out:
                problems.append(dict(kind="sweep-case-abandoned", line=l))
    report_direct(ctx, exe, bads, faults, "capacity-sweep")

    # ---- model comparison + hypothesis validation
    lines, idx = [], []
    for ci, d in enumerate(cases):
        n, hs, bs, chk = int(d["n"]), int(d["hs"]), int(d["bsmax"]), d["fchk"]
        blocks = [] if d["blocks"] == "-" else [tuple(int(x) for x in b.split(":")) for b in d["blocks"].split(",")]
        d["_blocks"] = blocks
        minok = int(d["minok"])
        allraw = all(b[0] == 0 for b in blocks) and len(blocks) > 0
        d["_allraw"] = allraw
        if d["entry"] in ENTRY_FRAME_MODEL:
            lines.append("S %s %s %s %s" % (hx(n), hx(max(bs, 1)), hx(hs), chk)); idx.append((ci, "suff"))
            if allraw and minok >= 0:
                lines.append("R %s %s %s %s %s" % (hx(n), hx(max(bs, 1)), hx(hs), chk, hx(minok))); idx.append((ci, "at"))
                if minok > 0:
                    lines.append("R %s %s %s %s %s" % (hx(n), hx(max(bs, 1)), hx(hs), chk, hx(minok - 1))); idx.append((ci, "below"))
        if d["entry"] == "mt" and allraw:
            lines.append("J %s %s %s %s %s %s" % (hx(n), hx(MT_JOBSIZE), hx(KB128), hx(KB128), hx(hs), chk)); idx.append((ci, "mt"))
        # cctx->blockSize (ZSTD_resetCCtx_internal)
        lines.append("K %s %s %s" % (hx(int(d["maxbs"])), hx(int(d["applied_wlog"])), hx(n))); idx.append((ci, "bs"))
    outs = model.run(lines)
    for (ci, what), o in zip(idx, outs):
        cases[ci]["_" + what] = o
    stats = dict(exact_threshold=0, real_more_permissive=0, chunks_validated=0, wire_blocks=0, nonmonotone_cases=0, mt_frames_exact=0)
    hist_kind, hist_entry, hist_n = {}, {}, {}
    for d in cases:
        n, hs, bs, bound, csize = int(d["n"]), int(d["hs"]), int(d["bsmax"]), int(d["bound"]), int(d["csize"])
        minok, maxfail, ncaps = int(d["minok"]), int(d["maxfail"]), int(d["caps"])
        blocks = d["_blocks"]
        hist_kind[d["kind"]] = hist_kind.get(d["kind"], 0) + 1
        hist_entry[d["entry"]] = hist_entry.get(d["entry"], 0) + 1
        hb = "0" if n == 0 else "<1K" if n < 1024 else "<128K" if n < KB128 else "128K" if n == KB128 else "<=256K" if n <= 2 * KB128 else ">256K"
        hist_n[hb] = hist_n.get(hb, 0) + 1
        types = tuple(sorted(set(b[0] for b in blocks)))
        feats = (int(d["tcbs"]) != 0, d["split"], int(d["wlog"]) != 0, int(d["maxbs"]) != 0, d["fchk"], int(d["strat"]) >= 5, int(d["ldm"]))
        ctx.count(("sweep", d["kind"], d["entry"], hb, types, min(len(blocks), 9), feats), nontrivial=n > 0, n=ncaps)
        ctx.cov["traces_validated_against_impl"] += 1
        if int(d["nonmono"]):
            stats["nonmonotone_cases"] += 1
        desc = dict((k, v) for k, v in d.items() if not k.startswith("_") and k != "blocks")
        # (V1) non-expanding wire blocks (hypothesis of inplace_margin_sound; raw-fallback at wire level)
        for (t, cs, rg) in blocks:
            stats["wire_blocks"] += 1
            ok = (cs == rg) if t == 0 else (cs == 1 and rg >= 1) if t == 1 else (cs < rg) if t == 2 else False
            if not ok and not (t == 2 and rg == 0):
                problems.append(dict(kind="wire-block-expands", case=desc, block=(t, cs, rg)))
                break
        if d["entry"] in ENTRY_FRAME_MODEL:
            # (C) blockSize of the context
            if int(d["_bs"].split()[1], 16) != bs:
                problems.append(dict(kind="cctx-block-size", case=desc, model=d["_bs"], real=bs))
            # (V2) the raw-fallback contract per frame-loop chunk: chunks are cut at multiples of blockSize unless
            #      the pre-splitter may act (full 128 KiB blocks); then only the total is checked (savings_guard)
            body = sum(3 + b[1] for b in blocks)
            nb = (n + bs - 1) // bs if bs else 0
            if n > 0 and (bs < KB128 or n < KB128):
                per_chunk, pos, bad_straddle = {}, 0, False
                for (t, cs, rg) in blocks:
                    ci = (pos // bs) if rg > 0 else (max(pos - 1, 0) // bs)
                    if rg > 0 and (pos + rg - 1) // bs != ci:
                        bad_straddle = True
                    per_chunk[ci] = per_chunk.get(ci, 0) + 3 + cs
                    pos += rg
                if bad_straddle:
                    problems.append(dict(kind="wire-block-straddles-chunk", case=desc))
                for ci, emitted in per_chunk.items():
                    clen = min(bs, n - ci * bs)
                    stats["chunks_validated"] += 1
                    if emitted > 3 + clen:
                        problems.append(dict(kind="block-compressor-contract", case=desc, chunk=ci, chunk_len=clen, emitted=emitted))
                        break
            if (n > 0 and body > n + 3 * nb) or (n == 0 and body != 3):
                problems.append(dict(kind="frame-expansion-exceeds-3-per-block", case=desc, body=body, n=n, nb=nb))
            # (T) theorem-backed sufficient capacity: every tested capacity >= suff must have succeeded
            suff = int(d["_suff"].split()[1], 16)
            if maxfail >= suff:
                problems.append(dict(kind="sufficient-capacity-rejected", case=desc, suff=suff, failed_at=maxfail,
                                     argv=["one"] + replay_case_args(d) + ["CAP", str(maxfail), "0"]))
            if suff > bound:
                problems.append(dict(kind="suff-capacity-above-real-bound", case=desc, suff=suff, bound=bound))
            # (C) exact threshold of the frame writer on incompressible input
            if d["_allraw"] and minok >= 0 and "_at" in d:
                at = parse_res(d["_at"])
                below = parse_res(d["_below"]) if "_below" in d else ("SMALL",)
                if below[0] == "OK":
                    problems.append(dict(kind="frame-writer-rejects-what-model-accepts", case=desc, cap=minok - 1,
                                         argv=["one"] + replay_case_args(d) + ["CAP", str(minok - 1), "0"]))
                elif at[0] == "OK" and at[1] == csize:
                    stats["exact_threshold"] += 1
                elif at[0] == "OK" and at[1] != csize:
                    problems.append(dict(kind="frame-size-differs-from-raw-model", case=desc, model=at[1], real=csize))
                else:
                    stats["real_more_permissive"] += 1
        if "_mt" in d:
            # (C) multi-threaded frame on incompressible input: size = the model's job framing (mt_raw_frame)
            mv = d["_mt"].split()[1]
            if mv == "ERR" or int(mv, 16) != csize:
                problems.append(dict(kind="mt-frame-size-differs-from-job-model", case=desc, model=mv, real=csize))
            else:
                stats["mt_frames_exact"] += 1
        if bound and maxfail >= bound:
            pass  # already reported by the harness as bound-capacity-rejected
        ctx.sample(dict(family="sweep", **desc), maxn=6)
    ctx.notes["sweep"] = dict(cases=len(cases), by_kind=hist_kind, by_entry=hist_entry, by_size=hist_n, **stats)
    return cases


def replay_case_args(d):
    kinds = ["noise", "alt8k", "rle", "text", "sparse", "altstat"]
    entries = ["compress", "compress2", "stream2end", "sequences", "mt", "dict"]
    return [str(kinds.index(d["kind"])), d["iseed"], d["n"], str(entries.index(d["entry"])), d["level"], d["chk"], d["csf"],
            d["wlog"], d["maxbs"], d["tcbs"], d["split"], d["strat"], d["mm"], d["ldm"]]



# ---------------------------------------------------------------------------------------------------------
# (2b) multi-call streaming: every output / input buffer of every call fenced

def streaming(ctx, exe, problems):
    tier = 0 if ctx.quick else 1
    nsh = min(16, core.NCPU)
    res = run_shards(exe, "stream", ctx.seed, tier, nsh, timeout=2400)
    bads, faults, n, calls = [], [], 0, 0
    hist = {}
    for rc, out, err in res:
        if rc != 0:
            problems.append(dict(kind="stream-harness-exit", rc=rc, err=err[-300:]))
        for l in out.split("\n"):
            if l.startswith("STREAM "):
                d = dict(CASE_RE.findall(l))
                n += 1
                k = int(d["ccalls"]) + int(d["dcalls"])
                calls += k
                c = int(d["c"])
                cb = "1" if c == 1 else "<=8" if c <= 8 else "<=19" if c <= 19 else "<=4096" if c <= 4096 else "64K"
                hist[cb] = hist.get(cb, 0) + 1
                nn = int(d["n"])
                ctx.count(("stream", d["kind"], d["mt"], cb, 0 if nn == 0 else 1 if nn < 1000 else 2 if nn < 100000 else 3), nontrivial=nn > 0, n=max(k, 1))
                if d["csize"] == "-1":
                    problems.append(dict(kind="stream-case-failed", line=l))
            elif l.startswith("BAD "):
                bads.append(l)
            elif l.startswith("FAULT "):
                faults.append(l)
            elif l.startswith("ABANDON") and "FAULT " not in out:
                problems.append(dict(kind="stream-case-abandoned", line=l))
    report_direct(ctx, exe, bads, faults, "streaming")
    ctx.cov["traces_validated_against_impl"] += n
    ctx.notes["streaming"] = dict(cases=n, calls=calls, by_out_chunk=hist)

# ---------------------------------------------------------------------------------------------------------
# (3) inspectors

def inspectors(ctx, model, exe, problems):
    tier = 0 if ctx.quick else 1
    nsh = min(8, core.NCPU)
    res = run_shards(exe, "frames", ctx.seed, tier, nsh, timeout=1200)
    items = []
    for rc, out, err in res:
        if rc != 0:
            problems.append(dict(kind="frames-harness-exit", rc=rc, err=err[-300:]))
        for l in out.split("\n"):
            if l.startswith("FAULT "):
                desc = l.split(" :: ")[-1]
                mm = re.search(r"bt=(\S*)", l)
                fn = resolve_bt(exe, mm.group(1)) if mm else []
                ctx.violation(dict(family="inspector-harness", kind="memory-fault-at-fence", where=fn, desc=desc, argv=replay_args(desc)),
                              what="memory fault while inspecting / decoding frames (%s) :: %s" % (",".join(fn[:3]), desc))
                continue
            m = re.match(r"([FTDX]) (id=\S+ \S+) hex=(\S+) :: (I fhs=\S+ gfh=\S+ ffcs=\S+ dbound=\S+ margin=\S+ fds=\S+ gfcs=\S+)(.*)$", l)
            if m:
                g = list(m.groups())
                g[4] = g[4] if g[4].strip() else None
                items.append(tuple(g))
    mod = model.run(["I " + ("" if it[2] == "-" else it[2]) for it in items], timeout=1200)
    st = dict(valid_multiframe=0, truncated=0, damaged=0, inplace_ok=0, agree=0, unknown_size_frames=0, skippable_first=0)
    decode_fail = {}
    for it, mo in zip(items, mod):
        tag, ident, hexs, real_i, facts = it
        cls = {"F": "valid", "T": "truncated", "D": "damaged", "X": "expanding"}[tag]
        fields = dict(x.split("=", 1) for x in real_i.split()[1:])
        sig = ("inspect", cls, fields["gfh"].split(":")[0], fields["ffcs"] == "ERR", fields["dbound"] == "ERR",
               fields["margin"] == "ERR", fields["fds"] in ("ffffffffffffffff", "fffffffffffffffe"))
        ctx.count(sig, nontrivial=hexs != "-")
        ctx.cov["traces_validated_against_impl"] += 1
        if real_i == mo:
            st["agree"] += 1
        else:
            problems.append(dict(kind="inspector-model-vs-real", cls=cls, id=ident, real=real_i, model=mo,
                                 hex=hexs if len(hexs) < 4000 else hexs[:4000] + "..."))
        if tag == "T":
            st["truncated"] += 1
        elif tag == "D":
            st["damaged"] += 1
        if tag in ("F", "X") and facts:
            f = dict(x.split("=", 1) for x in facts.split() if "=" in x)
            fail = []
            if "CONTENT-MISMATCH" in facts:
                fail.append("decoded content differs from the source")
            if f.get("consumed_first") != fields["ffcs"]:
                fail.append("ZSTD_findFrameCompressedSize=%s but the streaming decoder consumed %s for the first frame" % (fields["ffcs"], f.get("consumed_first")))
            if f.get("decoded") in ("ERR", None):
                fail.append("valid frames not decodable")
            else:
                dec = int(f["decoded"], 16)
                if fields["dbound"] == "ERR" or int(fields["dbound"], 16) < dec:
                    fail.append("ZSTD_decompressBound=%s < decoded size %d" % (fields["dbound"], dec))
                if fields["fds"] not in ("ffffffffffffffff", "fffffffffffffffe") and int(fields["fds"], 16) != dec:
                    fail.append("ZSTD_findDecompressedSize=%s but decoded %d" % (fields["fds"], dec))
                if fields["fds"] == "fffffffffffffffe":
                    fail.append("ZSTD_findDecompressedSize reports an error on valid frames")
            if fields["fds"] == "ffffffffffffffff":
                st["unknown_size_frames"] += 1
            if fields["gfh"].split(":")[4:5] == ["1"]:
                st["skippable_first"] += 1
            ip = f.get("inplace", "NA")
            if tag == "F":
                st["valid_multiframe"] += 1
                if ip == "OK":
                    st["inplace_ok"] += 1
                else:
                    fail.append("in-place decoding with ZSTD_decompressionMargin failed: " + ip)
            for w in fail:
                cls_key = re.sub(r"[0-9a-fA-F]{2,}|\d+", "#", w)
                if cls_key in decode_fail:
                    decode_fail[cls_key]["count"] += 1
                else:
                    decode_fail[cls_key] = dict(kind="inspector-vs-decode", id=ident, what=w, real=real_i, facts=facts,
                                                hex=hexs[:20000], count=1)
            if tag == "X" and ip != "OK":
                # hand-made valid frame whose compressed blocks are larger than what they regenerate
                ctx.violation(dict(kind="inplace-margin-expanding-blocks", id=ident, facts=facts, real=real_i, hex=hexs),
                              what="ZSTD_decompressionMargin is not enough for a valid frame whose compressed blocks expand "
                                   "(in-place ZSTD_decompress: %s)" % ip, key="C06-margin-expanding-blocks")
        if tag == "F":
            ctx.sample(dict(family="inspect", id=ident, inspectors=real_i, facts=(facts or "").strip(), bytes=len(hexs) // 2), maxn=8)
    for v in decode_fail.values():
        ctx.violation(v, what="frame inspector contradicts the actual decode (x%d): %s" % (v["count"], v["what"]))
    ctx.notes["inspectors"] = st



# ---------------------------------------------------------------------------------------------------------
# (4) unit-level tie of the capacity-checked writers (harness/c06_units.c)

def units(ctx, model, problems):
    exe = core.build_harness("c06_units", ["c06_units.c"], extra_flags=["-w"])
    rc, out, err = core.sh([exe, "units", str(ctx.seed)], timeout=900)
    if rc != 0:
        problems.append(dict(kind="units-harness-exit", rc=rc, err=err[-300:]))
    calls, hlines, fh_hs, ep_hs, sk_hex = [], [], {}, {}, {}
    for l in out.split("\n"):
        if l.startswith("U "):
            m = re.match(r"U (\w+) ([\d ]+) -> (OK (\d+)|ERR (.*))$", l)
            if not m:
                continue
            fam, args = m.group(1), [int(x) for x in m.group(2).split()]
            ok = int(m.group(4)) if m.group(4) is not None else None
            calls.append((fam, args, ok, l))
            if fam == "FH" and ok is not None:
                fh_hs[args[1]] = ok
            if fam == "EP" and args[0] == 0:          # n1 == 0: the first call returned the header size
                ep_hs[(args[2], args[3])] = args[4]
        elif l.startswith("H "):
            m = re.match(r"H (id=\S+ \S+) hex=(\S+) :: (I .*)$", l)
            if m:
                hlines.append(m.groups())
                mm = re.match(r"id=sk(\d+)", m.group(1))
                if mm:
                    sk_hex[int(mm.group(1))] = m.group(2)
        elif l.startswith(("BAD ", "FAULT ")):
            ctx.violation(dict(family="units", harness="c06_units", line=l[:400], argv=None, units_seed=ctx.seed),
                          what="capacity discipline violated in a direct call of a writer: " + l[:200])
        elif l.startswith("ABANDON"):
            problems.append(dict(kind="units-family-abandoned", line=l))
    lines, idx = [], []
    for ci, (fam, a, ok, raw) in enumerate(calls):
        if fam == "NC":
            lines.append("UN %s %s" % (hx(a[0]), hx(a[1])))
        elif fam == "RL":
            lines.append("UR %s" % hx(a[0]))
        elif fam == "LE":
            lines.append("UL %s" % hx(a[0]))
        elif fam == "FH":
            if a[1] not in fh_hs:
                problems.append(dict(kind="unit-frame-header-never-succeeds", line=raw))
                continue
            lines.append("UF %s %s" % (hx(a[0]), hx(fh_hs[a[1]])))
        elif fam == "SK":
            lines.append("US %s %s %s" % (hx(a[0]), hx(a[1]), hx(a[1] % 16)))
        elif fam == "SR":
            if a[0] not in sk_hex:
                continue
            lines.append("UD %s %s" % (hx(a[1]), sk_hex[a[0]]))
        elif fam == "EP":
            n1, n2, chk, bs, r1, cap = a
            lines.append("UE %s %s %d %s %s %s" % (hx(bs), hx(ep_hs.get((chk, bs), 6)), chk, hx(n1), hx(n2), hx(cap)))
        else:
            continue
        idx.append(ci)
    outs = model.run(lines)
    nmis = 0
    hist = {}
    for ci, mo in zip(idx, outs):
        fam, a, ok, raw = calls[ci]
        f = mo.split()
        if fam == "EP":
            w1 = f[1]
            mres = f[2:]
            if w1 == "ERR" or int(w1, 16) != a[4]:
                nmis += 1
                if nmis <= 6:
                    problems.append(dict(kind="unit-model-vs-real", family=fam, real=raw, model=mo, what="first call size"))
        else:
            mres = f[1:]
        mok = int(mres[1], 16) if mres[0] == "OK" else None
        hist[fam] = hist.get(fam, 0) + 1
        ctx.count(("unit", fam, ok is not None, a[0] if fam in ("NC", "SK", "SR") else a[1] if fam == "EP" else 0), nontrivial=True)
        if mok != ok:
            nmis += 1
            if nmis <= 6:
                problems.append(dict(kind="unit-model-vs-real", family=fam, real=raw, model=mo))
    ctx.cov["traces_validated_against_impl"] += len(idx)
    # header bytes produced by the real writers, read back by the inspector model
    mod = model.run(["I " + h[1] for h in hlines])
    for (ident, hexs, real_i), mo in zip(hlines, mod):
        ctx.count(("unit-header", ident.split()[0][:5], real_i.split()[2].split(":")[0]), nontrivial=True)
        if real_i != mo:
            problems.append(dict(kind="inspector-model-vs-real", cls="unit-header", id=ident, real=real_i, model=mo, hex=hexs))
    ctx.cov["traces_validated_against_impl"] += len(hlines)
    ctx.notes["units"] = dict(calls=len(calls), by_family=hist, headers=len(hlines), mismatches=nmis)
    if calls:
        ctx.sample(dict(family="units", call=calls[len(calls) // 3][3]))

# ---------------------------------------------------------------------------------------------------------
# round 2: call histories around ZSTD_generateSequences, adversarial block-level sequence producer
R2_KEYS = {"collector1": "C06-generateSequences-collector-left-armed", "producer1": "C06-splitter-exceeds-compressBound",
           "legacy1": "C06-legacy-bound-oversize-raw-rle-blocks", "legacy2": "C06-legacy-bound-oversize-compressed-block"}
R2_KIND_KEYS = {"splitter-partition-table-overrun": "C06-splitter-partition-table-overrun",
                "explicit-small-blocks-exceed-compressBound": "C06-compressSequences-explicit-blocks-exceed-compressBound",
                "macro-margin-documented-blockSize-too-small-with-maxBlockSize": "C06-margin-macro-ignores-maxBlockSize"}
R2_NOKEY_FAMILIES = ("seqblocks1", "macro1", "legacy3", "concat1")


def r2_argv(desc):
    f = desc.split()
    if not f:
        return None
    if f[0] == "collector1":
        return f[:7]
    if f[0] == "producer1":
        return f[:14]
    if f[0] in ("legacy1", "legacy2", "seqblocks1", "macro1"):
        return f[:4]
    if f[0] in ("legacy3", "concat1"):
        return f[:3]
    return None


def round2(ctx, problems, model=None):
    """c06_r2: (c) hand-built legacy frames (v0.5-v0.7) with one raw / RLE block of up to 524287 bytes: ZSTD_decompressBound >= decoded.
    (a) ZSTD_generateSequences (succeeding / failing) followed by a compression on the same context while the old
    outSeqs pages are PROT_NONE; (b) a sequence producer returning valid but worthless sequences (3-byte matches at offsets
    that cost 3 bytes, statistics that differ between the halves of every index range) so that the post-splitter and the
    super-block writer are driven into their worst expansion: ZSTD_compressBound(n) must still suffice."""
    exe = core.build_harness("c06_r2", ["c06_r2.c"], extra_flags=["-w"])
    tier = 0 if ctx.quick else 1

    def one(mode):
        pr = subprocess.run([exe, mode, str(ctx.seed), str(tier)], stdout=subprocess.PIPE, stderr=subprocess.PIPE, timeout=2400)
        return mode, pr.returncode, pr.stdout.decode("utf-8", "replace"), pr.stderr.decode("utf-8", "replace")
    with ThreadPoolExecutor(max_workers=4) as ex:
        res = list(ex.map(one, ("collector", "producer", "legacy", "known")))
    seen = {}
    legacy_frames = []
    ncases = dict(collector=0, producer=0, legacy=0, known=0)
    maxparts = 0
    maxsplits = 0
    splitcases = []
    maxover = 0
    for mode, rc, out, err in res:
        lines = out.split("\n")
        if rc not in (0, 1, 3) or not any(l.startswith(("DONE", "FAULT")) for l in lines):
            problems.append(dict(kind="r2-harness-exit", mode=mode, rc=rc, err=err[-300:]))
        for l in lines:
            if l.startswith("CASE "):
                d = dict(CASE_RE.findall(l))
                if d.get("fam") == "splits":
                    ns = int(d["splits"])
                    maxsplits = max(maxsplits, ns)
                    ctx.count(("r2-splits", min(ns // 32, 7), ns >= 190), nontrivial=ns > 0)
                    splitcases.append(d)
                    continue
                ncases[mode] += 1
                if mode == "known":
                    if d.get("fam") == "seqblocks":
                        bs = int(d["bs"])
                        ctx.count(("r3-seqblocks", 0 if bs < 1024 else 1, d["ret"] != "-1", d["kind"]), nontrivial=True)
                    else:
                        ctx.count(("r3-macro", d["wlog"], d["mbs"] != "0", d["docOk"]), nontrivial=True)
                    continue
                if mode == "legacy" and d.get("hex", "-") != "-":
                    legacy_frames.append(d)
                if mode == "legacy" and d.get("fam") == "concat":
                    if "skipped" not in d:
                        tot = int(d["total"])
                        ctx.count(("r3-concat", d["nf"], d["legacy5"], 0 if tot == 0 else 1 if tot < KB128 else 2), nontrivial=True)
                    continue
                if mode == "legacy" and d.get("fam") == "legacy3":
                    ctx.count(("r3-legacy3", d["ver"], d["fcs"] != "-1", d["dec"] != "-1"), nontrivial=d["fcs"] != "-1")
                    continue
                if mode == "legacy" and d.get("fam") == "legacy2":
                    tot = int(d["total"])
                    ctx.count(("r2-legacy2", d["ver"], d["nbSeq"], d["dec"] != "-1", 0 if tot < KB128 else 1 if tot == KB128 else 2), nontrivial=True)
                    continue
                if mode == "legacy":
                    sz = int(d["size"])
                    ctx.count(("r2-legacy", d["ver"], d["type"], d["dec"] != "-1", 0 if sz < KB128 else 1 if sz == KB128 else 2), nontrivial=sz > 0)
                    continue
                if mode == "collector":
                    n = int(d["n"])
                    ctx.count(("r2-collector", d["kind"], d["entry"], d["genMode"], d["gen"] == "ok", 0 if n == 0 else 1 if n < 2000 else 2 if n <= KB128 else 3), nontrivial=n > 0)
                else:
                    B = int(d["B"]); parts = int(d["partsPerBlock"]); raw = int(d["raw"]); blocks = int(d["blocks"])
                    maxparts = max(maxparts, parts)
                    ctx.count(("r2-producer", 0 if B < 1536 else 1 if B < 4096 else 2 if B < KB128 else 3, d["split"], d["tcbs"] != "0", d["mlmix"] != "0",
                               d["llmax"] != "0", d["lits"], d["chk"], raw == blocks, raw == 0, min(parts, 3) if parts < 100 else 4), nontrivial=True)
                    maxover = max(maxover, int(d.get("maxOver", 0)))
                    if parts > 196:
                        problems.append(dict(kind="splitter-more-partitions-than-its-table", case=l[:400]))
            elif l.startswith("FAULT "):
                m = re.match(r"FAULT sig=(\d+) addr=(\S+) bt=(\S*) :: (.*)", l)
                desc = m.group(4) if m else l
                fn = resolve_bt(exe, m.group(3)) if m else []
                k = ("fault", desc.split()[0])
                if k not in seen:
                    seen[k] = dict(kind="memory-fault", where=fn, desc=desc, count=0, argv=r2_argv(desc))
                seen[k]["count"] += 1
            elif l.startswith("BAD "):
                m = re.match(r"BAD (\S+) val=(\d+) ret=(\d+)\((.*?)\) :: (.*)", l)
                if not m:
                    continue
                what, val, ret, msg, desc = m.groups()
                k = ("bad", what, desc.split()[0])
                if k not in seen:
                    seen[k] = dict(kind=what, val=int(val), ret=int(ret), msg=msg, desc=desc, count=0, argv=r2_argv(desc))
                seen[k]["count"] += 1
    for k, v in seen.items():
        fam = v["desc"].split()[0]
        ctx.violation(dict(family="round2-" + fam, harness="c06_r2", **v), key=R2_KIND_KEYS.get(v["kind"], None if fam in R2_NOKEY_FAMILIES else R2_KEYS.get(fam)),
                      what="capacity discipline / size bound violated on the real code: %s (%s) x%d :: %s" %
                           (v["kind"], ",".join(v.get("where", [])[:3]) if v.get("where") else v.get("msg", ""), v["count"], v["desc"][:160]))
    # tie of the splitter model (coq/Mem/CompressSplit.v): the table the real ZSTD_deriveBlockSplits leaves vs derive_splits fed with the
    # decisions of the real estimates; wire blocks of the source block vs emitted_partitions; the literals 196 / 300
    if model is not None and splitcases:
        lines = []
        for d in splitcases:
            lines.append("D %x %s" % (int(d["nbSeq"]), d["decisions"].rstrip("-").rstrip(",") or "-"))
            lines.append("Q %x %x" % (int(d["splits"]), int(d["len"])))
        mo = model.run(lines)
        for k, d in enumerate(splitcases):
            mt = mo[2 * k].split()
            mtable = mt[1] if len(mt) > 1 else "-"
            q = mo[2 * k + 1].split()
            if (mtable or "-") != d["table"]:
                problems.append(dict(kind="splitter-table-model-vs-real", nbSeq=d["nbSeq"], real=d["table"][:300], model=mtable[:300]))
            if int(q[1], 16) != int(d["wire"]):
                problems.append(dict(kind="splitter-partition-count-model-vs-real", real=d["wire"], model=int(q[1], 16), splits=d["splits"], len=d["len"]))
            if int(q[4], 16) != int(d["limit"]) or int(q[5], 16) != int(d["minseq"]):
                problems.append(dict(kind="splitter-literals", real=(d["limit"], d["minseq"]), model=(int(q[4], 16), int(q[5], 16))))
        ctx.cov["traces_validated_against_impl"] += len(splitcases)
    # round 3: tie of the legacy frame walk (coq/Codec/LegacyInspect.v legacy_find) - ZSTD_findFrameCompressedSize and
    # ZSTD_decompressBound of the hand-built v0.5-v0.7 frames (and of truncations / a damaged header byte) vs the extracted model
    if model is not None and legacy_frames:
        lines = []; meta = []
        for d in legacy_frames:
            hx = d["hex"]; ver = int(d["ver"])
            lines.append("L %x %s" % (ver, hx)); meta.append((d, "full", int(d["fcs"]), int(d["bound"])))
        mo = model.run(lines)
        nbad = 0
        for (d, what, fcs, bnd), m in zip(meta, mo):
            mf = m.split()
            mcs, mb = (int(mf[2], 16), int(mf[3], 16)) if len(mf) >= 4 and mf[1] == "OK" else (-1, -1)
            ctx.count(("r3-legacy-walk", d["ver"], d.get("fam"), mcs >= 0, mb > KB128), nontrivial=True)
            if d.get("fam") != "legacy3" and fcs != len(d["hex"]) // 2:
                mb = bnd = 0    # v0.5 / v0.6: an empty raw block ends the frame; ZSTD_decompressBound of the WHOLE buffer then sees trailing bytes
            if (mcs, mb) != (fcs, bnd):
                nbad += 1
                if nbad <= 4:
                    problems.append(dict(kind="legacy-walk-model-vs-real", case=" ".join("%s=%s" % kv for kv in d.items() if kv[0] != "hex")[:200],
                                         real=(fcs, bnd), model=(mcs, mb), hex=d["hex"][:120]))
        ctx.cov["traces_validated_against_impl"] += len(legacy_frames)
        ctx.notes["round3_legacy_walk_tied"] = len(legacy_frames)
    ctx.cov["traces_validated_against_impl"] += ncases["collector"] + ncases["producer"] + ncases["legacy"] + ncases["known"]
    ctx.notes["round2"] = dict(cases=ncases, max_partitions_of_one_block=maxparts, max_splits_derived=maxsplits, max_block_expansion=maxover, split_tables_tied=len(splitcases))
    if ncases["producer"]:
        ctx.sample(dict(family="round2", note="adversarial sequence producer: %d cases, at most %d partitions per source block" % (ncases["producer"], maxparts)))


# ---------------------------------------------------------------------------------------------------------
def search_bound(ctx, exe, rng):
    """SEARCH for a concrete input on which the real ZSTD_compressBound capacity is rejected: incompressible data,
    smallest blocks, sizes where header + 3 bytes per block weigh most."""
    found = []
    sizes = [0, 1, 17, 255, 1024, 4096, 30000, 65536, KB128 - 1, KB128, KB128 + 1, 2 * KB128, 262143, 300000, 500000, 655360]
    for n in sizes:
        for (wlog, maxbs, chk) in ((10, 0, 1), (0, 1024, 1), (0, 0, 1), (11, 0, 0)):
            rc, out, err = core.sh([exe, "one", "0", str(ctx.seed), str(n), "1", "1", str(chk), "-1", str(wlog), str(maxbs),
                                    "0", "0", "0", "0", "0", "CAP", "BOUND", "0"], timeout=120)
            if "BAD" in out or rc == 3:
                found.append((dict(kind="bound-search", n=n, windowLog=wlog, maxBlockSize=maxbs, checksum=chk, out=out[-600:],
                                   argv=["one", "0", str(ctx.seed), str(n), "1", "1", str(chk), "-1", str(wlog), str(maxbs), "0", "0", "0", "0", "0", "CAP", "BOUND", "0"]),
                              "ZSTD_compressBound(%d) bytes rejected / overrun for incompressible input (windowLog=%d maxBlockSize=%d)" % (n, wlog, maxbs)))
                if len(found) >= 2:
                    return found
    return found


def replay(ctx):
    obj = json.load(open(ctx.replay_file))
    rp = obj.get("replay", {})
    exe = core.build_harness("c06_sweep", ["c06_sweep.c"], extra_flags=["-w"])
    argv = rp.get("argv")
    if argv and rp.get("harness") == "c06_r2":
        exe = core.build_harness("c06_r2", ["c06_r2.c"], extra_flags=["-w"])
    if argv:
        rc, out, err = core.sh([exe] + [str(a) for a in argv], timeout=300)
        core.log("replay:", " ".join(str(a) for a in argv), "->", out.strip()[-400:], "rc=%d" % rc)
        ctx.count(("replay",), nontrivial=True)
        ctx.sample(dict(replayed=argv, out=out[-300:]))
        if rc != 0 or "BAD" in out or "FAULT" in out:
            ctx.violation(dict(kind="replay", argv=argv, out=out[-800:]), what="replayed case still fails: " + out.strip()[-200:])
        return
    if rp.get("family") == "units":
        uexe = core.build_harness("c06_units", ["c06_units.c"], extra_flags=["-w"])
        rc, out, err = core.sh([uexe, "units", str(rp.get("units_seed", 1))], timeout=900)
        badl = [l for l in out.split("\n") if l.startswith(("BAD ", "FAULT ", "ABANDON"))]
        core.log("replay (unit calls of the writers):", (badl or ["clean"])[0][:300])
        ctx.count(("replay",), nontrivial=True)
        ctx.sample(dict(replayed="units", lines=badl[:5]))
        if badl:
            ctx.violation(dict(kind="replay", family="units", units_seed=rp.get("units_seed", 1), lines=badl[:10]),
                          what="replayed unit calls still fail: " + badl[0][:200])
        return
    if rp.get("hex"):
        model = Model()
        mo = model.run(["I " + rp["hex"].rstrip(".")])
        core.log("replay (model inspectors):", mo[0])
        core.log("recorded real inspectors :", rp.get("real"))
        ctx.count(("replay",), nontrivial=True)
        ctx.sample(dict(replayed="inspectors", model=mo[0], real=rp.get("real")))
        if rp.get("real") and rp.get("real") != mo[0]:
            ctx.violation(dict(kind="replay", **rp), what="replayed inspector disagreement persists")
        return
    core.log("replay file has no executable case (proof/tie level report):", obj.get("what"))
    ctx.count(("replay",), nontrivial=False)
    ctx.sample(dict(replayed=None, what=obj.get("what")))


def run(ctx):
    rng = random.Random(ctx.seed * 1000003 + 6)
    ctx.cov["rule"] = (
        "proof obligations = theorems of coq/Props/Properties_C06.v. Cases: (1) value tie: real ZSTD_compressBound / ZSTD_COMPRESSBOUND vs "
        "the extracted model for n around every multiple of 256 / 2048 / 128 KiB up to 2^20 (2^22 thorough), 0..4200, MAX_INPUT+-3, random "
        "1..64-bit n; ZSTD_optimalBlockSize on a (srcSize, blockSizeMax, savings, strategy) grid with the real ZSTD_splitBlock answer as oracle; "
        "ZSTD_DECOMPRESSION_MARGIN. (2) input x capacity sweep of ZSTD_compressCCtx / ZSTD_compress2 / ZSTD_compressStream2(end) / "
        "ZSTD_compressSequences and ZSTD_decompressDCtx under PROT_NONE fences (end- and start-placed, canary on the slack): inputs noise, "
        "alternating 8 KiB compressible/noise, RLE, text, sparse, alternating statistics; sizes at 0..3, 17..19, 255..257, 1 KiB, 8 KiB, 64 KiB, "
        "128 KiB+-1, 256 KiB+-1 and random; capacities 0..26, every wire-block edge +-2, every raw-model block edge, final size +-4, bound-4..bound+3, "
        "every capacity for small outputs, random. (3) frame inspectors vs model and vs the actual decode on seeded multi-frame inputs "
        "(skippable frames, unknown content size, checksum, small windows), their truncations and 1-bit damages. "
        "(2a) entries also ZSTD_compress2 with 2 workers (2-3 jobs of 512 KiB; frame size vs the job model) and ZSTD_compress_usingDict; decoder "
        "capacities above the content size (every capacity n+2..2n+400 for small frames, else aimed at blockSizeMax+32+litSize of the first/last "
        "blocks) with dst ending at the fence; in-place decoding with ZSTD_DECOMPRESSION_MARGIN. (2b) multi-call ZSTD_compressStream2 / "
        "ZSTD_decompressStream with output buffers of 1..65536 bytes and input pieces of 1..65536 bytes, every buffer of every call fenced. "
        "(4) the capacity-checked writers called directly for every capacity around their threshold (ZSTD_noCompressBlock, ZSTD_rleCompressBlock, "
        "ZSTD_writeLastEmptyBlock, ZSTD_writeFrameHeader, ZSTD_writeSkippableFrame, ZSTD_readSkippableFrame, ZSTD_compressContinue+ZSTD_compressEnd) "
        "vs the model. "
        "A case is distinct by its signature = (family, input kind, entry point, size bucket, set of wire block types, block count bucket, "
        "parameter-feature vector) resp. (inspector verdict vector); non-trivial = non-empty input.")
    if ctx.replay_file:
        return replay(ctx)

    import time
    t0 = time.time()
    ctx.prove()
    core.log("C06 phase prove: %.1f s" % (time.time() - t0)); t0 = time.time()

    tie_exe = core.build_harness("c06_tie", ["c06_tie.c"], extra_flags=["-w"])
    sweep_exe = core.build_harness("c06_sweep", ["c06_sweep.c"], extra_flags=["-w"])
    model = Model()
    core.log("C06 phase build: %.1f s" % (time.time() - t0)); t0 = time.time()

    def search(broken):
        return search_bound(ctx, sweep_exe, rng)

    ctx.proof_verdict(search)

    problems = tie_values(ctx, model, tie_exe, rng)
    core.log("C06 phase value tie: %.1f s" % (time.time() - t0)); t0 = time.time()
    sweep(ctx, model, sweep_exe, problems)
    core.log("C06 phase sweep: %.1f s" % (time.time() - t0)); t0 = time.time()
    streaming(ctx, sweep_exe, problems)
    core.log("C06 phase streaming: %.1f s" % (time.time() - t0)); t0 = time.time()
    inspectors(ctx, model, sweep_exe, problems)
    core.log("C06 phase inspectors: %.1f s" % (time.time() - t0)); t0 = time.time()
    units(ctx, model, problems)
    core.log("C06 phase units: %.1f s" % (time.time() - t0)); t0 = time.time()
    round2(ctx, problems, model)
    core.log("C06 phase round 2 (collector, sequence producer): %.1f s" % (time.time() - t0)); t0 = time.time()

    if ctx.tier == "thorough":
        # two more seeds of the sweeps (direct oracle only)
        for extra in (1, 2):
            sd = ctx.seed + 1000 * extra
            for mode in ("sweep", "stream"):
                bads, faults = [], []
                for rc, out, err in run_shards(sweep_exe, mode, sd, 1, min(16, core.NCPU), timeout=2400):
                    if rc != 0:
                        problems.append(dict(kind="%s-harness-exit" % mode, rc=rc, err=err[-300:]))
                    bads += [l for l in out.split("\n") if l.startswith("BAD ")]
                    faults += [l for l in out.split("\n") if l.startswith("FAULT ")]
                    ctx.count(("extra-seed", mode, extra), nontrivial=True, n=max(1, out.count("\nCASE ") + out.count("\nSTREAM ")))
                report_direct(ctx, sweep_exe, bads, faults, "extra-seed-" + mode)
        asan_pass(ctx, problems)
        # independent re-check of the compiled theory by coqchk (kernel re-validation, lists axioms)
        rc, out, err = core.sh(["timeout", "1500", "coqchk", "-silent", "-o", "-Q", ".", "ZV", "ZV.Props.Properties_C06"], cwd=core.COQ)
        txt = " ".join((out + err).split())
        ctx.notes["coqchk"] = "ok: axioms <none>" if (rc == 0 and "Axioms: <none>" in txt) else txt[-600:]
        if rc != 0 or "Axioms: <none>" not in txt:
            ctx.violation(dict(kind="coqchk", rc=rc, output=txt[-2000:]), what="coqchk does not validate Properties_C06 axiom-free", no_input=True)

    # tie / validation problems: a broken correspondence is not yet a violation -> SEARCH for a concrete failing input
    if problems:
        kinds = sorted(set(p["kind"] for p in problems))
        found = []
        with_input = [p for p in problems if p.get("argv")]
        for p in with_input[:3]:
            rc, out, err = core.sh([sweep_exe] + [str(a) for a in p["argv"]], timeout=300)
            found.append((dict(p, out=out[-400:]), "correspondence broken with a concrete input: %s (%s)" % (p["kind"], out.strip()[-160:])))
        if not found and any(k in ("bound-value", "bound-macro-vs-function", "suff-capacity-above-real-bound", "block-compressor-contract",
                                   "frame-expansion-exceeds-3-per-block", "cctx-block-size", "optimal-block-size", "split-contract") for k in kinds):
            found = search_bound(ctx, sweep_exe, rng)
        if found:
            for rp, what in found:
                ctx.violation(dict(rp, problems=problems[:10]), what=what)
        else:
            ctx.violation(dict(kind="tie-broken", kinds=kinds, problems=problems[:12]),
                          what="model/code correspondence or per-run validation broken: " + ", ".join(kinds), no_input=True)
    ctx.assumptions += [
        "block compressor (match finders, entropy stage, block splitter, super-block writer) is an oracle in the model; its raw-fallback contract "
        "(emits <= 3 + len bytes per frame-loop chunk, succeeds when that much room is offered) is validated per run on real outputs, not proved",
        "pre-splitter answer in (0, 128 KiB] validated per run (ZSTD_splitBlock called directly)",
        "'nothing is written outside dst[0..c) / read outside src' for the C code is PROT_NONE-fence + canary evidence over the sweep, not a theorem",
        "frame inspectors are modelled for format zstd1 without legacy (v0.1-v0.7) dispatch; block payloads are opaque, regenerated sizes abstract",
        "in-place margin theorem assumes non-expanding blocks (validated on every real output); known finding C06-margin-expanding-blocks otherwise",
        "multi-threaded job model: jobs cut at the target section size (no rsyncable), 512 KiB chunks; validated on 2-3 job frames of incompressible input",
        "streaming (ZSTD_compressStream2 / ZSTD_decompressStream with many calls) is covered by the fenced direct oracle only, not by a theorem",
    ]


def asan_pass(ctx, problems):
    """thorough tier: the same sweep harness built with ASan+UBSan (supporting test; fences stay active)"""
    try:
        exe = core.build_harness("c06_sweep", ["c06_sweep.c"], variant="asan", extra_flags=["-w"])
    except Exception as e:
        problems.append(dict(kind="asan-build", error=repr(e)[:300]))
        return
    env = dict(os.environ, ASAN_OPTIONS="detect_leaks=0:allocator_may_return_null=1:handle_segv=0:abort_on_error=0")
    nsh = min(16, core.NCPU)

    def one(s):
        p = subprocess.run([exe, "sweep", str(ctx.seed + 1000), "0", str(s), str(nsh)], stdout=subprocess.PIPE, stderr=subprocess.PIPE, env=env, timeout=2400)
        return p.returncode, p.stdout.decode("utf-8", "replace"), p.stderr.decode("utf-8", "replace")
    with ThreadPoolExecutor(max_workers=nsh) as ex:
        res = list(ex.map(one, range(nsh)))
    n = 0
    for rc, out, err in res:
        n += out.count("\nCASE ") + out.startswith("CASE ")
        if "ERROR: AddressSanitizer" in err or "runtime error" in err or "ERROR: AddressSanitizer" in out:
            ctx.violation(dict(kind="asan-ubsan-report", report=(err + out)[-3000:]), what="ASan/UBSan report in the capacity sweep: " + (err.strip().split("\n") or ["?"])[0][:200])
        for l in out.split("\n"):
            if l.startswith(("BAD ", "FAULT ")):
                ctx.violation(dict(kind="capacity-sweep-asan", line=l[:600], argv=replay_args(l.split(" :: ")[-1])), what="capacity discipline violated (ASan build): " + l[:200])
                break
    ctx.notes["asan_sweep_cases"] = n
    ctx.count(("asan-sweep",), nontrivial=True, n=max(n, 1))
