"""C04 - every decoding path yields the specified output for every valid frame.

R (coq/Codec, extracted) is the independent specification-derived decoder.  For every frame R accepts - real
compressor output, frames from tests/decodecorpus.c built from the current tree (uses format features the
bundled compressor never emits), the golden files, hand-built raw/RLE layouts - every libzstd decode path
(one-shot, DCtx, streaming under several segmentations, stable output buffer, buffer-less, in-place, Huffman
asm disabled at run time) in every build variant (default, ZSTD_DISABLE_ASM, HUF X1 / X2 forced, BMI2 off,
short / long sequence decoders forced, legacy support off) must succeed and return exactly R's bytes."""
import glob
import os
import random
import subprocess

from .. import codec, core
from . import c09

QUICK_VARIANTS = ["o1", "noasm", "x1", "x2", "seqlong"]
ALL_VARIANTS = ["o1", "noasm", "x1", "x2", "nobmi2", "seqshort", "seqlong", "nolegacy"]
PATHS = [("oneshot", "-"), ("dctx", "-"), ("stream:1:0", "-"), ("stream:5:3", "-"), ("stream:0:1000", "-"), ("stream:1000:1", "-"),
         ("stableout:7", "-"), ("continue", "-"), ("inplace", "-"), ("stream:3:0", "1004:1"), ("dctx", "1004:1"),
         # round 2: destination capacity EXACTLY the content size (the other paths leave 8 spare bytes): last-block literal buffer placement,
         # end-of-buffer sequence execution
         ("oneshot@exact", "-"), ("stream:5:3@exact", "-"), ("stableout:7@exact", "-"),
         # whole input and whole output in one ZSTD_decompressStream call: the single-pass shortcut when the content size is declared
         ("stream:0:0", "-"),
         # one DCtx with a history: abandoned streaming decode, single call, session reset, streaming, buffer-less (must all agree)
         ("reuse", "-")]


def decodecorpus_frames(ctx, n, seed):
    exe = core.build_harness("decodecorpus", [core.REPO + "/tests/decodecorpus.c", core.REPO + "/programs/util.c", core.REPO + "/programs/timefn.c"],
                             variant="o1", lib_exclude=["zstd_compress.c"], libs=["-lm", "-lpthread"], extra_flags=["-w"], extra_inc=[core.REPO + "/programs"])
    d = os.path.join(ctx.scratch, "dc")
    os.makedirs(d + "/z", exist_ok=True)
    os.makedirs(d + "/o", exist_ok=True)
    res = []
    for logsz, cnt in ((12, n // 2), (15, n - n // 2)):
        for f in glob.glob(d + "/z/*") + glob.glob(d + "/o/*"):
            os.unlink(f)
        p = subprocess.run([exe, "-n%d" % cnt, "-s%d" % (seed * 100 + logsz), "-p%s/z" % d, "-o%s/o" % d, "--max-content-size-log=%d" % logsz],
                           stdout=subprocess.PIPE, stderr=subprocess.PIPE, timeout=600)
        if p.returncode != 0:
            raise RuntimeError("decodecorpus failed: %s" % p.stderr[-300:])
        for f in sorted(glob.glob(d + "/z/*.zst")):
            res.append(("decodecorpus %s log%d" % (os.path.basename(f), logsz), open(f, "rb").read(), open(f.replace("/z/", "/o/")[:-4], "rb").read()))
    return res


ML_CODE_LO = [3, 4, 5, 6, 7, 8, 9, 10, 11, 12, 13, 14, 15, 16, 17, 18, 19, 20, 21, 22, 23, 24, 25, 26, 27, 28, 29, 30, 31, 32, 33, 34,
              35, 37, 39, 41, 43, 47, 51, 59, 67, 83, 99, 131, 259, 515, 1027, 2051, 4099, 8195, 16387, 32771, 65539]


def _lz_source(rng, seqs, tail):
    """execute (offset, litLength, matchLength) on fresh random literals -> the source these sequences parse"""
    out = bytearray()
    for off, ll, ml in seqs:
        out += rng.randbytes(ll)
        if off <= ml:
            for _ in range(ml):
                out.append(out[-off])
        else:
            st = len(out) - off
            out += out[st:st + ml]
    out += rng.randbytes(tail)
    return bytes(out)


def seqapi_frames(ctx, rng, n_gap, n_wide):
    """(name, frame, content) built by ZSTD_compressSequences from explicit sequences:
    * match-length code sets with a hole of 30..45 unused codes (zero-run of the FSE table description around 12 repeats)
    * sequences whose extra bits (offset + match length + literal length) exceed what one 64-bit refill holds, in blocks with
      few / hundreds of other sequences (predefined / compressed tables), at the start, in the middle and at the end of the block"""
    from . import c17 as c17m
    try:
        exe = core.build_harness("c17_seq", ["c17_seq.c"], variant="o1", extra_flags=["-w"])
    except RuntimeError:
        exe = core.build_harness("c17_seq", ["c17_seq.c"], variant="o1", extra_flags=["-w"], extra_defs=["-DC17_NO_UNITS"])
    jobs = []
    for i in range(n_gap):
        a = rng.randrange(0, 12)                                  # small match lengths use codes 0..a
        gap = rng.choice([36, 37, 38, 36, 37, 38, 30, 33, 35, 39, 40, 45])
        b = min(52, a + gap + 1)
        seqs = [(rng.randint(1, 8), rng.randint(2, 6), 8)]
        pos = seqs[0][1] + 8
        for _ in range(rng.choice([20, 70, 150, 400])):
            ml = ML_CODE_LO[rng.randint(0, a)]
            ll = rng.choice([0, 1, 1, 2, 3, 5])
            seqs.append((rng.randint(1, min(pos + ll, 900)), ll, ml))
            pos += ll + ml
        for _ in range(rng.choice([1, 1, 2])):
            ml = ML_CODE_LO[b] + rng.randrange(0, 3)
            k = rng.randrange(1, len(seqs))
            seqs.insert(k, (rng.randint(1, 50), rng.choice([0, 2]), ml))
        # offsets of the re-ordered list must stay inside what has been produced: recompute conservatively
        fixed, pos = [], 0
        for off, ll, ml in seqs:
            off = max(1, min(off, pos + ll))
            fixed.append((off, ll, ml))
            pos += ll + ml
        x = _lz_source(rng, fixed, rng.choice([0, 3, 40]))
        if len(x) > 131072:
            continue
        jobs.append(("mlgap a=%d gap=%d n=%d" % (a, b - a - 1, len(fixed)), {"blockDelimiters": 0, "validateSequences": 1, "level": rng.choice([1, 3, 7]),
                     "windowLog": 17, "minMatch": 3}, fixed, x))
    for i in range(n_wide):
        lead = 131072                                             # block 0: literals only
        ll, ml = rng.choice([(33000, 33000), (40000, 34000), (32768, 32771), (20000, 66000), (66000, 20000), (300, 65600)])
        off = rng.choice([lead + ll - 64, lead + ll - 1000, 140000])
        ntail = rng.choice([0, 3, 300, 1500])
        where = rng.choice(["first", "mid", "last"])
        small = []
        for _ in range(ntail):
            small.append((rng.randint(1, 3000), rng.choice([0, 1, 2, 4]), rng.choice([3, 4, 5, 8, 20])))
        big = (off, ll, ml)
        if where == "first" or not small:
            body = [big] + small
        elif where == "last":
            body = small + [big]
        else:
            k = len(small) // 2
            body = small[:k] + [big] + small[k:]
        seqs, pos = [], lead
        first = True
        for o, l, m in body:
            if first:
                l += lead
                first = False
            o = max(1, min(o, pos + (l if l < lead else l - lead)))
            seqs.append((o, l, m))
            pos += (l if l < lead else l - lead) + m
        x = _lz_source(rng, seqs, rng.choice([0, 5]))
        if len(x) > 2 * 131072:
            continue
        jobs.append(("wideseq ll=%d ml=%d off=%d tail=%d %s" % (ll, ml, off, ntail, where), {"blockDelimiters": 0, "validateSequences": 1, "level": rng.choice([1, 3]),
                     "windowLog": 18, "minMatch": 3}, seqs, x))
    lines = ["Q s%d %s - - %s %s 0" % (i, codec.params_str(p), c17m.seqs_str(sq), codec.hx(x)) for i, (name, p, sq, x) in enumerate(jobs)]
    out, errs = c17m.run_lines(exe, lines)
    res = []
    nerr = 0
    for i, (name, p, sq, x) in enumerate(jobs):
        r = out.get("s%d" % i, "ERR missing").split(" ")
        if r[0] == "OK":
            res.append(("seqapi " + name, bytes.fromhex(r[1]), x))
        else:
            nerr += 1
    ctx.notes["seqapi_frames"] = dict(built=len(res), refused=nerr)
    return res


def run(ctx):
    ctx.cov["rule"] = ("frames = real compressor output (random inputs x parameter vectors) + tests/decodecorpus.c output built from the current "
                       "tree (RLE/repeat/compressed tables, treeless and 1-stream literals, odd table logs...) + tests/golden-decompression + "
                       "hand-built raw/RLE header layouts; each frame accepted by R is decoded through every path x build variant and compared "
                       "with R's bytes; distinct = distinct (R trace signature, source); non-trivial = frame with at least one block")
    ctx.prove()
    rng = random.Random(ctx.seed)
    cd0 = codec.Codec(ctx, "o1")
    frames = []
    # (a) real compressor output
    reqs = []
    for i in range(40 if ctx.quick else 300):
        kind = rng.choice(codec.KINDS)
        n = rng.choice(codec.SIZES_SMALL + codec.SIZES_MED[:6])
        reqs.append(("a%d" % i, codec.gen_input(rng, kind, n), codec.gen_params(rng, n)))
    out, errs = cd0.impl(["C %s compress2 %s - - %s" % (i, codec.params_str(p), codec.hx(x)) for i, x, p in reqs])
    for i, x, p in reqs:
        r = codec.parse_ok(out.get(i, "ERR missing"))
        if r[0] == "OK" and not p.get("format"):
            frames.append(("zstd %s" % p, r[1], x))
    # (b) decodecorpus
    frames += decodecorpus_frames(ctx, 50 if ctx.quick else 500, ctx.seed)
    # (c) golden files
    for f in sorted(glob.glob(core.REPO + "/tests/golden-decompression/*.zst")):
        if os.path.getsize(f) < 200000:
            frames.append(("golden " + os.path.basename(f), open(f, "rb").read(), None))
    # (c2) frames built from explicit sequences with ZSTD_compressSequences (harness c17_seq): shapes the match finders never emit
    frames += seqapi_frames(ctx, rng, 40 if ctx.quick else 200, 3 if ctx.quick else 12)
    # (d) hand-built layouts
    for name, f, x in c09.catalogue(ctx, rng, cd0)[:16]:
        if name.startswith("py"):
            frames.append((name, f, x))
    # (d2) round 2: frames written by the independent writer zv/props/c04_enc.py from explicit encoding choices (c04_gen scenarios):
    #      shapes the format allows and the bundled compressor never emits
    from . import c04_gen
    gen_frames = c04_gen.all_frames(rng, ctx.quick)
    ctx.notes["writer_frames"] = len(gen_frames)
    frames += [("writer " + n, f, x) for n, f, x in gen_frames]
    # (e) dictionary frames: structurally valid dictionaries with three distinct repeat offsets (built with the entropy writers of the
    #     current tree), inputs that START with a match at the k-th repeat offset, and ordinary inputs reusing dictionary content
    from . import c08
    mkexe = core.build_harness("c08_mkdict", ["c08_mkdict.c"], variant="o1", extra_flags=["-w"])
    dlines, dinfo = [], {}
    for j in range(3 if ctx.quick else 10):
        content = codec.gen_input(rng, rng.choice(["text", "rep3"]), rng.choice([600, 2000, 3000]))
        reps = rng.sample(range(5, len(content) - 1), 3)
        dinfo["dd%d" % j] = (reps, content)
        dlines.append("M dd%d %d %s %s %s %s %d,%d,%d %s" % (j, 1000 + j, "11:" + ",".join(["3"] * 100 + ["2"] * 100 + ["1"] * 56),
                                                             c08.rand_norm(rng, 32, 8, full=True), c08.rand_norm(rng, 53, 9, full=True), c08.rand_norm(rng, 36, 9, full=True),
                                                             reps[0], reps[1], reps[2], codec.hx(content)))
    mout, merrs = codec._run_chunks(mkexe, dlines, core.NCPU, 600)
    dframes = []      # (name, dict bytes, frame, x)
    creq = []
    for name, (reps, content) in dinfo.items():
        r = mout.get(name, "ERR").split(" ")
        if r[0] != "OK":
            continue
        dbytes = bytes.fromhex(r[1])
        for k in range(3):
            period = content[len(content) - reps[k]:]
            x = (period * (40 // len(period) + 2))[:40] + codec.gen_input(rng, "text", 300)
            for lvl in (19, 13, 3):
                creq.append(("%s.r%d.l%d" % (name, k, lvl), dbytes, x, lvl))
        creq.append(("%s.mix" % name, dbytes, content[100:400] + codec.gen_input(rng, "text", 2000) + content[-300:], 3))
    cout, cerrs = cd0.impl(["C %s usingDict:%d - - %s %s" % (i, lvl, codec.hx(db), codec.hx(x)) for i, db, x, lvl in creq])
    for i, db, x, lvl in creq:
        r = codec.parse_ok(cout.get(i, "ERR missing"))
        if r[0] == "OK":
            dframes.append(("dict " + i, db, r[1], x))
    # (e2) round 2: dictionaries AND frames from the independent writer: first blocks with Treeless literals / Repeat_Mode tables / repeat
    #      offsets of the dictionary, offsets into the dictionary content beyond Window_Size while the frame is still shorter than the window
    wd = c04_gen.gen_dict_frames(rng, 14 if ctx.quick else 120)
    ctx.notes["writer_dict_frames"] = len(wd)
    dframes += [("writer " + n, d, f, x) for n, f, x, d in wd]
    dres = cd0.model([("g%d" % i, "nostrict", db, f) for i, (name, db, f, x) in enumerate(dframes)])
    dvalid = []
    for i, (name, db, f, x) in enumerate(dframes):
        m = dres.get("g%d" % i, ("ERR", "missing", -1))
        if m[0] == "OK" and m[1] == x:
            dvalid.append((i, name, db, f, x, codec.trace_signature(codec.parse_trace(m[2]))))
        elif m[0] == "OK":
            ctx.violation(dict(source=name, dict_hex=db.hex()[:40000], frame_hex=f.hex()[:40000]), what="R decodes a dictionary frame to other bytes than the compressor's input")
        elif name.startswith("writer"):
            ctx.violation(dict(source=name, dict_hex=db.hex()[:40000], frame_hex=f.hex()[:40000], result="R: ERR %s site %s" % (m[1], m[2])),
                          what="reference decoder R rejects a dictionary frame of the independent writer (%s at site %s): R or the writer is wrong" % (m[1], m[2]), no_input=True)
    ctx.notes["dict_frames_R_accepts"] = len(dvalid)
    DPATHS = ["usingDict", "ddict", "ddictwarm", "ddictref", "loaddict", "multiddict", "multiddict2", "stream:5:3", "continue"]
    # R first: only frames R accepts are in the quantifier
    mres = cd0.model([("f%d" % i, "nostrict", None, f) for i, (name, f, x) in enumerate(frames)])
    valid = []
    rejected = {}
    for i, (name, f, x) in enumerate(frames):
        m = mres.get("f%d" % i, ("ERR", "missing", -1))
        if m[0] != "OK":
            rejected[name.split(" ")[0]] = rejected.get(name.split(" ")[0], 0) + 1
            if x is not None and not name.startswith("golden"):
                # the source claims this frame is valid with content x: R must not reject it (model incompleteness, not a zstd defect)
                ctx.violation(dict(source=name, frame_hex=f.hex()[:100000], result="R: ERR %s site %s" % (m[1], m[2])),
                              what="reference decoder R rejects a frame produced by %s (%s at site %s): R does not cover this valid frame" % (name.split(" ")[0], m[1], m[2]), no_input=True)
            continue
        if x is not None and m[1] != x:
            ctx.violation(dict(source=name, frame_hex=f.hex()[:100000]), what="R decodes a %s frame to other bytes than its producer intended" % name.split(" ")[0])
            continue
        valid.append((i, name, f, m[1], codec.trace_signature(codec.parse_trace(m[2]))))
    ctx.notes["frames_total"] = len(frames)
    ctx.notes["frames_R_accepts"] = len(valid)
    ctx.notes["frames_R_rejects_by_source"] = rejected
    variants = QUICK_VARIANTS if ctx.quick else ALL_VARIANTS
    per_variant = {}
    for v in variants:
        cd = codec.Codec(ctx, v)
        lines = []
        for i, name, f, y, sig in valid:
            for pth, fl in PATHS:
                if pth == "stream:1000:1" and len(y) > 1000000:
                    continue        # one output byte per call: the harness gives up after 2,000,000 calls
                if len(y) > 4000000 and pth.split("@")[0] in ("stream:1:0", "stream:5:3", "stream:3:0"):
                    continue        # same guard, input side
                lines.append("D f%d|%s|%s %s %s - %s %d" % (i, pth, fl, pth.split("@")[0], fl, codec.hx(f), len(y) + (0 if pth.endswith("@exact") else 8)))
            if len(y) == 0:     # empty content: NULL destination of capacity 0 (one-shot and streaming)
                lines.append("D f%d|nulldst|- nulldst - - %s 0" % (i, codec.hx(f)))
        for i, name, db, f, y, sig in dvalid:
            for pth in DPATHS:
                lines.append("D g%d|%s|- %s - %s %s %d" % (i, pth, pth, codec.hx(db), codec.hx(f), len(y) + 8))
        out, errs = cd.impl(lines)
        if errs:
            ctx.violation(dict(kind="harness-crash", variant=v, detail=errs[:2]), what="zv_codec (%s build) crashed while decoding valid frames: %r" % (v, errs[0],))
        nok = 0
        dbyid = {i: (name, db, f, y, sig) for i, name, db, f, y, sig in dvalid}
        for key, rest in list(out.items()):
            if not key.startswith("g"):
                continue
            del out[key]
            fid, pth, fl = key.split("|")
            name, db, f, y, sig = dbyid[int(fid[1:])]
            r = codec.parse_ok(rest)
            if r[0] != "OK" or r[1] != y:
                ctx.violation(dict(variant=v, path=pth, source=name, dict_hex=db.hex()[:60000], frame_hex=f.hex()[:60000], expected_hex=y.hex()[:20000],
                                   result=(r[1] if r[0] == "ERR" else "content differs")),
                              what="valid dictionary frame (accepted by R, %s) is %s by libzstd build '%s' dictionary path %s" % (
                                  name, "rejected (%s)" % r[1] if r[0] == "ERR" else "decoded to different bytes", v, pth))
            else:
                nok += 1
            ctx.count((sig, "dict", v, pth), nontrivial=True)
        byid = {i: (name, f, y, sig) for i, name, f, y, sig in valid}
        for key, rest in out.items():
            fid, pth, fl = key.split("|")
            name, f, y, sig = byid[int(fid[1:])]
            r = codec.parse_ok(rest)
            if r[0] != "OK" or r[1] != y:
                ctx.violation(dict(variant=v, path=pth, dflags=fl, source=name, frame_hex=f.hex()[:200000], expected_len=len(y),
                                   result=(r[1] if r[0] == "ERR" else "content differs (%d bytes)" % len(r[1]))),
                              what="valid frame (accepted by R, %s) is %s by libzstd build '%s' path %s flags %s" % (
                                  name, "rejected (%s)" % r[1] if r[0] == "ERR" else "decoded to different bytes", v, pth, fl),
                              key="C04-x2-build-1stream-literals-size-shortcuts" if (v == "x2" and "[1s-expand]" in name) else None)
            else:
                nok += 1
            ctx.count((sig, name.split(" ")[0], v, pth, fl), nontrivial=len(f) > 9)
        per_variant[v] = nok
        ctx.cov["traces_validated_against_impl"] += nok
    ctx.notes["agreeing_decodes_per_variant"] = per_variant
    # (u) round 2, unit level: the decoder's own table builders against the tables the independent writer computes from the specification:
    #     ZSTD_buildFSETable (every cell: next state base, extra bits, state bits, base value) on random normalised distributions up to the
    #     maximum accuracy logs incl. all-'less than 1' ones; FSE_readNCount on canonical and non-canonical descriptions; HUF_readDTableX1 /
    #     HUF_readDTableX2 (every cell: symbol(s), bits) on complete trees of 2..256 symbols, depth up to 11, direct / FSE-compressed weights
    ucases = c04_gen.unit_table_cases(rng, 120 if ctx.quick else 1500, 60 if ctx.quick else 600)
    nunit = 0
    for uv in (["o1"] if ctx.quick else ["o1", "noasm", "nobmi2"]):
        uexe = core.build_harness("c04_tables", ["c04_tables.c"], variant=uv, lib_exclude=["zstd_decompress_block.c"], extra_flags=["-w"])
        ulines, umeta = [], {}
        for k, c in enumerate(ucases):
            if c[0] == "F":
                ulines.append("F u%d %s %d %s" % (k, c[1], c[2], ",".join(str(q) for q in c[3])))
                umeta["u%d" % k] = (c, False)
            elif c[0] == "N":
                ulines.append("N u%d %d %s" % (k, c[1], c[2].hex()))
                umeta["u%d" % k] = (c, False)
            else:
                ulines.append("H u%dx1 1 %s" % (k, c[1].hex()))
                ulines.append("H u%dx2 2 %s" % (k, c[1].hex()))
                umeta["u%dx1" % k] = (c, False)
                umeta["u%dx2" % k] = (c, True)
        uout, uerrs = codec._run_chunks(uexe, ulines, core.NCPU, 600)
        if uerrs:
            ctx.violation(dict(kind="harness-crash", variant=uv, detail=uerrs[:2]), what="c04_tables (%s build) crashed: %r" % (uv, uerrs[0]))
        for key, (c, x2) in umeta.items():
            diff = c04_gen.unit_table_check(c, uout.get(key, "ERR missing"), x2)
            if diff:
                ctx.violation(dict(kind="unit-table", variant=uv, case=[c[0]] + [q.hex() if isinstance(q, bytes) else (sorted(q.items()) if isinstance(q, dict) else q) for q in c[1:4]], x2=x2, diff=diff),
                              what="table builder of libzstd build '%s' differs from the specified table (%s%s): %s" % (
                                  uv, {"F": "ZSTD_buildFSETable", "N": "FSE_readNCount", "H": "HUF_readDTable"}[c[0]], "X2" if x2 else "", diff))
            else:
                nunit += 1
                ctx.count(("unit", c[0], x2, uv, c[2] if c[0] == "F" else len(c[2]) if c[0] == "N" else len(c[1])), nontrivial=True)
    ctx.notes["unit_table_cases_agreeing"] = nunit
    ctx.cov["traces_validated_against_impl"] += nunit
    for i, name, f, y, sig in valid[:3]:
        ctx.sample(dict(source=name, frame_hex=f.hex()[:300], content_len=len(y)))
    ctx.proof_verdict(None)
